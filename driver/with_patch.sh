#!/bin/sh
# usage: driver/with_patch.sh <patch.diff> <command...>   (applies to /repo, runs, always reverts)
P="$1"; shift
git -C /repo apply "$P" || exit 3
"$@"; RC=$?
git -C /repo checkout -- . 
exit $RC

#!/bin/bash
# usage: driver/confirm_seed.sh <Cxx> <candidate-dir>
# Confirms a seeded change in a scratch worktree: (1) applies, builds with and without verif_hooks,
# (2) baseline suite result identical to the unchanged tree (only the known always-fail test fails),
# (3) demo fails with the change, (4) demo passes without it. Writes <candidate-dir>/confirm.json.
set -u
ID="$1"; DIR="$(cd "$2" && pwd)"
WT=/tmp/confirm_$ID
export CARGO_NET_OFFLINE=true
git -C /repo worktree remove --force $WT 2>/dev/null
git -C /repo worktree add --detach $WT HEAD >/dev/null 2>&1 || { echo "worktree failed"; exit 2; }
cd $WT
export CARGO_TARGET_DIR=$WT/target
FEAT=""
grep -q "json_format\|toml_format" $DIR/seed_demo.rs && FEAT="--features json_format,toml_format"
grep -qi "gzip\|zstd" $DIR/seed_demo.rs && FEAT="--features gzip,zstd"
grep -q "background_rotation" $DIR/seed_demo.rs && FEAT="--features background_rotation"
cp $DIR/seed_demo.rs tests/seed_demo.rs
# demo without the change
cargo test --offline $FEAT --test seed_demo >$DIR/demo_without.log 2>&1; DEMO_WITHOUT=$?
git apply $DIR/patch.diff || { echo "patch does not apply"; git -C /repo worktree remove --force $WT; exit 2; }
cargo build --offline --features verif_hooks >$DIR/build_hooks.log 2>&1; BUILD_HOOKS=$?
cargo test --offline $FEAT --test seed_demo >$DIR/demo_with.log 2>&1; DEMO_WITH=$?
rm tests/seed_demo.rs
cargo test --workspace --no-fail-fast --offline >$DIR/suite_with.log 2>&1
FAILED=$(grep -E "^test .* \.\.\. FAILED" $DIR/suite_with.log | sed 's/^test //; s/ \.\.\. FAILED//' | sort | tr '\n' ' ')
# sum of the "N passed" figures of the result lines (per-test lines can be interleaved with test output)
PASSED=$(grep -E "^test result:" $DIR/suite_with.log | sed -E 's/.* ([0-9]+) passed.*/\1/' | paste -sd+ | bc)
cd /
git -C /repo worktree remove --force $WT
git -C /repo worktree prune
OK=false
if [ "$DEMO_WITHOUT" = 0 ] && [ "$DEMO_WITH" != 0 ] && [ "$BUILD_HOOKS" = 0 ] && [ "$FAILED" = "append::test::expand_env_vars_tests " ] && [ "$PASSED" -ge 57 ]; then OK=true; fi
cat > $DIR/confirm.json <<JSON
{"id": "$ID", "confirmed": $OK, "demo_without_change_rc": $DEMO_WITHOUT, "demo_with_change_rc": $DEMO_WITH,
 "build_with_hooks_rc": $BUILD_HOOKS, "suite_with_change_passed": $PASSED, "suite_with_change_failed": "$FAILED",
 "repo_head": "$(git -C /repo rev-parse --short HEAD)"}
JSON
cat $DIR/confirm.json

"""Shared driver machinery: TLC runner, harness runner, evidence, known findings.

Exit codes used by every check:
  0 property held on everything explored (KNOWN-FINDING lines allowed)
  1 only together with a `VIOLATION property=<id> replay=<path>` line
  2 tool error / timeout / instrumentation missing
"""
import hashlib
import json
import os
import re
import shutil
import subprocess
import sys
import time

VERIF = os.path.dirname(os.path.dirname(os.path.abspath(__file__)))
SPEC = os.path.join(VERIF, "spec")
HARNESS = os.path.join(VERIF, "harness")
WORK = os.path.join(VERIF, "work")
EVID = os.path.join(VERIF, "evidence")
REPLAYS = os.path.join(VERIF, "replays")
REPO = os.environ.get("VERIF_REPO", "/repo")
TLA_CP = "/opt/veriftools/tla/tla2tools.jar:/opt/veriftools/tla/CommunityModules-deps.jar"


class ToolError(Exception):
    pass


def log(*a):
    print(*a, file=sys.stderr, flush=True)


def seed():
    try:
        return int(os.environ.get("VERIF_SEED", "1"))
    except ValueError:
        return 1


def workdir(name, fresh=True):
    d = os.path.join(WORK, name)
    if fresh and os.path.isdir(d):
        shutil.rmtree(d, ignore_errors=True)
    os.makedirs(d, exist_ok=True)
    return d


# ----------------------------------------------------------------------------- TLC

class TlcResult:
    def __init__(self):
        self.generated = 0
        self.distinct = 0
        self.ok = False            # finished without any error
        self.inv_violated = None   # name of violated invariant / property
        self.error_text = ""
        self.replays = []          # decoded JSON objects printed with the REPLAY tag
        self.prints = []           # other PrintT lines
        self.coverage = {}         # action name -> (taken, total)
        self.wall = 0.0
        self.stdout = ""
        self.depth = 0


_REPLAY_RE = re.compile(r'^<<"REPLAY", "(.*)">>$')


def _unescape_tla(s):
    out = []
    i = 0
    while i < len(s):
        c = s[i]
        if c == "\\" and i + 1 < len(s):
            n = s[i + 1]
            if n == "n":
                out.append("\n")
            elif n == "t":
                out.append("\t")
            elif n == "r":
                out.append("\r")
            elif n == "f":
                out.append("\f")
            else:
                out.append(n)
            i += 2
        else:
            out.append(c)
            i += 1
    return "".join(out)


def run_tlc(module, cfg, name, workers=8, timeout=900, env=None, simulate=None,
            depth=None, coverage=True, xmx="6g", deadlock=False, extra=None,
            depth_first=False, seed_val=None, keep_stdout=False):
    """Runs TLC on spec/<module>.tla with spec/<cfg>. Returns TlcResult.

    Raises ToolError on timeouts, parse errors or evaluation errors that are not
    invariant violations."""
    meta = workdir("tlc_" + name)
    # (TLC unpacks its standard modules into a fresh directory below java.io.tmpdir at every start and leaves it there:
    # kept inside the run's own metadata directory, which is wiped at the next run)
    tmpd = os.path.join(meta, "jtmp")
    os.makedirs(tmpd, exist_ok=True)
    jopts = "-Xss1g -Djava.io.tmpdir=" + tmpd
    if depth_first:
        jopts += " -Dtlc2.tool.queue.IStateQueue=StateDeque"
    e = dict(os.environ)
    e["JAVA_TOOL_OPTIONS"] = jopts
    if env:
        e.update({k: str(v) for k, v in env.items()})
    cmd = ["timeout", str(timeout), "java", "-XX:+UseParallelGC", "-Xmx" + xmx, "-cp", TLA_CP,
           "tlc2.TLC", "-workers", str(workers), "-metadir", meta, "-cleanup",
           "-noGenerateSpecTE", "-config", cfg]
    if coverage and not simulate:
        cmd += ["-coverage", "1"]
    if deadlock:
        cmd += ["-deadlock"]
    if simulate:
        cmd += ["-simulate", "num=%d" % simulate]
        if depth:
            cmd += ["-depth", str(depth)]
        cmd += ["-seed", str(seed_val if seed_val is not None else seed())]
    if extra:
        cmd += extra
    cmd += [module + ".tla"]
    t0 = time.time()
    p = subprocess.run(cmd, cwd=SPEC, env=e, stdout=subprocess.PIPE, stderr=subprocess.STDOUT,
                       text=True, errors="replace")
    r = TlcResult()
    r.wall = time.time() - t0
    log("TLC %s/%s: %.1fs" % (module, cfg, r.wall))
    out = p.stdout
    if keep_stdout:
        r.stdout = out
    with open(os.path.join(WORK, "tlc_%s.out" % name), "w") as f:
        f.write(out)
    shutil.rmtree(meta, ignore_errors=True)
    if p.returncode == 124:
        raise ToolError("TLC timeout after %ss on %s/%s" % (timeout, module, cfg))
    cur_action = None
    for line in out.splitlines():
        m = _REPLAY_RE.match(line)
        if m:
            try:
                try:
                    inner = json.loads('"' + m.group(1) + '"')
                except ValueError:
                    inner = _unescape_tla(m.group(1))
                r.replays.append(json.loads(inner))
            except Exception as ex:
                raise ToolError("cannot decode REPLAY line: %r (%s)" % (line[:200], ex))
            continue
        if line.startswith("<<") or line.startswith('"'):
            r.prints.append(line)
            continue
        m = re.match(r"^(\d+) states generated, (\d+) distinct states found", line)
        if m:
            r.generated = int(m.group(1))
            r.distinct = int(m.group(2))
            continue
        m = re.match(r"^The depth of the complete state graph search is (\d+)", line)
        if m:
            r.depth = int(m.group(1))
        m = re.match(r"^<(\w+) line \d+, col \d+ to line \d+, col \d+ of module (\w+)(?: \([\d ]+\))?>: (\d+):(\d+)", line)
        if m:
            prev = r.coverage.get(m.group(1), (0, 0))
            r.coverage[m.group(1)] = (prev[0] + int(m.group(3)), prev[1] + int(m.group(4)))
            continue
        m = re.match(r"^Error: Invariant (\S+) is violated", line)
        if m:
            r.inv_violated = m.group(1)
        m = re.match(r"^Error: Action property (\S+) is violated", line)
        if m:
            r.inv_violated = m.group(1)
        if line.startswith("Error: Temporal properties were violated"):
            r.inv_violated = "temporal"
        m = re.match(r"^Error: Temporal property (\S+) was violated", line)
        if m:
            r.inv_violated = m.group(1)
    if simulate:
        m = re.search(r"The number of states generated: (\d+)", out)
        if m:
            r.generated = int(m.group(1))
            r.distinct = r.generated
    finished = ("Model checking completed. No error has been found." in out) or \
               (simulate and p.returncode == 0)
    if finished:
        r.ok = True
        return r
    if r.inv_violated:
        idx = out.find("Error:")
        r.error_text = out[idx:idx + 6000]
        return r
    idx = out.find("Error:")
    raise ToolError("TLC failed on %s/%s (rc=%s): %s" % (
        module, cfg, p.returncode, out[idx:idx + 3000] if idx >= 0 else out[-3000:]))


def require_actions(res, names, what):
    """Vacuity control: every listed action must have been taken at least once."""
    missing = [n for n in names if res.coverage.get(n, (0, 0))[0] == 0]
    if missing:
        raise ToolError("vacuous model run (%s): actions never taken: %s" % (what, missing))


# ----------------------------------------------------------------------------- harness

_built = {}


def build_harness(release=False, features=None):
    key = (release, tuple(features or ()))
    if key in _built:
        return _built[key]
    lock_src = os.path.join(REPO, "Cargo.lock")
    lock_dst = os.path.join(HARNESS, "Cargo.lock")
    if not os.path.exists(lock_dst) and os.path.exists(lock_src):
        shutil.copy(lock_src, lock_dst)
    cmd = ["cargo", "build", "--offline", "--quiet"]
    if release:
        cmd.append("--release")
    tdir = "target"
    if features:
        # a feature build gets a target directory of its own: both binaries stay cached side by side
        tdir = "target-" + "-".join(features)
        cmd += ["--features", ",".join(features), "--target-dir", tdir]
    e = dict(os.environ)
    e["CARGO_NET_OFFLINE"] = "true"
    t0 = time.time()
    p = subprocess.run(cmd, cwd=HARNESS, env=e, stdout=subprocess.PIPE, stderr=subprocess.STDOUT,
                       text=True)
    if p.returncode != 0:
        raise ToolError("harness build failed:\n" + p.stdout[-4000:])
    log("harness built in %.1fs" % (time.time() - t0))
    path = os.path.join(HARNESS, tdir, "release" if release else "debug", "lv-harness")
    _built[key] = path
    return path


def run_harness(args, stdin_text=None, timeout=1200, env=None, release=False, cwd=None,
                allow_rc=(0,), features=None):
    exe = build_harness(release=release, features=features)
    e = dict(os.environ)
    e["RUST_BACKTRACE"] = "0"        # anyhow captures a backtrace per error when this is on: 5x slower
    e["RUST_LIB_BACKTRACE"] = "0"
    if env:
        e.update({k: str(v) for k, v in env.items()})
    try:
        p = subprocess.run([exe] + list(args), input=stdin_text, cwd=cwd or WORK, env=e,
                           stdout=subprocess.PIPE, stderr=subprocess.PIPE, text=True,
                           timeout=timeout, errors="replace")
    except subprocess.TimeoutExpired:
        raise ToolError("harness timeout: %s" % (args,))
    if p.returncode not in allow_rc:
        raise ToolError("harness %s exited %s: %s" % (args, p.returncode, p.stderr[-3000:]))
    return p


def read_ndjson(path):
    out = []
    with open(path) as f:
        for line in f:
            line = line.strip()
            if line:
                out.append(json.loads(line))
    return out


def write_ndjson(path, rows):
    with open(path, "w") as f:
        for r in rows:
            f.write(json.dumps(r, separators=(",", ":")))
            f.write("\n")


# ----------------------------------------------------------------------------- findings

def load_known():
    p = os.path.join(VERIF, "known_findings.json")
    if not os.path.exists(p):
        return []
    with open(p) as f:
        return json.load(f).get("findings", [])


def match_known(pid, mismatch):
    """A mismatch (dict) matches an open finding when every key of the finding's `match`
    is present in the mismatch's `key` dict with the same value (values may be lists of
    alternatives)."""
    key = mismatch.get("key", {})
    for f in load_known():
        if f.get("property") != pid or f.get("status") != "open":
            continue
        ok = True
        for k, v in f.get("match", {}).items():
            have = key.get(k)
            if isinstance(v, list):
                if have not in v:
                    ok = False
            elif have != v:
                ok = False
        if ok:
            return f
    return None


# ----------------------------------------------------------------------------- result

def _additions(pid):
    """what was added to a check after its rule text was written (the same text MANIFEST.json carries)"""
    try:
        from driver.gen_manifest import EXTRA
        t = EXTRA.get(pid, "")
        return (" Added since: " + t) if t else ""
    except Exception:
        return ""


class Run:
    """Collects the outcome of one check run and writes evidence / verdict."""

    def __init__(self, pid, tier, level):
        self.pid = pid
        self.tier = tier
        self.level = level
        self.t0 = time.time()
        self.states = 0
        self.transitions = 0
        self.traces = 0
        self.evaluations = 0
        self.nontrivial = 0
        self.rule = ""
        self.samples = []
        self.assumptions = []
        self.extra = {}
        self.mismatches = []
        self.exhaustive = False

    def add_tlc(self, res):
        self.states += res.distinct
        self.transitions += res.generated

    def mismatch(self, key, detail):
        """key: small dict identifying the failing input (matched against known findings);
        detail: anything JSON-serialisable to put in the replay file."""
        self.mismatches.append({"key": key, "detail": detail})

    def finish(self):
        os.makedirs(EVID, exist_ok=True)
        os.makedirs(REPLAYS, exist_ok=True)
        known_hits = {}
        violations = []
        for m in self.mismatches:
            f = match_known(self.pid, m)
            if f:
                known_hits.setdefault(f["id"], [f, 0])[1] += 1
            else:
                violations.append(m)
        for fid, (f, n) in sorted(known_hits.items()):
            print("KNOWN-FINDING: property=%s %s [%s, %d case(s)]" % (self.pid, f["what"], fid, n))
        cov = {
            "states": self.states,
            "transitions": self.transitions,
            "traces_validated_against_impl": self.traces,
            "evaluations": self.evaluations,
            "distinct_nontrivial": self.nontrivial,
            "rule": self.rule + _additions(self.pid),
            "samples": self.samples[:8] if self.samples else ["(none)"],
            "exhaustive": self.exhaustive,
            "known_findings_hit": {k: v[1] for k, v in known_hits.items()},
        }
        cov.update(self.extra)
        ev = {
            "property_id": self.pid,
            "tier": self.tier,
            "seed": seed(),
            "level": self.level,
            "coverage": cov,
            "assumptions": self.assumptions,
            "wall_s": round(time.time() - self.t0, 2),
            "violations": len(violations),
        }
        with open(os.path.join(EVID, self.pid + ".json"), "w") as f:
            json.dump(ev, f, indent=1, sort_keys=True)
            f.write("\n")
        if violations:
            v = violations[0]
            h = hashlib.sha1(json.dumps(v, sort_keys=True).encode()).hexdigest()[:10]
            path = os.path.join(REPLAYS, "%s_%s.json" % (self.pid, h))
            with open(path, "w") as f:
                json.dump({"property": self.pid, "tier": self.tier, "seed": seed(),
                           "first": v, "count": len(violations),
                           "others": violations[1:20]}, f, indent=1)
                f.write("\n")
            log("%d violation(s); first: %s" % (len(violations), json.dumps(v)[:1500]))
            print("VIOLATION property=%s replay=%s" % (self.pid, path))
            sys.stdout.flush()
            return 1
        print("OK property=%s tier=%s states=%d transitions=%d impl_cases=%d wall=%.1fs" % (
            self.pid, self.tier, self.states, self.transitions, self.traces,
            time.time() - self.t0))
        return 0


# ----------------------------------------------------------------------------- generic spec -> impl step

def emit_and_replay(run, module, cfg, name, harness_cmd, timeout=900, header=None, keep=None,
                    harness_env=None, **tlc_kw):
    """Runs TLC (model-checks the invariants of cfg and collects REPLAY cases), then replays the
    cases with `lv-harness <harness_cmd> cases.ndjson out.ndjson`. Returns (cases, mismatches,
    summary, tlc_result); a violated model invariant is recorded as a mismatch of kind "model"."""
    tlc_kw.setdefault("coverage", False)
    res = run_tlc(module, cfg, name, timeout=timeout, **tlc_kw)
    if res.inv_violated:
        run.mismatch({"kind": "model", "invariant": res.inv_violated, "cfg": cfg},
                     {"tlc": res.error_text[:6000]})
        return [], [], {}, res
    run.add_tlc(res)
    cases = res.replays
    if keep:
        cases = [c for c in cases if keep(c)]
    if not cases:
        raise ToolError("no replay cases emitted by %s/%s" % (module, cfg))
    wd = workdir(name)
    inp = os.path.join(wd, "cases.ndjson")
    outp = os.path.join(wd, "out.ndjson")
    write_ndjson(inp, (header or []) + cases)
    p = run_harness(list(harness_cmd) + [inp, outp], timeout=timeout, env=harness_env)
    try:
        summ = json.loads(p.stdout.strip().splitlines()[-1])
    except Exception:
        raise ToolError("harness printed no summary: %r" % p.stdout[-500:])
    if summ.get("cases") != len(cases):
        raise ToolError("harness processed %s of %s cases" % (summ.get("cases"), len(cases)))
    mism = read_ndjson(outp)
    run.traces += len(cases)
    return cases, mism, summ, res


# ----------------------------------------------------------------------------- impl -> spec trace validation

def validate_trace(run, module, cfg, name, trace_path, timeout=900, key=None, linear=True):
    """Runs the Trace_* specification over a recorded ndjson trace. Returns TlcResult or None when the
    trace was rejected / an invariant failed (a mismatch is recorded)."""
    nlines = sum(1 for _ in open(trace_path))
    meta = workdir("tlc_" + name)
    e = dict(os.environ)
    os.makedirs(os.path.join(meta, "jtmp"), exist_ok=True)
    e["JAVA_TOOL_OPTIONS"] = "-Xss1g -Dtlc2.tool.queue.IStateQueue=StateDeque -Djava.io.tmpdir=" + os.path.join(meta, "jtmp")
    e["TRACE"] = trace_path
    cmd = ["timeout", str(timeout), "java", "-XX:+UseParallelGC", "-Xmx4g", "-cp", TLA_CP, "tlc2.TLC",
           "-workers", "1", "-metadir", meta, "-cleanup", "-noGenerateSpecTE", "-config", cfg, module + ".tla"]
    t0 = time.time()
    p = subprocess.run(cmd, cwd=SPEC, env=e, stdout=subprocess.PIPE, stderr=subprocess.STDOUT, text=True,
                       errors="replace")
    out = p.stdout
    with open(os.path.join(WORK, "tlc_%s.out" % name), "w") as f:
        f.write(out)
    shutil.rmtree(meta, ignore_errors=True)
    log("TLC trace %s/%s (%d events): %.1fs" % (module, cfg, nlines, time.time() - t0))
    if p.returncode == 124:
        raise ToolError("TLC timeout validating %s" % trace_path)
    r = TlcResult()
    m = re.search(r"(\d+) states generated, (\d+) distinct states found", out)
    if m:
        r.generated, r.distinct = int(m.group(1)), int(m.group(2))
    k = dict(key or {})
    m = re.search(r'<<"TRACE-REJECTED", (\d+), "?(.*?)"?>>\s*$', out, re.M)
    if m:
        idx = int(m.group(1))
        ev = None
        try:
            with open(trace_path) as f:
                lines = f.readlines()
            ev = json.loads(lines[idx - 1]) if idx - 1 < len(lines) else "end"
            ctx = [json.loads(x) for x in lines[max(0, idx - 8): idx + 2]]
        except Exception:
            ctx = []
        k.update({"kind": "trace rejected", "event": (ev or {}).get("e") if isinstance(ev, dict) else ev})
        run.mismatch(k, {"first_unmatched_index": idx, "first_unmatched_event": ev, "context": ctx,
                         "trace": trace_path})
        return None
    m = re.search(r"Error: Invariant (\S+) is violated", out)
    if m:
        k.update({"kind": "trace invariant", "invariant": m.group(1)})
        idx = out.find("Error: Invariant")
        run.mismatch(k, {"tlc": out[idx: idx + 5000], "trace": trace_path})
        return None
    if "Model checking completed. No error has been found." not in out:
        idx = out.find("Error:")
        raise ToolError("TLC failed validating trace %s: %s" % (trace_path, out[idx: idx + 3000] if idx >= 0 else out[-2000:]))
    if linear and r.distinct != nlines + 1:
        raise ToolError("trace %s: %d events but %d states" % (trace_path, nlines, r.distinct))
    r.ok = True
    return r

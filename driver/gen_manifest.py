#!/usr/bin/env python3
"""Generates /verif/MANIFEST.json from the table below (one source of truth for the interface)."""
import json
import os
import subprocess

VERIF = os.path.dirname(os.path.dirname(os.path.abspath(__file__)))

TLC_BASE = ("TLA+ module text is the reviewed specification; TLC explores it only inside the stated bound; "
            "the Rust harness (lv-harness) and its projection functions are trusted")

CHECKS = {
    "C01": dict(
        category="model_checking",
        technique="TLA+ spec (Routing.tla) model-checked by TLC; every reachable configuration replayed "
                  "against log4rs::Logger (spec->impl conformance)",
        text="Routing.tla states the declarative routing (longest component-wise prefix, additive chain) and the "
             "tree machine the code implements (length-sorted insertion in every tie-break order, implied "
             "intermediates, first-missing-child walk). TLC proves inside the bound that both agree for every "
             "target and that the tree does not depend on insertion order; every configuration TLC reaches is then "
             "built through the public builders in every declaration order and every (target, level) pair is logged "
             "through the real Logger and compared with the specification's table (deliveries per appender, "
             "enabled(), max_log_level()).",
        note=TLC_BASE + "; names over {a,b,:} from a curated pool, <= 2 loggers (quick), 121 targets of length <= 4",
        design="7/C01"),
    "C02": dict(
        category="model_checking",
        technique="TLA+ spec (LevelGate.tla + Routing.tla) model-checked by TLC; every init/set_config transition "
                  "replayed in child processes through the log facade (spec->impl conformance)",
        text="LevelGate.tla makes the facade's global maximum explicit state next to the installed configuration; "
             "TLC checks GlobalMaxExact / FacadeNeverHides / MacrosReachRouting over all histories of the pool. "
             "Every (previous, next) configuration pair is then walked in real child processes (init_config, "
             "init_config_with_err_handler, init_raw_config; Handle::set_config) and after each step "
             "log::max_level(), Log::enabled and what log::log! delivers are compared for every target and level; "
             "long seeded histories through Routing.tla's configuration space add breadth. The static part "
             "(max_log_level(), enabled() for 162k configurations) is also compared by the C01 replay.",
        note=TLC_BASE + "; sequential reconfigurations only; 10-configuration pool for exhaustive pairs, "
             "12k (quick) / 42k (thorough) sampled configurations for the long histories",
        design="7/C02"),
    "C03": dict(
        category="model_checking",
        technique="TLA+ spec (Fanout.tla) model-checked by TLC; every behaviour replayed with scripted "
                  "Filter/Append implementations on the real Logger (spec->impl conformance)",
        text="Fanout.tla models the fan-out as one action per filter consultation / append call / handler call. TLC "
             "checks ChainLaw, ShortCircuit and HandlerOncePerError for every assignment of chains (all sequences "
             "over Accept/Neutral/Reject up to length 3) and Ok/Err outcomes, with an appender attached twice; each "
             "case is replayed on log4rs::Logger with scripted filters that record every call, and the real "
             "ThresholdFilter is compared on all 6x5 level pairs.",
        note=TLC_BASE + "; 2 appenders x chains <= 3 (quick), 3 appenders x chains <= 2 (thorough)",
        design="7/C03"),
    "C13": dict(
        category="model_checking",
        technique="TLA+ spec (ConfigBuild.tla) model-checked by TLC; every builder input replayed through "
                  "Config::builder().build / build_lossy (spec->impl conformance)",
        text="ConfigBuild.tla gives the declarative meaning of well-formed / lossy result / error set and the "
             "three-pass machine the code implements; TLC checks StrictIff, ErrorsNameExactlyOffenders, "
             "LossyIsValidSubsequence, AcceptedIsInstallable for every input of the bound and NameLaw for all 1093 "
             "strings <= 6 over {a,b,:}; each input is replayed on the real builders (strict and lossy), the error "
             "set compared as must/may sets, and every returned Config installed and logged through under "
             "catch_unwind.",
        note=TLC_BASE + "; name validity follows the code's reading (colon runs of length exactly 2)",
        design="7/C13"),
}

NOT_YET = "check not built yet in this round (planned, see DESIGN.md section 7)"


def main():
    props = [json.loads(l)["id"] for l in open(os.path.join(VERIF, "properties.jsonl"))]
    try:
        commits = subprocess.run(["git", "-C", "/repo", "log", "--format=%h %s", "--grep", "^verif hooks"],
                                 stdout=subprocess.PIPE, text=True).stdout.strip().splitlines()
    except Exception:
        commits = []
    checks = []
    for pid in props:
        if pid not in CHECKS:
            continue
        c = CHECKS[pid]
        checks.append({
            "property_id": pid,
            "quick_cmd": "./check %s --tier quick" % pid,
            "thorough_cmd": "./check %s --tier thorough" % pid,
            "evidence_file": "/verif/evidence/%s.json" % pid,
            "replay_cmd_template": "./check %s --replay {path}" % pid,
            "engine": "tlc+lv-harness",
            "level_claimed": {"category": c["category"], "text": c["text"], "design_ref": c["design"]},
            "level_note": c["note"],
            "technique": c["technique"],
        })
    na = [{"property_id": p, "reason": NOT_YET} for p in props if p not in CHECKS]
    m = {
        "version": 1,
        "setup_cmd": "cd /verif/harness && cp -n /repo/Cargo.lock Cargo.lock; CARGO_NET_OFFLINE=true cargo build --offline --quiet "
                     "&& cd /verif && tla-sany spec/Routing.tla >/dev/null",
        "hooks": {
            "guard": "cargo feature `verif_hooks` of the log4rs crate",
            "enable": "the harness crate depends on log4rs by path (/repo) with features = [..., \"verif_hooks\"]; "
                      "cargo build in /verif/harness rebuilds /repo's working tree",
            "baseline_off_cmd": "cd /repo && cargo test --workspace --no-fail-fast --offline",
            "source_commits": commits,
            "add_only": True,
        },
        "engines": [
            {"name": "tlc", "path": "/verif/spec", "kind_free_text": "TLA+ specifications checked with TLC 1.8 "
             "(exhaustive in small bounds, -simulate beyond); emit replay cases / validate recorded traces",
             "serves_properties": sorted(CHECKS)},
            {"name": "lv-harness", "path": "/verif/harness", "kind_free_text": "Rust crate linked against /repo "
             "(path dependency, feature verif_hooks): replays TLC-generated behaviours on the real types and "
             "records traces from real threads", "serves_properties": sorted(CHECKS)},
            {"name": "driver", "path": "/verif/driver", "kind_free_text": "Python 3 stdlib: runs TLC and the harness, "
             "matches known findings, writes evidence", "serves_properties": sorted(CHECKS)},
        ],
        "checks": checks,
        "not_applicable": na,
        "notes": "See DESIGN.md. Exit codes: 0 held, 1 with VIOLATION line, 2 tool error. Known findings: "
                 "/verif/known_findings.json.",
    }
    with open(os.path.join(VERIF, "MANIFEST.json"), "w") as f:
        json.dump(m, f, indent=1)
        f.write("\n")


if __name__ == "__main__":
    main()

#!/usr/bin/env python3
"""Generates /verif/MANIFEST.json from the table below (one source of truth for the interface)."""
import json
import os
import subprocess

VERIF = os.path.dirname(os.path.dirname(os.path.abspath(__file__)))

TLC_BASE = ("TLA+ module text is the reviewed specification; TLC explores it only inside the stated bound; "
            "the Rust harness (lv-harness) and its projection functions are trusted")

CHECKS = {
    "C01": dict(
        category="model_checking",
        technique="TLA+ spec (Routing.tla) model-checked by TLC; every reachable configuration replayed "
                  "against log4rs::Logger (spec->impl conformance)",
        text="Routing.tla states the declarative routing (longest component-wise prefix, additive chain) and the "
             "tree machine the code implements (length-sorted insertion in every tie-break order, implied "
             "intermediates, first-missing-child walk). TLC proves inside the bound that both agree for every "
             "target and that the tree does not depend on insertion order; every configuration TLC reaches is then "
             "built through the public builders in every declaration order and every (target, level) pair is logged "
             "through the real Logger and compared with the specification's table (deliveries per appender, "
             "enabled(), max_log_level()).",
        note=TLC_BASE + "; names over {a,b,:} from a curated pool, <= 2 loggers (quick), 121 targets of length <= 4",
        design="7/C01"),
    "C02": dict(
        category="model_checking",
        technique="TLA+ spec (LevelGate.tla + Routing.tla) model-checked by TLC; every init/set_config transition "
                  "replayed in child processes through the log facade (spec->impl conformance)",
        text="LevelGate.tla makes the facade's global maximum explicit state next to the installed configuration; "
             "TLC checks GlobalMaxExact / FacadeNeverHides / MacrosReachRouting over all histories of the pool. "
             "Every (previous, next) configuration pair is then walked in real child processes (init_config, "
             "init_config_with_err_handler, init_raw_config; Handle::set_config) and after each step "
             "log::max_level(), Log::enabled and what log::log! delivers are compared for every target and level; "
             "long seeded histories through Routing.tla's configuration space add breadth. The static part "
             "(max_log_level(), enabled() for 162k configurations) is also compared by the C01 replay.",
        note=TLC_BASE + "; sequential reconfigurations only; 10-configuration pool for exhaustive pairs, "
             "12k (quick) / 42k (thorough) sampled configurations for the long histories",
        design="7/C02"),
    "C03": dict(
        category="model_checking",
        technique="TLA+ spec (Fanout.tla) model-checked by TLC; every behaviour replayed with scripted "
                  "Filter/Append implementations on the real Logger (spec->impl conformance)",
        text="Fanout.tla models the fan-out as one action per filter consultation / append call / handler call. TLC "
             "checks ChainLaw, ShortCircuit and HandlerOncePerError for every assignment of chains (all sequences "
             "over Accept/Neutral/Reject up to length 3) and Ok/Err outcomes, with an appender attached twice; each "
             "case is replayed on log4rs::Logger with scripted filters that record every call, and the real "
             "ThresholdFilter is compared on all 6x5 level pairs.",
        note=TLC_BASE + "; 2 appenders x chains <= 3 (quick), 3 appenders x chains <= 2 (thorough)",
        design="7/C03"),
    "C13": dict(
        category="model_checking",
        technique="TLA+ spec (ConfigBuild.tla) model-checked by TLC; every builder input replayed through "
                  "Config::builder().build / build_lossy (spec->impl conformance)",
        text="ConfigBuild.tla gives the declarative meaning of well-formed / lossy result / error set and the "
             "three-pass machine the code implements; TLC checks StrictIff, ErrorsNameExactlyOffenders, "
             "LossyIsValidSubsequence, AcceptedIsInstallable for every input of the bound and NameLaw for all 1093 "
             "strings <= 6 over {a,b,:}; each input is replayed on the real builders (strict and lossy), the error "
             "set compared as must/may sets, and every returned Config installed and logged through under "
             "catch_unwind.",
        note=TLC_BASE + "; name validity follows the code's reading (colon runs of length exactly 2)",
        design="7/C13"),
    "C05": dict(
        category="model_checking",
        technique="TLA+ spec (Rolling.tla) model-checked by TLC (exhaustive in small instances, -simulate for long "
                  "lifetimes); every complete behaviour of the history-carrying instances replayed on the real "
                  "RollingFileAppender with directory comparison after every operation (spec->impl); traces of 2-4 real "
                  "threads validated against the same specification (Trace_Rolling.tla, impl->spec); "
                  "BackgroundRotation.tla model-checked (with liveness) and bound through a second harness build",
        text="Rolling.tla is a step machine of append (get_writer, pre-trigger, roller steps, reopen, write+flush, "
             "post-trigger, ack) over a directory with restarts, faults, obstacles and crashes. TLC checks "
             "GapFreeSuffix (oldest-to-newest reading is a suffix of the written stream), NotLessThanIdeal (nothing is "
             "discarded before the retention window demands it, against an atomic fault-free shadow) and "
             "WindowFaultFree. All behaviours of the bounded instances (size / on-start-up / scripted pre / scripted "
             "post triggers, window / delete / count-0 rollers, both modes, restarts) are replayed on the real "
             "appender in three materialisations (small records, records straddling the 1 KiB buffer with a two-chunk "
             "encoder, gzip archives); after every operation each file is parsed back into record ids and compared.",
        note=TLC_BASE + "; sizes in abstract units (10 / 16 / 400 bytes when replayed); compress step atomic; single appender thread in the replay",
        design="7/C05"),
    "C06": dict(
        category="model_checking",
        technique="TLA+ spec (Rolling.tla, size trigger) model-checked by TLC; behaviours replayed with a wrapping "
                  "Policy that compares len_estimate() with the on-disk size at every consultation",
        text="LenExact (writer.len equals the active file's size at every trigger consultation) and SizeBound are TLC "
             "invariants of Rolling.tla; the replay covers limits 0..3, record sizes 1..3, pre-existing contents "
             "absent / empty / 1..3 units, both modes and restarts; the real CompoundPolicy is wrapped so that "
             "LogFile::len_estimate() is compared with fs::metadata(path).len() at every process() call, and the "
             "directory after each append shows whether the roll happened exactly when the size exceeded the limit.",
        note=TLC_BASE + "; sizes in abstract units (10 / 16 / 400 bytes when replayed); compress step atomic; single appender thread in the replay",
        design="7/C06"),
    "C07": dict(
        category="model_checking",
        technique="TLA+ spec (FixedWindow.tla) model-checked by TLC from arbitrary initial directories; every "
                  "behaviour replayed through Roll::roll with five pattern templates and recursive snapshots",
        text="FixedWindow.tla models rotate() as descending shifts plus the final move over a directory whose initial "
             "state is any subset of the indices base-1..base+count; TLC checks WindowLaw, ActiveGone, "
             "OutsideUntouched, RemoveOnly, NoDup for count+2 rolls. Each behaviour is replayed on FixedWindowRoller / "
             "DeleteRoller with the index in the file name, in a directory component, repeated, behind $ENV{..} and "
             "with a .gz pattern; the whole tree (incl. bystander files) is compared after every roll.",
        note=TLC_BASE + "; (base, count) in {(0,2),(1,3),(3,1),(0,0)} + delete roller (quick), 4 more (thorough); "
             "5 content representatives",
        design="7/C07"),
    "C08": dict(
        category="fault_enumeration",
        technique="TLA+ spec (Rolling.tla with StepFails / Obstruct / Crash actions) model-checked by TLC; every "
                  "faulted behaviour replayed with fault hooks, real obstacles and crash images",
        text="Every step of every rotation (each shift index, the final move) is a fault point, a crash point and an "
             "obstacle position in Rolling.tla; TLC checks GapFreeSuffix, NotLessThanIdeal (= retained data is a "
             "superset of what the fault-free shadow retains), Recovers and LenExact over all such behaviours and "
             "their continuations in both modes with size / pre / post triggers. Each behaviour is replayed: faults "
             "through the guarded fault_point hook, obstacles as real non-empty directories, crashes as directory "
             "copies taken inside the hook callback with a new appender built over the copy; results (Ok/Err, never "
             "panic) and the parsed directory are compared after every operation.",
        note=TLC_BASE + "; sizes in abstract units (10 / 16 / 400 bytes when replayed); compress step atomic; single appender thread in the replay; death inside gzip output / cross-mount copy fallback / fsync-level durability out of scope",
        design="7/C08"),
    "C17": dict(
        category="model_checking",
        technique="TLA+ spec (Rolling.tla, on-start-up trigger) model-checked by TLC; behaviours replayed on the real "
                  "OnStartUpTrigger with directory comparison after every append",
        text="AtMostOneRoll per lifetime plus the directory laws of Rolling.tla are checked by TLC for min_size 0..2, "
             "pre-existing sizes absent/0..3, both modes and up to 2 restarts; each behaviour is replayed on the real "
             "trigger + appender: whether the first record (and only it) rotates, that the pre-existing content "
             "becomes the newest archive and the first record starts a fresh file are read off the parsed directory.",
        note=TLC_BASE + "; sizes in abstract units (10 / 16 / 400 bytes when replayed); compress step atomic; single appender thread in the replay; simultaneous first appends are serialised by the appender mutex (threaded scenario: see DESIGN)",
        design="7/C17"),
    "C04": dict(
        category="model_checking",
        technique="TLA+ spec (FileAppender.tla) model-checked by TLC; traces recorded from real threads (hook events "
                  "under the lock, file read inside the hook) validated against the spec with TLC (impl->spec)",
        text="FileAppender.tla models threads x the 1 KiB BufWriter (buffer / spill / write-through rule transcribed "
             "from std) x the lock spanning encode and flush; TLC checks Durable, NotInterleaved, ThreadOrder, "
             "PrefixKept, TruncatedAtOpen, WholeExceptHolder, NoDupNoLoss for 2-3 threads. Real threads then append "
             "records with chunk shapes around the buffer size under a seeded race amplifier; the trace (lock / chunk / "
             "encoded / flushed events with the real file content read while the lock is held, begin / end / saw "
             "events from the callers) must be a behaviour of the specification: the spec's disk must equal the real "
             "file at every encoded and flushed event and every invariant is evaluated at every step.",
        note=TLC_BASE + "; 1 unit = 256 bytes; schedules are sampled (seeded amplifier), not enumerated; hook events "
             "are emitted under the appender lock",
        design="7/C04"),
    "C15": dict(
        category="model_checking",
        technique="TLA+ specs Reconfig.tla (trace validation of real logging / reconfiguring threads, impl->spec), "
                  "Reloader.tla (every edit/poll history replayed through the guarded run_once API, spec->impl; recorded "
                  "lifetimes of the real refresh thread validated as traces, impl->spec) and ReloaderLive.tla (the loop "
                  "at the grain of its system calls: TLC liveness under weak fairness with two negative controls; every "
                  "behaviour replayed through init_file and the real refresh thread, one child process each)",
        text="Reconfig.tla: one swapped snapshot, log = load once then fan-out, set_config = build / set max / store; "
             "TLC checks SnapshotWasCurrent for 2 loggers x 1-2 reconfigurers. Real threads are then traced (directed: "
             "swap while a logger is parked inside appender 1/2/3, swap between load and fan-out, re-entrant "
             "set_config from inside an appender; free-running with an amplifier) with generation-tagged deliveries; "
             "TLC decides whether the trace is a behaviour of the spec (load / store are silent steps), so a mixed "
             "record, a stale record after set_config returned, or a panic is rejected. Reloader.tla transcribes "
             "run_once; AppliesValid, KeepsOnBad, NoSwapIfUnchanged, StopsOnlyOnRateRemoval are TLC action properties "
             "and every history of the bounded instance is replayed in YAML/JSON/TOML with explicit mtimes, comparing "
             "the result class, the active version, the rate and whether the logger was swapped.",
        note=TLC_BASE + "; free-running schedules are sampled; the refresh thread's recorded lifetimes follow 3 fixed scripts; a poll that "
             "raced with an edit is compared by its settled state only; an edit that reproduces the remembered modification "
             "time is outside the model (stated as the editor's promise)",
        design="7/C15"),
    "C19": dict(
        category="model_checking",
        technique="TLA+ spec (EnvExpand.tla: single-pass meaning + scanner machine) model-checked by TLC over all token "
                  "sequences of the bound; every input replayed at the three call sites in a child process",
        text="EnvExpand.tla defines the expansion as one left-to-right pass (well-formed reference to a set variable -> "
             "value, everything else copied) and as a scanner step machine; TLC checks ScannerIsMeaning, NoRefNoChange "
             "and PrefixStable over all sequences of <= 4/5 tokens from a curated set in which whole references are "
             "single tokens. Every input is then used as FileAppender path, RollingFileAppender path and "
             "FixedWindowRoller pattern in a child process with the environment of the model, and the created file "
             "must be at the expanded location (also shown by the appender's Debug).",
        note=TLC_BASE + "; values free of '$'; non-ASCII letters are represented by ASCII placeholders in the spec and "
             "substituted by the harness",
        design="7/C19"),
    "C20": dict(
        category="model_checking",
        technique="TLA+ spec (Literals.tla: literal grammar with symbolic magnitudes and the accept/reject case analysis) "
                  "enumerated by TLC; every literal materialised and replayed through serde in YAML and JSON",
        text="Literals.tla enumerates scalar form x magnitude (2^k+d around every overflow threshold, small numbers, "
             "leading zeros, 20 digits) x whitespace x unit spelling / case x junk x sign / fraction and decides each "
             "literal symbolically (accept with number x 2^(10u) iff the unit is known and the product fits; intervals "
             "must fit i64). The harness materialises each literal with u128 arithmetic, parses it from YAML and JSON "
             "through the public Deserializers (size) / TimeTriggerInterval (interval) under catch_unwind and "
             "compares verdict and value. This is numeric accuracy of a pure function: TLA+ contributes the exhaustive "
             "case analysis and the symbolic thresholds, the harness the big-number arithmetic.",
        note=TLC_BASE + "; the size limit is read back from the trigger's Debug rendering",
        design="7/C20"),
    "C11": dict(
        category="model_checking",
        technique="TLA+ spec (Pattern.tla: parser, Piece->Chunk table and Render transcribed as operators) evaluated by "
                  "TLC on every string of the bound; every string replayed on PatternEncoder under catch_unwind",
        text="TLC evaluates Render(s) for every string s of length <= 4/5 over the 12 syntax characters plus a non-ASCII "
             "letter and for a curated family (all single-character deletions / duplications / neighbour swaps of 20 "
             "well-formed patterns, 20-digit widths, invalid strftime specifiers, invalid zones, wrong arities): Total "
             "(no evaluation error in the transcription) and ErrorVisible (every error piece yields a marker). Each "
             "string is then given to the real PatternEncoder::new and encode under catch_unwind: no panic; the output "
             "must start with the prefix the specification renders and an {ERROR: marker must follow where the "
             "specification has one (or encode returns Err).",
        note=TLC_BASE + "; one record; widths beyond 10^6 are constructed but not encoded; marker wording not compared",
        design="7/C11"),
    "C09": dict(
        category="model_checking",
        technique="TLA+ spec (Pattern.tla + MC_PatternGrammar.tla: token grammar with a parser-independent denotation) "
                  "model-checked by TLC (GrammarAgrees); every well-formed pattern replayed on the real encoder",
        text="Well-formed patterns are generated as sequences of grammar tokens (literal chunks, doubled and backslash "
             "escapes, every formatter with both aliases and width specs, MDC hit/miss/default, date formats and zones, "
             "unnamed / highlight / debug / release groups with closing width specs, nesting depth 2), each token with "
             "its spelling and its meaning; TLC checks that the transcribed parser + chunk table applied to the spelling "
             "yields exactly the concatenated meanings. Every pattern is then encoded by the real PatternEncoder for "
             "three records into a writer that captures bytes and style requests in line, and compared token by token.",
        note=TLC_BASE + "; process / thread ids and strftime output are opaque atoms; colours not compared; dev profile "
             "in the quick tier, release profile for {R(..)} in the thorough tier",
        design="7/C09"),
    "C10": dict(
        category="model_checking",
        technique="TLA+ spec (WidthWriters.tla: the three streaming writers transcribed) model-checked by TLC over "
                  "texts x chunkings x width specs x sink acceptance scripts; every case replayed through the public API",
        text="WidthWriters.tla transcribes MaxWidthWriter, LeftAlignWriter and RightAlignWriter on byte classes and "
             "composes them as Chunk::encode does; TLC checks WidthLaw (= cut to max characters then pad to min), "
             "AtMostM and Utf8Whole for every text of the bound, every character-boundary chunking of the producer and "
             "every acceptance script of the sink (partial writes). Each case is replayed: the message is a Display "
             "writing the pieces one by one, the capturing encode::Write accepts bytes per the script; the output must "
             "be valid UTF-8, at most max characters and equal to the law's text.",
        note=TLC_BASE + "; min <= max for the exact law, only the bound for min > max",
        design="7/C10"),
    "C12": dict(
        category="model_checking",
        technique="TLA+ spec (JsonLine.tla: record space by character class + the line contract's member rule) "
                  "enumerated by TLC; every record encoded by the real JsonEncoder and parsed back by Python's json",
        text="JsonLine.tla enumerates records (text fields as class sequences over the characters a JSON writer must "
             "treat specially, optional fields present / absent, thread named / unnamed, line numbers, MDC maps) and "
             "states which members the line must have. The harness instantiates each class with several "
             "representatives, encodes with the real encoder (after an earlier encode into a failing sink on the same "
             "thread) and the driver checks the raw bytes (one object, exactly one trailing newline, no raw byte below "
             "0x20) and compares every parsed field with the record. The fidelity verdict rests on the parser and the "
             "representatives; TLA+ supplies the enumeration and the expected abstract line.",
        note=TLC_BASE + "; Python json as independent reader; at most two fields deviate from the default per record",
        design="7/C12"),
    "C18": dict(
        category="model_checking",
        technique="TLA+ spec (Console.tla: environment x terminal x options decision table, SGR encoding) enumerated and "
                  "checked by TLC; each row replayed in a child process on ptys / pipes, each style on AnsiWriter",
        text="Console.tla defines the colour mode by the documented precedence, Writes = ~tty_only \\/ IsTty(target) and "
             "Coloured; TLC enumerates all 432 rows and 243 styles and checks NoColorWins, ForceBeatsClicolor, "
             "PipesPlainInAuto, TtyOnlyIgnoresColour, SgrLength. Each row runs in its own child process with stdout / "
             "stderr attached to a pty or a pipe and the bytes of both streams are compared (silent, plain text, or "
             "text with well-formed SGR sequences and a reset after each highlighted group, for all five levels and "
             "nested highlight groups); each style is sent through AnsiWriter over a Vec under catch_unwind.",
        note=TLC_BASE + "; unix only; colours per level not compared",
        design="7/C18"),
    "C16": dict(
        category="model_checking",
        technique="TLA+ spec (TimeTrigger.tla: proleptic Gregorian calendar, schedule function, trigger machine) "
                  "model-checked by TLC on a dense grid and on arrival histories; replayed per time zone in child "
                  "processes with the guarded clock override",
        text="TimeTrigger.tla defines days-from-civil and its inverse, weekday, ordinal and ISO week on (day, second) "
             "pairs and NextTime for the seven units with and without modulation; TLC checks GStrict, GAligned, "
             "GRoundTrip on the grid and StrictlyFuture, OncePerBoundary, RescheduleFromNow on all histories of three "
             "record arrivals. The grid is replayed through the guarded schedule wrapper in 3 fixed-offset and 4-5 "
             "DST zones (both readings of ambiguous local times; under catch_unwind): exact local result wherever the "
             "UTC offset is the same at both ends, strictly-future otherwise. Histories drive a real rolling "
             "appender with the time trigger under the clock override: when it rolls, that the firing record starts "
             "the fresh file, and the scheduled instant after every step are compared.",
        note=TLC_BASE + "; n >= 1; zones from the system tzdata via TZ; histories only in fixed-offset zones",
        design="7/C16"),
    "C14": dict(
        category="model_checking",
        technique="TLA+ spec (ConfigFile.tla: logical documents, injected defects, outcome classes, surviving "
                  "configuration over RoutingOps.tla) checked by TLC; every document rendered into YAML / JSON / TOML and "
                  "loaded through the lossy and the strict pipeline",
        text="A logical document is format independent (sections, optional fields, at most one injected defect); "
             "Decide classifies it as rejected / partial / loaded and gives the surviving configuration, whose routing "
             "meaning is C01's. TLC checks LossyKeepsRest and StrictIffNoDefect and enumerates 47k documents. The "
             "harness renders each into the three formats and loads it with load_config_file (lossy) and with serde -> "
             "RawConfig -> appenders -> strict build under catch_unwind; the class, the surviving appenders, the "
             "deliveries of 25 probe records through a capture appender (incl. threshold filters and dropped broken "
             "filters), the refresh rate, the append default and the encoder defaults must be what the specification "
             "says in all three formats - hence equal to each other.",
        note=TLC_BASE + "; one defect per document; real file / rolling / console appenders are built in scratch "
             "directories",
        design="7/C14"),
}

EXTRA = {'C01': 'Each configuration additionally runs with failing appenders (none / all / one): deliveries are unchanged '
        'and the error handler is called once per failed delivery (Reported). Strict and lossy builds alternate; a '
        'third of the builds give the root its level afterwards through Config::root_mut(). Scale: 255 .. 65537 '
        'configured sibling loggers. Declarations reach the builders one at a time, in bulk, mixed, or through bulk '
        'calls with one item. A second instance (MC_Routing_long) has a ten-character name of one component next to '
        'names of two and three components, with targets up to three components below them. A second pass over every '
        'third configuration logs level by level with every target copied into one reused buffer (routing is by the '
        'text of the target, not by where it lives or what the previous call was turned away for). A further scale '
        'configuration declares 2^18 + 1 sibling loggers, each with a level of its own, and probes every one of '
        'them.',
 'C02': ' Every other record goes the way the macro goes but carries the name of a configured logger as module path '
        "and file. The configuration pool spells names with '-' and '_' (distinct loggers, both spellings as "
        'targets). Every other reconfiguration of a history lands inside a log call of the same thread (at the '
        "call's first load of the shared state): the record in flight is delivered as one of the two configurations "
        'says. Every other build declares the loggers in reverse order (deeper names before their ancestors).',
 'C03': 'Sinks are Append implementors and log::Log implementors attached through the blanket adapter (whose own '
        'enabled() says no); builder styles filter()/filters() are mixed. The real ThresholdFilter takes Neutral / '
        'Reject positions inside scripted chains; a child process counts the calls of the handler given to '
        'init_config_with_err_handler across reconfigurations. Scale: 255 .. 70001 declared appenders with '
        'attachments around 2^8 / 2^16. A fifth of the configurations are declared in a configuration document '
        '(RawConfig + appenders_lossy) with unbuildable filter entries around the chain (Fanout.tla, Effective). A '
        'third sink kind is a log4rs Logger of its own attached as an appender. Scale: records with 16 .. 300 '
        'attachments of failing appenders (one handler call each). Failing appenders return errors of several kinds '
        '(a message, I/O errors of kind Interrupted and WouldBlock, a wrapped one).',
 'C04': ' Truncate-mode scenarios get a successor appender as well. Every fourth scenario hands over to a successor '
        'appender opened on the same path while the first was alive; one long lifetime (180 records) per batch. '
        'FileAppender.tla has EncodeFail and Close: the traces script encoder failures (also as the first record '
        "after build) and end with the drop of the appender. The traced appender's encoder appends audit lines to a "
        'second file appender from inside its encode call; that file must hold every acknowledged line once, in '
        'order. Every other record reaches the writer through write_fmt, one unit per write_str call, with Display '
        'implementations that give up part-way (the resulting panic is data). SharedFile.tla (two appenders alive on '
        'one path, each with a thread of its own; whole records are promised below the buffer size only - negative '
        'control) is model-checked, and the files that real appenders leave behind must each be reachable in it '
        '(Trace_SharedFile.tla). A durability scenario under a file size limit: 2 KB messages (once a literal '
        'without format arguments) through the stock pattern encoder - an acknowledged record is in the file in '
        'full. The size-limit scenario runs in the mode of the run (append / truncate) and looks at the file right '
        'after the refused record as well as after the drop.',
 'C05': 'The replay materialises every behaviour five times: 10-byte units with DeleteRoller, 400-byte units with a '
        'two-chunk encoder (straddling the 1 KiB BufWriter), 16-byte units with gzip archives and an appender built '
        'from a configuration value, 12-byte units with the index in a directory component of the archive pattern, '
        'and 14-byte units with the active file and the archives on different filesystems (rename fails, copy '
        'fallback). Rolling.tla also has encoder failures (EncFail: part of a record written, then Err) with the '
        'BufWriter capacity as a parameter. Recorded traces of 2-4 real threads (and one long lifetime of 320 / 2400 '
        'records per batch) are validated against the same specification (Trace_Rolling.tla). Rolling.tla also has '
        'archives found at first build (PreArch), a user-defined roller that leaves the file in place (noop), and '
        'write calls cut short by the operating system (EncFail with os). Rolling.tla also has Overlap (a successor '
        'appender built while its predecessor is alive). The unperturbed behaviours run a second time on a harness '
        "build with log4rs's background_rotation feature (BackgroundRotation.tla: step-wise rotation threads, "
        'restarts inside one process, liveness), and long behaviours (400 / 1000 records with faults, crashes, '
        'restarts, obstacles, encoder failures, overlaps) are sampled with TLC -simulate. An eighth materialisation '
        'archives 40 000-byte units of text that does not compress through gzip. An instance with a one-slot gzip '
        'window whose newest archive name takes no byte (Obstruct kind full): the rotation reports the failure and '
        'no record is lost. In the background_rotation build, histories with a directory in the way of an archive '
        'run with one statement: the newest acknowledged record is in a file.',
 'C06': 'The replay materialises every behaviour five times: 10-byte units with DeleteRoller, 400-byte units with a '
        'two-chunk encoder (straddling the 1 KiB BufWriter), 16-byte units with gzip archives and an appender built '
        'from a configuration value, 12-byte units with the index in a directory component of the archive pattern, '
        'and 14-byte units with the active file and the archives on different filesystems (rename fails, copy '
        'fallback). Rolling.tla also has encoder failures (EncFail: part of a record written, then Err) with the '
        'BufWriter capacity as a parameter. Write calls cut short by the operating system are replayed under a file '
        'size limit (600-byte units, one history at a time); limits at the top of the u64 range; recorded '
        'multi-thread traces. The chunked encoder uses write_all / write_vectored / write / write_fmt in turn; long '
        "behaviours are sampled with TLC -simulate. Instances with ActFull: the configured path takes no byte ('no "
        "space left'): every append fails, no policy is consulted, nothing rolls (FullStays). One materialisation "
        "runs under a policy of the harness's own that compares the size again between roll() and the roller.",
 'C07': 'A .gz archive must be exactly one gzip member (bytes after it count as corruption); windows are also placed '
        'at the top of the u32 index range; rollers are built through the builder and from configuration values. A '
        'seventh template has the rolled file on another filesystem; windows of four are in the quick tier. The env '
        "template's variable value contains the index placeholder, a sixth template has the index inside a variable "
        'name; windows straddle 2^8 and 2^16. Wipe: the archive directory is removed with everything in it between '
        'two rolls. A ninth template has a $ENV reference in the last component whose value brings directories '
        "along. Bystanders include neighbours of the newest archive's name (.tmp, ~, .part). A second roller "
        'instance for the same pattern takes every third roll. Six runs in a process of their own build the roller '
        'in one directory, change the working directory and roll three times (relative patterns).',
 'C08': 'The replay materialises every behaviour five times: 10-byte units with DeleteRoller, 400-byte units with a '
        'two-chunk encoder (straddling the 1 KiB BufWriter), 16-byte units with gzip archives and an appender built '
        'from a configuration value, 12-byte units with the index in a directory component of the archive pattern, '
        'and 14-byte units with the active file and the archives on different filesystems (rename fails, copy '
        'fallback). Rolling.tla also has encoder failures (EncFail: part of a record written, then Err) with the '
        'BufWriter capacity as a parameter. Instances with archives found at first build (PreArch). With a .gz '
        'pattern (constant Gz) the final step is FsOps!Compress and a name that cannot be written (a link to '
        '/dev/full) is an obstacle kind; long behaviours are sampled with TLC -simulate. Obstacle nodir: the '
        'directory of the archives is a symbolic link whose target is moved away and back; the rotation fails at its '
        'first step, nothing moves, it recovers afterwards.',
 'C09': "DateZone.tla adds the environment's local zone as state: histories in which the zone changes between the "
        'construction of an encoder and its use and between two uses (4 POSIX zones, 4 date kinds) are replayed on '
        'fresh threads and, for a few, on a single thread. Fragments.tla (the message is the concatenation of the '
        'fragments it arrives in), FieldWidths.tla (record fields at the edges of their types under width specs) and '
        "DateZone's logical clock (fractional-second dates are read per encode) run in the same check. The process "
        'is environment state, too (Fork): histories continued in forked children for {P} / {pid}. Sinks accept '
        'prefixes and interrupt calls. The grammar has a literal percent sign in front of text that looks like a '
        'specifier ({d(%%#z)}). Every other pattern is encoded with a message whose Display logs through the same '
        'encoder into another sink. FieldWidths.tla sweeps every minimum width from 13 to 140 on both sides of the '
        'level field (PadSweep).',
 'C10': 'Every length class is instantiated by code points at the edges of its UTF-8 range (first / last lead byte, '
        'first / last continuation byte); fill characters of 1, 2 and 3 bytes; every third case builds the encoder '
        'from a configuration value. Every third case has multi-byte literal text in front of the spec; an earlier '
        'record of the same thread fails half-way before each case. Sink scripts include interrupted calls (accept '
        'value 0). The spec is attached to the formatter, a group, the active conditional group, and - for the empty '
        'text - the inactive one around a non-empty body. A fourth carrier is a group around the text as literal '
        'characters of the pattern. Exact cases for minimum, maximum and group widths at 2^16 - 1 .. 2^21 + 1. Every '
        'eighth case of two carriers has an empty highlight group in front of the message inside the group. A '
        "quarter of the exact cases wrap the spec'd item into a group with a spec of its own (minimum beyond the "
        'inner text, maximum below it, both, a minimum larger than the inner maximum): the law applied twice.',
 'C11': 'The curated family includes alignment nested in alignment (re-entrant width writers); every fourth case '
        'encodes into a sink that accepts only a prefix per write call. FieldWidths.tla runs in the same check; the '
        'family has absurd widths on literal-only and nested groups. Placeholders stand for 2- and 3-byte '
        'representatives in turn. The family has the long names of the group formatters with 0 and 2 arguments. '
        'Patterns with a highlight group are also encoded at every record level (no panic). Seven patterns without '
        "date and MDC are encoded from a thread-local guard's destructor while the thread ends.",
 'C12': 'Sinks accept everything, one byte, three bytes or 7/1/64 bytes per write call; every other record uses an '
        'encoder built from a configuration value; an earlier record of the same thread fails part-way into its '
        'sink. A style request from the JSON encoder is a violation; Fragments.tla runs in the same check; the '
        'two-byte class includes C1 controls. Records with fields of 255 .. 70001 characters are added beyond the '
        "model's length bound; sinks interrupt calls. In two of three cases a pattern encoder has rendered thread "
        "name, ids and context map on the thread before. Where the MDC is empty, every third record's message "
        'inserts into it while it is rendered: one JSON object, the map as before or after. Every fifth record is '
        "encoded by a guard's Drop while a caught panic unwinds its scope.",
 'C13': 'The declarations reach the builders one at a time, in bulk and in mixtures of both (appender()/appenders(), '
        'logger()/loggers(), and the same for references). Every other case renames the appender namespace onto the '
        'strings logger names are made of. Scale: 21 .. 300 loggers with one name declared three times (first '
        'declaration wins, two duplicates reported). Declarations carry a level and an additive flag that depend on '
        'their position; what a lossy build keeps is compared with what was declared. Logger names with a two-byte '
        'letter; a panic of the builders is reported, not fatal to the replay. In a third of the cases one '
        "appender's name is the empty string.",
 'C14': 'Registry.tla (insert / clone / lookup of deserializers per trait and kind, 192k histories) is replayed on '
        'log4rs::config::Deserializers in the same run. Wrong-typed kinds at every level; a zero limit as a bare '
        'integer; ConfigFormat.tla (which reader a file name gets) runs in the same check. The surviving file / '
        'rolling appender must print (Debug) exactly like its programmatic twin; the size limit is spelled '
        'differently in each rendering. Refresh rates below one second, compared on the raw document and on what a '
        "reloader adopts after reading it. A time trigger's two-hour interval is spelled differently in each "
        'rendering (2 HOURS, 2 hourS, 7200, 2 Hours). Reference lists include a name given twice in a row (two '
        'deliveries per record). A path whose reference expands to the text of another reference (one pass, as for '
        'the builders). A pattern key that is present and empty (not the default pattern). ConfigFile.tla has a '
        'filter kind of the embedding program that accepts outright and the variants pass_then_thr / thr_then_pass '
        '(the first filter with an opinion decides).',
 'C15': 'The refresh thread itself is covered impl->spec: scripted lifetimes of the real init_file thread (hook '
        'reloader.sleep) are validated as traces against Reloader.tla (Trace_Reloader.tla): every sleep lasts the '
        'rate of the last applied file. A directed scenario parks a logging thread inside Logger::enabled (hook '
        'enabled.loaded); the swap scenarios run under a watchdog (a call that never returns is a violation). Half '
        'of the live scenarios configure a symbolic link that is re-pointed at every edit; long edit / poll '
        'histories are sampled with TLC -simulate; one long lifetime of reconfigurations per batch of swap traces. '
        "Versions of the live documents differ in a child logger's level; the apply event carries log::max_level() "
        'and must equal MaxLevel of the applied version. One reload of the live scenarios takes longer than every '
        'refresh rate in use (45 ms): later edits must still be applied. In the YAML rendering, versions v and v + 2 '
        'differ in one line break at the end of the file (part of a keep-chomped block scalar). Every other child of '
        'the live scenarios runs with a standard error stream nobody reads. In every fourth live scenario the '
        'modification times are the moment of the edit. ReloaderLive.tla has the loop at the grain of its system '
        'calls (the editor acts between the stat and the read of a poll, and between the two looks of init_file): '
        'Converges / BadKeeps / LoopReturns are checked under weak fairness, with two negative controls (an editor '
        'that reproduces the remembered modification time; init_file reading before it takes the time - repair F17), '
        'and every behaviour of a bounded instance is replayed through init_file and the real refresh thread in a '
        'child process each, the edits made at the sync points init_file.looked / reloader.stat.',
 'C16': 'Every other history builds the whole appender (compound policy, trigger kind `time`) from a configuration '
        'value. Random-delay bounds up to u64::MAX. Counts of hours / minutes / seconds around 2^31 / 2^32 seconds '
        'and at the 1000-year maxima (NextTimeBig); lifetimes of 300 arrivals sampled with TLC -simulate. Every DST '
        'zone gets a walk of arrivals through its repeated hour (six intervals, with and without modulation): each '
        'firing is compared with the scheduled instant read just before. In a third of the histories the roller '
        'fails at the first firing; the arrivals that follow fire as the model says. Every arrival lies somewhere '
        'inside its second (last nanosecond, last half millisecond, first nanosecond, middle).',
 'C17': 'The replay materialises every behaviour five times: 10-byte units with DeleteRoller, 400-byte units with a '
        'two-chunk encoder (straddling the 1 KiB BufWriter), 16-byte units with gzip archives and an appender built '
        'from a configuration value, 12-byte units with the index in a directory component of the archive pattern, '
        'and 14-byte units with the active file and the archives on different filesystems (rename fails, copy '
        'fallback). Rolling.tla also has encoder failures (EncFail: part of a record written, then Err) with the '
        'BufWriter capacity as a parameter. Recorded traces of threads released together by a barrier, and one long '
        'lifetime of 320 / 2400 records per batch, are validated against Rolling.tla (Trace_Rolling.tla). In one '
        'materialisation the configured path is a symbolic link to the file found at start-up. Long behaviours are '
        'sampled with TLC -simulate. With a limit of one unit the configuration leaves min_size out (the documented '
        'default of one byte). Append::flush is called right after every build of the rolling replay (it is no '
        'action of Rolling.tla). In two materialisations the configured path is spelled with a $ENV reference.',
 'C18': 'After every append the child writes a marker to the descriptor itself: each record must be on the stream '
        'when its append returns; every row runs with builder- and configuration-built appenders, with and without a '
        'final newline in the pattern. A fourth pattern variant logs a 2 KiB literal behind a newline; after the '
        'first appender the stream is re-pointed at a file and a second appender is built. A third pattern variant '
        'puts two highlight groups directly next to each other inside a right-aligned group. ConsoleStream.tla '
        '(threads and two appenders on one stream, with and without the stream lock) is model-checked and the bytes '
        'of real child processes on pipes and terminals are validated as a trace (Trace_ConsoleStream.tla); builder '
        'setters are given in both orders. The public ConsoleWriter used by four threads without lock() is validated '
        "against the same specification with Locked = FALSE: pieces alternate freely, every call's bytes arrive "
        'whole, escape sequences included. In one pattern variant one append fails with a broken pipe, the stream is '
        're-pointed at a file, and the same appender must write there. In one variant a record is appended whose '
        'message logs through the same appender while it is rendered. One variant has a highlight group with a '
        'minimum width only.',
 'C19': 'A fifth site rolls three times through a window of two with the index before the reference (an expansion '
        "containing '/' puts the index into a directory component). The environment holds a variable with an "
        'ill-formed name. A sixth site uses a relative path (reference at byte 0) in a scratch working directory. A '
        "seventh site puts the roller's index where the input has a digit (window of three; a variable set for one "
        'index only). The environment holds bystander variables whose value or name is not UTF-8. A variable whose '
        'name ends in a non-ASCII digit (U+0663). A value that starts with a slash and a bare slash token: expected '
        "locations are the expanded text read as a path ('.', '..', doubled slashes). Every other input also builds "
        'a rolling appender with a one-byte limit and a one-slot window on the path and appends two records (the '
        'roller is handed the expanded path).',
 'C20': 'Junk units include long ones (7..257 letters, a 2-, 3- or 4-byte letter at every place). Junk units with '
        'doubled plural endings and one letter too many. Every interval literal also builds the `time` trigger '
        '(accepted exactly between one unit and 1000 years, never a panic); junk units up to 257 letters. Every '
        'literal also travels through TOML and as a signed configuration value. Junk units include valid units with '
        'one letter missing (ib, ki, econd, ...). Numbers with twenty leading zeros. White space between number and '
        'unit includes U+00A0 and U+000B.'}

NOT_YET = "check not built yet in this round (planned, see DESIGN.md section 7)"


def main():
    props = [json.loads(l)["id"] for l in open(os.path.join(VERIF, "properties.jsonl"))]
    try:
        commits = subprocess.run(["git", "-C", "/repo", "log", "--format=%h %s", "--grep", "^verif hooks"],
                                 stdout=subprocess.PIPE, text=True).stdout.strip().splitlines()
    except Exception:
        commits = []
    checks = []
    for pid in props:
        if pid not in CHECKS:
            continue
        c = CHECKS[pid]
        checks.append({
            "property_id": pid,
            "quick_cmd": "./check %s --tier quick" % pid,
            "thorough_cmd": "./check %s --tier thorough" % pid,
            "evidence_file": "/verif/evidence/%s.json" % pid,
            "replay_cmd_template": "./check %s --replay {path}" % pid,
            "engine": "tlc+lv-harness",
            "level_claimed": {"category": c["category"], "text": c["text"] + (" " + EXTRA[pid] if pid in EXTRA else ""), "design_ref": c["design"]},
            "level_note": c["note"],
            "technique": c["technique"],
        })
    na = [{"property_id": p, "reason": NOT_YET} for p in props if p not in CHECKS]
    m = {
        "version": 1,
        "setup_cmd": "cd /verif/harness && cp -n /repo/Cargo.lock Cargo.lock; CARGO_NET_OFFLINE=true cargo build --offline --quiet "
                     "&& cd /verif && tla-sany spec/Routing.tla >/dev/null",
        "hooks": {
            "guard": "cargo feature `verif_hooks` of the log4rs crate",
            "enable": "the harness crate depends on log4rs by path (/repo) with features = [..., \"verif_hooks\"]; "
                      "cargo build in /verif/harness rebuilds /repo's working tree",
            "baseline_off_cmd": "cd /repo && cargo test --workspace --no-fail-fast --offline",
            "source_commits": commits,
            "add_only": True,
        },
        "engines": [
            {"name": "tlc", "path": "/verif/spec", "kind_free_text": "TLA+ specifications checked with TLC 1.8 "
             "(exhaustive in small bounds, -simulate beyond); emit replay cases / validate recorded traces",
             "serves_properties": sorted(CHECKS)},
            {"name": "lv-harness", "path": "/verif/harness", "kind_free_text": "Rust crate linked against /repo "
             "(path dependency, feature verif_hooks): replays TLC-generated behaviours on the real types and "
             "records traces from real threads", "serves_properties": sorted(CHECKS)},
            {"name": "driver", "path": "/verif/driver", "kind_free_text": "Python 3 stdlib: runs TLC and the harness, "
             "matches known findings, writes evidence", "serves_properties": sorted(CHECKS)},
        ],
        "checks": checks,
        "not_applicable": na,
        "notes": "See DESIGN.md. Exit codes: 0 held, 1 with VIOLATION line, 2 tool error. Known findings: "
                 "/verif/known_findings.json.",
    }
    with open(os.path.join(VERIF, "MANIFEST.json"), "w") as f:
        json.dump(m, f, indent=1)
        f.write("\n")


if __name__ == "__main__":
    main()

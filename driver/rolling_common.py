"""Shared by C05 / C06 / C08 / C17: instances of Rolling.tla, model-checked and replayed."""
import os

from driver import common as C

INVS = ("TypeOK GapFreeSuffix NotLessThanIdeal WindowFaultFree Recovers Outside LenExact PostSeesDisk QuietBuffer SizeBound "
        "AtMostOneRoll FullStays Emit")


def inst(name, base=0, count=2, roller="window", append=True, trig="size", limit=2, sizes=(1, 3), pre="PreA",
         maxrec=4, faults=0, crash=0, restart=0, obst=0, hist=True, reopen=False, encfail=0, buf=99, overlap=0, gz=False, prearch=False, oswrite=False, full=False, nodir=False):
    return dict(name=name, base=base, count=count, roller=roller, append=append, trig=trig, limit=limit,
                sizes=sizes, pre=pre, maxrec=maxrec, faults=faults, crash=crash, restart=restart, obst=obst,
                hist=hist, reopen=reopen, encfail=encfail, buf=buf, overlap=overlap, gz=gz, prearch=prearch, oswrite=oswrite, full=full, nodir=nodir)


def write_cfg(i, tag):
    d = os.path.join(C.WORK, "cfg")
    os.makedirs(d, exist_ok=True)
    path = os.path.join(d, "MC_Rolling_%s_%s.cfg" % (tag, i["name"]))
    b = lambda x: "TRUE" if x else "FALSE"
    with open(path, "w") as f:
        f.write("CONSTANTS\n")
        f.write("  Base = %d\n  Count = %d\n  Roller = \"%s\"\n" % (i["base"], i["count"], i["roller"]))
        f.write("  AppendMode = %s\n  ReopenTruncates = %s\n" % (b(i["append"]), b(i["reopen"])))
        f.write("  Trig = \"%s\"\n  Limit = %d\n" % (i["trig"], i["limit"]))
        f.write("  Sizes = {%s}\n  PreSizes <- %s\n" % (", ".join(str(s) for s in i["sizes"]), i["pre"]))
        f.write("  PreArch <- %s\n" % ("AnyPreArch" if i.get("prearch") else "NoPreArch"))
        f.write("  MaxRec = %d\n  MaxFaults = %d\n  MaxCrash = %d\n  MaxRestart = %d\n  MaxObst = %d\n  MaxEncFail = %d\n  MaxOverlap = %d\n  Gz = %s\n  OsFail = %s\n  ActFull = %s\n  DirObst = %s\n  BufFloor = %d\n" % (
            i["maxrec"], i["faults"], i["crash"], i["restart"], i["obst"], i["encfail"], i.get("overlap", 0), b(i.get("gz", False)), b(i.get("oswrite", False)), b(i.get("full", False)), b(i.get("nodir", False)), i["buf"]))
        f.write("  Hist = %s\n" % b(i["hist"]))
        f.write("SPECIFICATION Spec\nINVARIANTS %s\nCHECK_DEADLOCK FALSE\n" % INVS)
    return path


def is_perturbed(case):
    return any(o["op"] in ("arm", "obstruct", "stop", "overlap") or o.get("res") in ("crash", "encfail", "nospace") for o in case["ops"])


def has_roll(case):
    """a rotation is visible in the expected directory: some archive holds a file at some step"""
    for o in case["ops"]:
        d = o.get("disk")
        if d:
            arch = d["arch"]
            ents = arch if isinstance(arch, list) else arch.values()
            if any(e["k"] == "file" for e in ents):
                return True
    return False


def run_instances(run, tag, instances, nontrivial, kind_key="rolling"):
    """Model-checks every instance; replays those with hist=True. Returns all replayed cases."""
    all_cases = []
    for i in instances:
        cfg = write_cfg(i, tag)
        name = "%s_%s" % (tag, i["name"])
        if i["hist"]:
            cases, mism, summ, res = C.emit_and_replay(run, "MC_Rolling", cfg, name, ["rolling"], timeout=1500,
                                                       workers=8)
            for m in mism:
                mm = m["mismatch"]
                run.mismatch({"kind": mm["what"], "trig": m["params"]["trig"], "append": m["params"]["append"],
                              "instance": i["name"]}, m)
            all_cases += cases
        else:
            res = C.run_tlc("MC_Rolling", cfg, name, workers=8, timeout=1500, coverage=False)
            if res.inv_violated:
                run.mismatch({"kind": "model", "invariant": res.inv_violated, "instance": i["name"]},
                             {"tlc": res.error_text[:6000]})
            else:
                run.add_tlc(res)
    run.evaluations = len(all_cases) * 3
    run.nontrivial = sum(1 for c in all_cases if nontrivial(c))
    if all_cases:
        mid = all_cases[len(all_cases) // 2]
        run.samples = [{"params": mid["params"],
                        "ops": [{k: v for k, v in o.items() if k != "disk"} for o in mid["ops"]]}]
    return all_cases


def deep_runs(run, tag, instances, num, kind_key="rolling"):
    """Long behaviours: TLC -simulate walks each instance (history-carrying, MaxRec in the hundreds, faults /
    crashes / restarts / obstacles / encoder failures sprinkled in) checking the invariants in every state; every
    behaviour that reaches its end is replayed on the real appender like the exhaustive ones."""
    total = 0
    for i in instances:
        cfg = write_cfg(dict(i, hist=True), tag + "_sim")
        name = "%s_sim_%s" % (tag, i["name"])
        cases, mism, summ, res = C.emit_and_replay(run, "MC_Rolling", cfg, name, ["rolling"], timeout=1500, workers=1,
                                                   simulate=num, depth=25 * i["maxrec"])
        for m in mism:
            mm = m["mismatch"]
            run.mismatch({"kind": mm["what"], "trig": m["params"]["trig"], "append": m["params"]["append"],
                          "instance": i["name"], "mode": "simulate"}, m)
        total += len(cases)
    run.extra["simulated_long_behaviours"] = run.extra.get("simulated_long_behaviours", 0) + total
    return total


def concurrent_traces(run, tag, trig, limit, runs, long=0):
    """impl -> spec: several real threads append through one appender; the trace (events emitted under the
    appender's mutex, with the parsed directory) must be a behaviour of Rolling.tla (Trace_Rolling.tla)."""
    import json
    d = os.path.join(C.WORK, "cfg")
    os.makedirs(d, exist_ok=True)
    cfg = os.path.join(d, "Trace_Rolling_%s_%s_%d.cfg" % (tag, trig, limit))
    with open(cfg, "w") as f:
        f.write("CONSTANTS\n  Base = 0\n  Count = 2\n  Roller = \"window\"\n  AppendMode = TRUE\n  ReopenTruncates = FALSE\n")
        f.write("  Trig = \"%s\"\n  Limit = %d\n  Sizes = {1}\n  PreSizes = {0}\n  MaxRec = 100000\n" % (trig, limit))
        f.write("  MaxFaults = 0\n  MaxCrash = 0\n  MaxRestart = 0\n  MaxObst = 0\n  MaxEncFail = 0\n  MaxOverlap = 0\n  PreArch <- NoPreArch\n  Gz = FALSE\n  OsFail = FALSE\n  ActFull = FALSE\n  DirObst = FALSE\n  BufFloor = 99\n  Hist = FALSE\n")
        f.write("SPECIFICATION TSpec\nINVARIANTS GapFreeSuffix NotLessThanIdeal LenExact AtMostOneRoll\n")
        f.write("CONSTRAINT Track\nPOSTCONDITION Accepted\nCHECK_DEADLOCK FALSE\n")
    wd = C.workdir("%s_trace_%s_%d" % (tag, trig, limit))
    tp = os.path.join(wd, "trace.ndjson")
    p = C.run_harness(["rolltrace", tp, trig, str(limit), str(runs), str(C.seed() + limit), str(long)], timeout=1800)
    summ = json.loads(p.stdout.strip().splitlines()[-1])
    if summ["start_events"] == 0:
        raise C.ToolError("instrumentation missing: no rolling.locked hook events recorded")
    for pr in summ["problems"]:
        run.mismatch({"kind": pr["what"], "trig": trig}, pr)
    r = C.validate_trace(run, "Trace_Rolling", cfg, "%s_trace_%s_%d" % (tag, trig, limit), tp, timeout=1800,
                         key={"part": "concurrent", "trig": trig, "limit": limit}, linear=False)
    if r:
        run.states += r.distinct
        run.transitions += r.generated
    run.traces += runs
    return summ

"""C08 - failed / interrupted rotations: Rolling.tla with step faults, obstacles (non-empty directory at an
archive name) and process death between steps; every behaviour replayed with fault hooks, real obstacles
and crash images taken at the hook points."""
from driver import common as C
from driver import rolling_common as R

PID = "C08"


def instances(tier):
    I = R.inst
    L = []
    for trig, sizes, limit in (("size", (1, 3), 2), ("pre", (1, 2), 2), ("post", (1, 2), 2)):
        for append in (True, False):
            m = "a" if append else "t"
            L += [
                I("%s_%s_fault" % (trig, m), trig=trig, append=append, count=2, limit=limit, sizes=sizes, maxrec=4,
                  faults=1, pre="PreNone"),
                I("%s_%s_crash" % (trig, m), trig=trig, append=append, count=2, limit=limit, sizes=sizes, maxrec=4,
                  crash=1, pre="PreNone"),
                I("%s_%s_obst" % (trig, m), trig=trig, append=append, count=2, limit=limit, sizes=sizes, maxrec=3,
                  obst=1, pre="PreNone"),
            ]
    L += [
        I("size_w13_fault", trig="size", base=1, count=3, limit=1, sizes=(1, 2), maxrec=5, faults=1, pre="PreNone"),
        I("size_w13_crash", trig="size", base=1, count=3, limit=1, sizes=(1, 2), maxrec=5, crash=1, pre="PreNone"),
        # .gz pattern: the final step writes the archive; a name that cannot be written (a link to /dev/full) sits at the
        # newest index - the compress fails, the active file stays, and once the name is freed the rotation goes through
        # the directory of the archives is a symbolic link whose target goes away and comes back
        I("size_nodir", trig="size", count=2, limit=2, sizes=(1, 3), maxrec=4, obst=1, nodir=True, pre="PreNone"),
        I("pre_nodir_t", trig="pre", append=False, count=2, sizes=(1, 2), maxrec=3, obst=1, nodir=True, restart=1, pre="PreNone"),
        I("size_gz_full", trig="size", count=2, limit=2, sizes=(1, 3), maxrec=4, obst=1, gz=True, pre="PreNone"),
        I("pre_gz_full_t", trig="pre", append=False, count=1, sizes=(1, 2), maxrec=3, obst=1, gz=True, pre="PreNone"),
        I("post_gz_full", trig="post", count=2, sizes=(1, 2), maxrec=3, obst=1, restart=1, gz=True, pre="PreNone"),
        I("size_prearch_fault", trig="size", count=3, limit=1, sizes=(1, 2), maxrec=3, prearch=True, faults=1, pre="PreNone"),
        I("size_w01_fault", trig="size", count=1, limit=1, sizes=(1, 2), maxrec=4, faults=1, restart=1, pre="PreNone"),
        I("size_fault_restart", trig="size", count=2, limit=2, sizes=(1, 3), maxrec=4, faults=1, restart=1, pre="PreNone"),
        I("big_size", trig="size", base=1, count=2, limit=2, sizes=(1, 3), maxrec=6, faults=2, crash=1, restart=1,
          obst=1, hist=False),
        I("big_size_t", trig="size", base=1, count=2, append=False, limit=2, sizes=(1, 3), maxrec=6, faults=2, crash=1,
          restart=1, obst=1, hist=False),
        I("big_pre", trig="pre", count=2, sizes=(1, 2), maxrec=5, faults=1, crash=1, restart=1, obst=1, hist=False),
    ]
    if tier == "thorough":
        L += [
            I("size_w03_fault2", trig="size", count=3, limit=1, sizes=(1, 2), maxrec=5, faults=2, pre="PreNone"),
            I("size_w02_fault_crash", trig="size", count=2, limit=2, sizes=(1, 3), maxrec=4, faults=1, crash=1, pre="PreNone"),
            I("post_w03_crash", trig="post", count=3, sizes=(1, 2), maxrec=5, crash=1, pre="PreNone"),
            I("pre_w03_obst", trig="pre", count=3, sizes=(1, 2), maxrec=4, obst=1, pre="PreNone"),
            I("big_post3", trig="post", count=3, sizes=(1, 2), maxrec=6, faults=2, crash=1, restart=1, obst=1, hist=False),
        ]
    return L


def run(tier, replay=None):
    run = C.Run(PID, tier, "fault_enumeration")
    cases = R.run_instances(run, "c08_" + tier, instances(tier),
                            lambda c: R.is_perturbed(c) and R.has_roll(c))
    # long behaviours (hundreds of records in one history), sampled by TLC's simulation mode
    deep = 400 if tier == "quick" else 1000
    R.deep_runs(run, "c08", [R.inst("deep_w13", trig="size", base=1, count=3, limit=1, sizes=(1, 2), pre="PreNone", maxrec=deep, faults=12, crash=6, restart=6, obst=6),
                        R.inst("deep_pre", trig="pre", count=2, sizes=(1, 2), pre="PreNone", maxrec=deep, faults=10, crash=6, restart=4, obst=6, encfail=3),
                        R.inst("deep_post_t", trig="post", append=False, count=2, sizes=(1, 2), pre="PreNone", maxrec=deep, faults=10, crash=6, restart=4, obst=4)], 40 if tier == "quick" else 400)
    if not run.mismatches and run.nontrivial < 50:
        raise C.ToolError("vacuous run")
    run.exhaustive = True
    run.rule = ("every behaviour of the listed Rolling.tla instances in which a step fault is armed at any shift "
                "index / the final move, a non-empty directory is placed at any archive name, or the process dies at "
                "any hook point (before each roller step, after the roller, after the flush, after the append), at "
                "every rotation of the history (with a .gz pattern also a name that cannot be written - a link to /dev/full - at "
                "the newest index, so that the compressing final step fails while writing), in both open modes, with size / pre / post triggers, followed by "
                "every continuation; crash images are directory copies taken inside the hook callback and a new "
                "appender is built over the copy; non-trivial = perturbed behaviours in which a rotation happened")
    run.assumptions = ["long behaviours (400 / 1000 records with faults, crashes, restarts, obstacles and encoder failures) are sampled by TLC -simulate (40 / 400 per instance), not enumerated", "compress step is atomic; death inside gzip output or inside the cross-mount copy fallback is out of scope (the fallback itself runs in the cross-mount materialisation when /dev/shm is a separate filesystem)",
                       "crash = process death with the page cache intact (log4rs never fsyncs)",
                       "fault hooks: rotate.shift(i) / rotate.final fail_points return an io::Error"]
    return run.finish()

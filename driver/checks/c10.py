"""C10 - width / fill / alignment: WidthWriters.tla (the three streaming writers transcribed, producer chunking and
partial acceptance by the sink as explored dimensions) model-checked; every case replayed through the public API."""
from driver import common as C

PID = "C10"


def run(tier, replay=None):
    run = C.Run(PID, tier, "model_checking")
    cfg = "MC_WidthWriters_quick.cfg" if tier == "quick" else "MC_WidthWriters_thorough.cfg"
    cases, mism, _, _ = C.emit_and_replay(run, "MC_WidthWriters", cfg, "c10_" + tier, ["width"], timeout=3000, workers=8)
    for m in mism:
        run.mismatch({"kind": m["mismatch"]["what"]}, m)
    run.evaluations = len(cases)
    run.nontrivial = sum(1 for c in cases if any(k > 1 for k in c["text"]) and (c["prm"]["min"] >= 0 or c["prm"]["max"] >= 0))
    if not run.mismatches and run.nontrivial < 1000:
        raise C.ToolError("vacuous run")
    run.samples = cases[len(cases) // 2: len(cases) // 2 + 3]
    run.exhaustive = True
    run.rule = ("all texts of <= 3 (quick) / 4 (thorough) characters over the byte-length classes 1..4, every set of "
                "character-boundary cuts of the producer, min and max in {none,0,1,2,4}, both alignments, 1- and 3-byte "
                "fill (incl. syntax characters), every 2-element acceptance script of the sink over {1,2,5} bytes; the "
                "message is a Display writing the pieces one write_str each, the capturing writer accepts bytes per "
                "the script; output must be valid UTF-8, at most max characters and - for min <= max - exactly the "
                "law's text; non-trivial = multi-byte text with a width spec")
    run.assumptions = ["pieces start at character boundaries (what fmt::Write guarantees); nested width specs are "
                       "covered by the group tokens of C09"]
    return run.finish()

"""C06 - size trigger exactness: Rolling.tla with Trig = size over all limits / sizes / pre-existing contents /
modes / restarts; replay wraps the real policy and compares len_estimate() with the on-disk size at every
consultation."""
from driver import common as C
from driver import rolling_common as R

PID = "C06"


def instances(tier):
    I = R.inst
    L = []
    for limit in (0, 1, 2, 3):
        for append in (True, False):
            L.append(I("l%d_%s" % (limit, "a" if append else "t"), trig="size", append=append, count=2, limit=limit,
                       sizes=(1, 2, 3), pre="PreB", maxrec=3 if tier == "quick" else 4, restart=1))
    L += [
        I("l_huge", trig="size", count=2, limit=2000000000, sizes=(1, 3), pre="PreB", maxrec=3, restart=1),
        I("l2_restart2", trig="size", count=1, limit=2, sizes=(1, 2), pre="PreB", maxrec=4, restart=2),
        I("l1_delete", trig="size", roller="delete", count=0, limit=1, sizes=(1, 2), pre="PreB", maxrec=4, restart=1),
        # the size shown to the policy must stay exact when a roll fails and the file stays in place
        I("l2_fault", trig="size", count=2, limit=2, sizes=(1, 3), pre="PreNone", maxrec=4, faults=1),
        I("l1_fault_t", trig="size", append=False, count=1, limit=1, sizes=(1, 2), pre="PreNone", maxrec=4, faults=1),
        I("l2_obst", trig="size", count=2, limit=2, sizes=(1, 3), pre="PreNone", maxrec=3, obst=1),
        # records that encode to zero bytes: the policy is consulted all the same
        I("l0_zero", trig="size", count=2, limit=0, sizes=(0, 1), pre="PreB", maxrec=3, restart=1),
        I("l1_zero", trig="size", count=1, limit=1, sizes=(0, 2), pre="PreB", maxrec=3, restart=1),
        # an encoder that fails after writing part of a record: what it wrote counts, the next appends roll on time
        I("l2_encfail", trig="size", count=2, limit=2, sizes=(1, 3), pre="PreNone", maxrec=4, encfail=1, restart=1),
        I("l1_encfail_t", trig="size", append=False, count=1, limit=1, sizes=(1, 2), pre="PreB", maxrec=4, encfail=2),
        # 400-byte units: two and a half of them fit into the BufWriter, the third is written through
        I("l3_encfail_buf", trig="size", count=2, limit=3, sizes=(1, 3), pre="PreNone", maxrec=4, encfail=2, buf=2),
        # 600-byte units: a record of two units goes to the file in one write call, and the file may take only part of it
        I("l3_oswrite", trig="size", count=2, limit=3, sizes=(1, 2, 3), pre="PreNone", maxrec=4, encfail=1, buf=1, restart=1, oswrite=True),
        # the active path takes no byte ("no space left"): every append fails, the policy is never consulted, nothing rolls
        I("l1_nospace", trig="size", count=2, limit=1, sizes=(1, 2), pre="PreC", maxrec=4, restart=1, full=True, buf=99),
        I("l2_nospace_del", trig="size", roller="delete", count=0, limit=2, sizes=(1, 3), pre="PreC", maxrec=3, restart=1, full=True, buf=99),
        I("big", trig="size", count=2, limit=3, sizes=(1, 2, 4), pre="PreB", maxrec=6, restart=2, hist=False),
        I("big_t", trig="size", count=2, append=False, limit=2, sizes=(1, 2, 3), pre="PreB", maxrec=6, restart=2, hist=False),
    ]
    return L


def run(tier, replay=None):
    run = C.Run(PID, tier, "model_checking")
    cases = R.run_instances(run, "c06_" + tier, instances(tier), R.has_roll)
    # long behaviours (hundreds of records in one history), sampled by TLC's simulation mode
    deep = 400 if tier == "quick" else 1000
    R.deep_runs(run, "c06", [R.inst("deep_l3", trig="size", count=2, limit=3, sizes=(1, 2, 4), pre="PreB", maxrec=deep, restart=8, encfail=6, faults=3),
                        R.inst("deep_l0_t", trig="size", append=False, count=1, limit=0, sizes=(0, 1), pre="PreB", maxrec=deep, restart=8),
                        R.inst("deep_l3_buf", trig="size", count=2, limit=3, sizes=(1, 3), pre="PreNone", maxrec=deep, restart=4, encfail=8, buf=2)], 40 if tier == "quick" else 400)
    # several threads through one appender: the size shown and the decision belong to the append that wrote the record
    # (recorded traces validated against Rolling.tla)
    R.concurrent_traces(run, "c06", "size", 2, 60 if tier == "quick" else 1500, long=40 if tier == "quick" else 300)
    R.concurrent_traces(run, "c06", "size", 0, 40 if tier == "quick" else 800)
    if not run.mismatches and run.nontrivial < 50:
        raise C.ToolError("vacuous run")
    run.exhaustive = True
    run.rule = ("all behaviours with a size trigger: limits 0..3 units, record sizes 1..3 units, pre-existing file "
                "absent / empty / 1..3 units, append and truncate mode, restarts; units are 10, 16 and 400 bytes "
                "(400-byte units straddle the 1 KiB buffer); a wrapping Policy compares LogFile::len_estimate() "
                "with fs::metadata().len() at every consultation and the directory after every append shows "
                "whether the roll happened exactly when the model's size exceeded the limit; encoder failures "
                "after 0, 1 or all units of a record (the accepted part is counted and reaches the file with the next "
                "flush); non-trivial = a rotation happened")
    run.assumptions = ["long behaviours (400 / 1000 records with faults, crashes, restarts, obstacles and encoder failures) are sampled by TLC -simulate (40 / 400 per instance), not enumerated", "sizes are multiples of the unit, so byte-exact boundaries are limit*unit +- unit",
                       "byte-vs-character accounting is exercised by the C04 / C09 payloads, not here"]
    return run.finish()

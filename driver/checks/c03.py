"""C03 - filter chains and error isolation: Fanout.tla model-checked, every case replayed."""
from driver import common as C

PID = "C03"


def run(tier, replay=None):
    run = C.Run(PID, tier, "model_checking")
    cfg = "MC_Fanout_quick.cfg" if tier == "quick" else "MC_Fanout_thorough.cfg"
    res = C.run_tlc("MC_Fanout", cfg, "c03_" + tier, workers=8, timeout=2400, coverage=(tier == "quick"))
    if res.inv_violated:
        run.mismatch({"kind": "model", "invariant": res.inv_violated}, {"tlc": res.error_text[:4000]})
        return run.finish()
    if tier == "quick":
        C.require_actions(res, ["FilterStep", "AppendStep", "EndFanout", "HandleErr"], cfg)
    run.add_tlc(res)
    metas = [r for r in res.replays if r.get("meta")]
    cases = [r for r in res.replays if not r.get("meta")]
    import json, os
    wd = C.workdir("c03_" + tier)
    inp, outp = os.path.join(wd, "cases.ndjson"), os.path.join(wd, "out.ndjson")
    C.write_ndjson(inp, metas[:1] + cases)
    p = C.run_harness(["fanout", inp, outp], timeout=2400)
    summ = json.loads(p.stdout.strip().splitlines()[-1])
    if summ["cases"] != len(cases):
        raise C.ToolError("harness processed %s of %s cases" % (summ["cases"], len(cases)))
    for m in C.read_ndjson(outp):
        run.mismatch({"kind": m["mismatch"].get("what")}, m)
    run.traces = len(cases)
    run.evaluations = len(cases) + 60
    # non-trivial: some filter rejects or accepts, or some appender fails
    run.nontrivial = sum(1 for c in cases
                         if any(x != "N" for ch in c["chains"] for x in ch) or "Err" in c["outc"])
    if not run.mismatches and run.nontrivial < 100:
        raise C.ToolError("vacuous run")
    run.samples = cases[len(cases) // 2: len(cases) // 2 + 2]
    run.exhaustive = True
    run.rule = ("every assignment of filter chains (all sequences over Accept/Neutral/Reject up to the bound) and "
                "Ok/Err outcomes to the appenders of one logger, for attachment lists with a repeated appender; "
                "each behaviour of Fanout.tla (which filter is consulted when, which appender is called, how often "
                "the handler runs) is replayed with scripted Filter/Append implementations; plus all 6x5 "
                "(threshold, level) pairs on the real ThresholdFilter; non-trivial = a non-neutral filter or a "
                "failing appender is present")
    run.assumptions = ["filters answer independently of the record (the threshold filter is covered separately)"]
    return run.finish()

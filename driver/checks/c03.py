"""C03 - filter chains and error isolation: Fanout.tla model-checked, every case replayed."""
import os

from driver import common as C

PID = "C03"


def run(tier, replay=None):
    run = C.Run(PID, tier, "model_checking")
    cfg = "MC_Fanout_quick.cfg" if tier == "quick" else "MC_Fanout_thorough.cfg"
    res = C.run_tlc("MC_Fanout", cfg, "c03_" + tier, workers=8, timeout=2400, coverage=(tier == "quick"))
    if res.inv_violated:
        run.mismatch({"kind": "model", "invariant": res.inv_violated}, {"tlc": res.error_text[:4000]})
        return run.finish()
    if tier == "quick":
        C.require_actions(res, ["FilterStep", "AppendStep", "EndFanout", "HandleErr"], cfg)
    run.add_tlc(res)
    metas = [r for r in res.replays if r.get("meta")]
    cases = [r for r in res.replays if not r.get("meta")]
    import json, os
    wd = C.workdir("c03_" + tier)
    inp, outp = os.path.join(wd, "cases.ndjson"), os.path.join(wd, "out.ndjson")
    C.write_ndjson(inp, metas[:1] + cases)
    p = C.run_harness(["fanout", inp, outp], timeout=2400)
    summ = json.loads(p.stdout.strip().splitlines()[-1])
    if summ["cases"] != len(cases):
        raise C.ToolError("harness processed %s of %s cases" % (summ["cases"], len(cases)))
    for m in C.read_ndjson(outp):
        run.mismatch({"kind": m["mismatch"].get("what")}, m)
    run.traces = len(cases)
    # the error handler given at the process-wide entry point (init_config_with_err_handler) hears of every failed
    # delivery exactly once - also after reconfigurations: a child process walks four configurations with a failing
    # appender (the same child the C02 replay uses)
    tg = ["", "a", "a::b", "z"]
    cfg_a = {"root": {"lvl": 3, "apps": ["A", "B"]}, "loggers": [{"name": "a", "lvl": 5, "add": True, "apps": ["A"]}],
             "max": 5, "thr": [3, 5, 5, 3], "att": [["A", "B"], ["A", "A", "B"], ["A", "A", "B"], ["A", "B"]]}
    cfg_b = {"root": {"lvl": 4, "apps": ["A"]}, "loggers": [{"name": "a::b", "lvl": 2, "add": False, "apps": ["A", "B"]}],
             "max": 4, "thr": [4, 4, 2, 4], "att": [["A"], ["A"], ["A", "B"], ["A"]]}
    wd = C.workdir("c03_handler")
    inp, outp = os.path.join(wd, "steps.ndjson"), os.path.join(wd, "out.ndjson")
    C.write_ndjson(inp, [{"meta": "targets", "targets": tg}, cfg_a, cfg_b, cfg_a, cfg_b])
    p = C.run_harness(["levelgate", inp, outp, "init_with_handler"], timeout=300, allow_rc=(0, 101, 134))
    if p.returncode != 0:
        run.mismatch({"kind": "panic in the child that uses init_config_with_err_handler"}, {"stderr": p.stderr[-2000:]})
    else:
        for m in C.read_ndjson(outp):
            run.mismatch({"kind": m["mismatch"]["what"], "init": "init_with_handler"}, m)
        run.traces += 1
    run.evaluations = len(cases) + 60
    # non-trivial: some filter rejects or accepts, or some appender fails
    run.nontrivial = sum(1 for c in cases
                         if any(x != "N" for ch in c["chains"] for x in ch) or "Err" in c["outc"])
    if not run.mismatches and run.nontrivial < 100:
        raise C.ToolError("vacuous run")
    run.samples = cases[len(cases) // 2: len(cases) // 2 + 2]
    run.exhaustive = True
    run.rule = ("every assignment of filter chains (all sequences over Accept/Neutral/Reject up to the bound) and "
                "Ok/Err outcomes to the appenders of one logger, for attachment lists with a repeated appender; "
                "each behaviour of Fanout.tla (which filter is consulted when, which appender is called, how often "
                "the handler runs) is replayed with scripted Filter/Append implementations; plus all 6x5 "
                "(threshold, level) pairs on the real ThresholdFilter; non-trivial = a non-neutral filter or a "
                "failing appender is present")
    run.assumptions = ["filters answer independently of the record (the threshold filter is covered separately)"]
    return run.finish()

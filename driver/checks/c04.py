"""C04 - file appender: FileAppender.tla model-checked (threads x BufWriter x lock); traces recorded from
real threads (hook events under the lock, real file contents read inside the hook) validated against the
specification with TLC (impl -> spec)."""
import json
import os

from driver import common as C

PID = "C04"


def run(tier, replay=None):
    run = C.Run(PID, tier, "model_checking")
    for cfg in ("MC_FileAppender_quick.cfg", "MC_FileAppender_trunc.cfg") + (
            ("MC_FileAppender_thorough.cfg",) if tier == "thorough" else ()):
        res = C.run_tlc("MC_FileAppender", cfg, "c04_mc", workers=8, timeout=1800, coverage=(cfg.endswith("quick.cfg")))
        if res.inv_violated:
            run.mismatch({"kind": "model", "invariant": res.inv_violated}, {"tlc": res.error_text[:4000]})
            return run.finish()
        if cfg.endswith("quick.cfg"):
            C.require_actions(res, ["MCNext", "Lock", "Encode", "Flush", "Unlock"], cfg)
        run.add_tlc(res)
    nruns = 150 if tier == "quick" else 3000
    wd = C.workdir("c04_traces")
    total_events = 0
    for mode in ("append", "truncate"):
        tp = os.path.join(wd, "trace_%s.ndjson" % mode)
        p = C.run_harness(["filetrace", tp, mode, str(nruns), str(C.seed() * 2 + (mode == "append"))], timeout=1800)
        summ = json.loads(p.stdout.strip().splitlines()[-1])
        if summ["lock_events"] == 0:
            raise C.ToolError("instrumentation missing: no hook events recorded")
        for pr in summ["problems"]:
            run.mismatch({"kind": pr["what"], "mode": mode}, pr)
        cfg = "Trace_FileAppender_append.cfg" if mode == "append" else "Trace_FileAppender_trunc.cfg"
        r = C.validate_trace(run, "Trace_FileAppender", cfg, "c04_trace_" + mode, tp, timeout=1800, key={"mode": mode})
        total_events += summ["events"]
        run.traces += nruns
        if r:
            run.states += r.distinct
            run.transitions += r.generated
        if not run.samples:
            run.samples = C.read_ndjson(tp)[:14]
    # growth beyond the property: two appenders alive on one path, each with a thread of its own (SharedFile.tla) - the
    # design by TLC (with the negative control: whole records are NOT promised above the buffer size), then the files
    # real appenders leave behind, each of which must be reachable in the specification
    sf = C.run_tlc("MC_SharedFile", "MC_SharedFile.cfg", "c04_shared", workers=2, timeout=600, coverage=False)
    if sf.inv_violated:
        run.mismatch({"kind": "model", "invariant": sf.inv_violated}, {"tlc": sf.error_text[:4000]})
    run.add_tlc(sf)
    neg = C.run_tlc("MC_SharedFile", "MC_SharedFile_neg.cfg", "c04_shared_neg", workers=2, timeout=300, coverage=False)
    if neg.inv_violated != "AllWhole":
        raise C.ToolError("negative control: SharedFile.tla does not refute AllWhole")
    stp = os.path.join(wd, "shared.ndjson")
    nshared = 80 if tier == "quick" else 1500
    p = C.run_harness(["sharedfile", stp, str(nshared), str(C.seed() + 11)], timeout=1800)
    ssum = json.loads(p.stdout.strip().splitlines()[-1])
    for pr in ssum["problems"]:
        run.mismatch({"kind": "shared file: " + pr["what"]}, pr)
    if ssum["scenarios"]:
        r = C.validate_trace(run, "Trace_SharedFile", "Trace_SharedFile.cfg", "c04_shared_trace", stp, timeout=1800,
                             key={"kind": "shared file: no behaviour of the specification leaves this file"}, linear=False)
        if r:
            run.states += r.distinct
            run.transitions += r.generated
    run.traces += ssum["scenarios"]
    run.extra = {"shared_file_scenarios": ssum["scenarios"], "shared_file_scenarios_with_alternating_appenders": ssum["interleaved"]}
    run.evaluations = total_events
    run.nontrivial = run.traces
    run.rule = ("seeded scenarios of 1-3 real threads x 1-3 records with chunk shapes around the 1 KiB buffer (empty, "
                "0-size chunk, below / at / above capacity, spills, 7-unit direct writes), 2 units of pre-existing "
                "content, both open modes, a seeded yield/sleep amplifier at the sync points; every scenario is one "
                "trace; non-trivial counts all of them (each has at least one append); the trace must be a behaviour "
                "of FileAppender.tla with the file content read under the lock equal to the specification's disk")
    run.assumptions = ["hook events are emitted while the appender lock is held; begin/end/saw events are harness-side",
                       "1 unit = 256 bytes, Cap = 4 units = the appender's BufWriter capacity"]
    return run.finish()

"""C19 - $ENV{NAME} expansion: EnvExpand.tla (single-pass meaning + scanner machine) model-checked over all
token sequences of the bound; every input replayed at the three call sites in a child process."""
from driver import common as C

PID = "C19"


def run(tier, replay=None):
    run = C.Run(PID, tier, "model_checking")
    cfg = "MC_EnvExpand_quick.cfg" if tier == "quick" else "MC_EnvExpand_thorough.cfg"
    res = C.run_tlc("MC_EnvExpand", cfg, "c19_" + tier, workers=8, timeout=2400, coverage=False)
    if res.inv_violated:
        run.mismatch({"kind": "model", "invariant": res.inv_violated}, {"tlc": res.error_text[:4000]})
        return run.finish()
    run.add_tlc(res)
    metas = [r for r in res.replays if r.get("meta")]
    cases = [r for r in res.replays if not r.get("meta")]
    import json, os
    wd = C.workdir("c19_" + tier)
    inp, outp = os.path.join(wd, "cases.ndjson"), os.path.join(wd, "out.ndjson")
    C.write_ndjson(inp, metas[:1] + cases)
    p = C.run_harness(["envexpand", inp, outp], timeout=2400)
    summ = json.loads(p.stdout.strip().splitlines()[-1])
    if summ["cases"] != len(cases):
        raise C.ToolError("harness processed %s of %s cases" % (summ["cases"], len(cases)))
    for m in C.read_ndjson(outp):
        run.mismatch({"kind": m["mismatch"]["what"], "site": m["mismatch"]["site"], "input": m["input"]}, m)
    run.traces = len(cases)
    run.evaluations = len(cases) * 3
    run.nontrivial = sum(1 for c in cases if "$ENV{" in c["input"])
    if not run.mismatches and run.nontrivial < 100:
        raise C.ToolError("vacuous run")
    run.samples = [c for c in cases if c["input"] != c["expect"]][100:104]
    run.exhaustive = True
    run.rule = ("all sequences of <= 4 (quick) / 5 (thorough) tokens from: whole references to set variables (ASCII, "
                "non-ASCII and dotted names; values that are empty, contain braces, a slash, non-ASCII text or the "
                "text ENV{B}), a reference to an unset variable, the fragments $ENV{ $ { } name . digit, non-ASCII "
                "letter, /x and -; each input is used as path of a FileAppender and a RollingFileAppender and as "
                "pattern of a FixedWindowRoller and the created file must sit at the location the specification's "
                "single-pass expansion gives; non-trivial = inputs containing $ENV{")
    run.assumptions = ["variable values are free of '$' (as the property states)",
                       "inputs containing the roller's index placeholder {} are not used as roller patterns"]
    return run.finish()

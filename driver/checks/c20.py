"""C20 - size / interval literals: Literals.tla (symbolic magnitudes 2^k + d, spellings, scalar forms) enumerated
and judged by TLC; every literal materialised with u128 arithmetic and replayed through serde (YAML + JSON)."""
from driver import common as C

PID = "C20"


def run(tier, replay=None):
    run = C.Run(PID, tier, "model_checking")
    allc = []
    for target in ("size", "interval"):
        cases, mism, _, _ = C.emit_and_replay(run, "MC_Literals", "MC_Literals_%s.cfg" % target, "c20_" + target,
                                              ["literals"], timeout=900, workers=8)
        for m in mism:
            mm = m["mismatch"]
            run.mismatch({"kind": mm["what"], "target": target, "int_scalar": mm.get("int_scalar"),
                          "text": mm.get("text")}, m)
        allc += cases
    run.evaluations = len(allc) * 2
    # non-trivial: literals at an overflow threshold (k + shift within 1 of the type width) or rejected spellings
    def near(c):
        n = c["lit"]["num"]
        return n["t"] == "pow" and n["k"] >= 20
    run.nontrivial = sum(1 for c in allc if near(c) or not c["verdict"]["ok"])
    acc = sum(1 for c in allc if c["verdict"]["ok"])
    if not run.mismatches and (acc < 1000 or len(allc) - acc < 1000):
        raise C.ToolError("vacuous run")
    run.samples = allc[5000:5003]
    run.exhaustive = True
    run.rule = ("the cross product of scalar form (integer / string) x magnitude (2^k + d for k = 0..64, d = -1,0,1; "
                "small numbers; leading zeros; 20 nines) x whitespace between number and unit x unit spelling in "
                "several letter cases x junk units, plus sign / leading blank / fraction / trailing blank on small "
                "numbers, for sizes and for intervals; each literal is parsed from YAML and from JSON and the verdict "
                "(accepted value = number x unit, or rejected) compared; non-trivial = magnitudes >= 2^20 or rejected "
                "literals")
    run.assumptions = ["u128 arithmetic in the harness is the trusted arithmetic", "'-0' and '+n' integer scalars are "
                       "outside the space (YAML and JSON read them differently)"]
    return run.finish()

"""C02 - level gating: LevelGate.tla (init / set_config histories with the facade's global maximum
as state) model-checked; every transition replayed in child processes through the log macros."""
import json
import os
import random

from driver import common as C

PID = "C02"


def key(c):
    return json.dumps({"root": c["root"], "loggers": c["loggers"]}, sort_keys=True)


def euler(nodes, edges, start):
    """Hierholzer on a directed multigraph given as adjacency lists; returns a node sequence."""
    adj = {n: list(edges.get(n, [])) for n in nodes}
    stack, circuit = [start], []
    while stack:
        v = stack[-1]
        if adj[v]:
            stack.append(adj[v].pop())
        else:
            circuit.append(stack.pop())
    circuit.reverse()
    return circuit


def child(run, name, meta, steps, init_fn, timeout=900):
    wd = C.workdir(name)
    inp, outp = os.path.join(wd, "steps.ndjson"), os.path.join(wd, "out.ndjson")
    C.write_ndjson(inp, [meta] + steps)
    args = ["levelgate", inp, outp, init_fn]
    if init_fn == "init_raw":
        args.append(os.path.join(wd, "files"))
    p = C.run_harness(args, timeout=timeout, allow_rc=(0, 101, 134))
    if p.returncode != 0:
        run.mismatch({"kind": "panic", "init": init_fn}, {"stderr": p.stderr[-2000:], "first_config": steps[0]["loggers"]})
        return 0
    summ = json.loads(p.stdout.strip().splitlines()[-1])
    want = 1 if init_fn == "init_raw" else len(steps)
    for m in C.read_ndjson(outp):
        run.mismatch({"kind": m["mismatch"]["what"], "init": init_fn}, m)
        return summ["steps"]
    if summ["steps"] != want:
        raise C.ToolError("child %s performed %s of %s steps" % (name, summ["steps"], want))
    return summ["steps"]


def run(tier, replay=None):
    run = C.Run(PID, tier, "model_checking")
    rnd = random.Random(C.seed())
    # 1. histories over the hand-written pool: every (from, to) pair of the model's graph
    res = C.run_tlc("MC_LevelGate", "MC_LevelGate.cfg", "c02_gate", workers=1, timeout=600, coverage=False)
    if res.inv_violated:
        run.mismatch({"kind": "model", "invariant": res.inv_violated}, {"tlc": res.error_text[:4000]})
        return run.finish()
    run.add_tlc(res)
    meta = [r for r in res.replays if r.get("meta")][0]
    cfgs, edges, inits = {}, {}, set()
    drifts = set()
    for e in res.replays:
        if e.get("meta"):
            continue
        drifts.add(e.get("drift", -1))
        k = key(e["cfg"])
        cfgs[k] = e["cfg"]
        if e["op"] == "init":
            inits.add(k)
        else:
            edges.setdefault(key(e["from"]), set()).add(k)
    n = len(cfgs)
    npairs = sum(len(v) for v in edges.values())
    if drifts != {-1, 0, 1, 2, 3, 4, 5}:
        raise C.ToolError("LevelGate did not explore the drift action: %s" % sorted(drifts))
    if n < 5 or npairs != n * n or len(inits) != n:
        raise C.ToolError("unexpected LevelGate graph: %d configs, %d pairs, %d inits" % (n, npairs, len(inits)))
    steps_done = 0
    order = sorted(cfgs)
    rnd.shuffle(order)
    starts = order[:3] if tier == "quick" else order
    for si, s in enumerate(starts):
        walk = euler(order, {k: sorted(v) for k, v in edges.items()}, s)
        fn = ["init_config", "init_with_handler"][si % 2]
        # between reconfigurations the environment may move the facade's maximum (Drift); the next
        # set_config must install the configuration's maximum again
        steps = []
        for wi, k in enumerate(walk):
            st = dict(cfgs[k])
            st["drift"] = rnd.choice([-1, 0, 1, 2, 3, 4, 5]) if wi > 0 else -1
            steps.append(st)
        steps_done += child(run, "c02_walk%d" % si, meta, steps, fn)
    for si, s in enumerate(order):
        steps_done += child(run, "c02_raw%d" % si, meta, [cfgs[s]], "init_raw")
    # 2. long seeded histories through the configuration space of Routing.tla
    r2 = C.run_tlc("MC_Routing", "MC_Routing_c02.cfg", "c02_routing", workers=8, timeout=900, coverage=False)
    if r2.inv_violated:
        run.mismatch({"kind": "model", "invariant": r2.inv_violated}, {"tlc": r2.error_text[:4000]})
        return run.finish()
    run.add_tlc(r2)
    meta2 = [r for r in r2.replays if r.get("meta")][0]
    cases = [r for r in r2.replays if not r.get("meta")]
    rnd.shuffle(cases)
    if tier == "quick":
        cases = cases[:12000]
    nproc = 4
    for i in range(nproc):
        chunk = cases[i::nproc]
        steps_done += child(run, "c02_hist%d" % i, meta2, chunk, ["init_config", "init_with_handler"][i % 2],
                            timeout=2400)
    run.traces = steps_done
    run.evaluations = steps_done
    ups = sum(1 for c in cases if c["max"] > c["root"]["lvl"])
    run.nontrivial = ups
    if not run.mismatches and ups < 100:
        raise C.ToolError("vacuous run")
    run.samples = [{"root": c["root"], "loggers": c["loggers"], "max": c["max"]} for c in cases[:3]]
    run.rule = ("(1) all ordered pairs (previous configuration, next configuration) of LevelGate.tla's pool walked "
                "as Euler tours in child processes started with init_config / init_config_with_err_handler, plus "
                "init_raw_config for every pool member; (2) seeded random histories of set_config through the "
                "configurations reachable in Routing.tla (MC_Routing_c02.cfg); after every step log::max_level(), "
                "Log::enabled and the deliveries of log::log!(target: .., level, ..) are compared for every target "
                "and level; non-trivial = configurations whose maximum comes from a logger more verbose than the root")
    run.assumptions = ["one global logger per child process; reconfigurations are sequential (the property "
                       "quantifies over sequences, not over concurrent reconfigurers)"]
    run.extra = {"pool_configs": n, "pool_pairs": npairs}
    return run.finish()

"""C07 - fixed-window / delete roller: FixedWindow.tla model-checked from arbitrary initial
directories; every behaviour replayed through Roll::roll with five pattern templates."""
import glob
import os

from driver import common as C

PID = "C07"
QUICK = ["b0c2window", "b1c3window", "b3c1window", "b0c0window", "b1c2delete", "b0c4window"]
THOROUGH = QUICK + ["b2c4window", "b1c1window", "b0c3window"]


def run(tier, replay=None):
    run = C.Run(PID, tier, "model_checking")
    total, nontriv, runs = 0, 0, 0
    for inst in (QUICK if tier == "quick" else THOROUGH):
        cfg = "MC_FixedWindow_%s.cfg" % inst
        cases, mism, summ, res = C.emit_and_replay(run, "MC_FixedWindow", cfg, "c07_" + inst, ["fixedwindow"],
                                                   timeout=900, workers=4)
        for m in mism:
            run.mismatch({"kind": m["mismatch"]["what"], "template": m.get("template", m.get("case"))}, m)
        total += len(cases)
        runs += summ.get("runs", 0)
        # non-trivial: the initial directory has a gap or a neighbour outside the window
        for c in cases:
            init = c["init"]
            vals = list(init.values()) if isinstance(init, dict) else init
            if 0 in vals and any(vals):
                nontriv += 1
        if not run.samples and cases:
            run.samples = cases[len(cases) // 2: len(cases) // 2 + 2]
    run.traces = runs
    run.evaluations = runs
    run.nontrivial = nontriv
    run.exhaustive = True
    if not run.mismatches and nontriv < 10:
        raise C.ToolError("vacuous run")
    run.rule = ("for each (base, count, roller kind) instance every initial directory (all subsets of the indices "
                "base-1..base+count present, distinct contents) and count+2 successive rolls; each behaviour is "
                "replayed through Roll::roll with the index in the file name, in a directory component, repeated, "
                "behind $ENV{..} (value containing the placeholder; index inside the variable name; a reference in the last component whose value brings directories along), with the rolled file on another "
                "filesystem than the archives, and with a .gz pattern (archives decompressed for comparison); the full recursive "
                "snapshot is compared after every roll incl. bystander files; windows of two and three also have the archive directory removed between two rolls (Wipe); non-trivial = initial directory with "
                "both present and absent indices (gaps / partial windows)")
    run.assumptions = ["contents are 5 representatives (empty, short, 5 KB, multi-byte, two lines)",
                       "empty directories left behind are not files and are ignored"]
    return run.finish()

"""C12 - JSON encoder line contract: JsonLine.tla enumerates the record space and the expected members; every
record is encoded by the real JsonEncoder and the raw line is checked and parsed back with Python's json."""
import datetime
import json
import os

from driver import common as C

PID = "C12"


def s(cps):
    return None if cps is None else "".join(chr(c) for c in cps)


def check_line(row):
    raw = bytes.fromhex(row["line_hex"])
    exp = row["expect"]
    if not raw.endswith(b"\n") or raw.endswith(b"\n\n") or raw.count(b"\n") != 1:
        return "not exactly one trailing newline (raw newlines: %d)" % raw.count(b"\n")
    body = raw[:-1]
    if any(b < 0x20 for b in body):
        return "raw control byte inside the line"
    try:
        text = body.decode("utf-8")
        obj = json.loads(text)
    except Exception as e:
        return "line does not parse as JSON: %s" % e
    if not isinstance(obj, dict):
        return "line is not a JSON object"
    if set(obj.keys()) != set(exp["members"]):
        return "members differ: expected %s, got %s" % (sorted(exp["members"]), sorted(obj.keys()))
    for f in ("message", "target", "module_path", "file"):
        if f in obj and obj[f] != s(exp[f]):
            return "field %s does not round-trip: %r vs %r" % (f, obj[f], s(exp[f]))
    if obj["level"] != exp["level"]:
        return "level: %r vs %r" % (obj["level"], exp["level"])
    if "line" in obj and obj["line"] != exp["line"]:
        return "line number: %r vs %r" % (obj["line"], exp["line"])
    if obj["thread"] != s(exp["thread"]):
        return "thread name: %r vs %r" % (obj["thread"], s(exp["thread"]))
    if obj["thread_id"] != row["thread_id"]:
        return "thread_id: %r vs %r" % (obj["thread_id"], row["thread_id"])
    want_mdc = {s(k): s(v) for k, v in exp["mdc"]}
    if obj["mdc"] != want_mdc and not (row.get("mdc_may_also_hold_late") and obj["mdc"] == {"late": "x"}):
        return "mdc: %r vs %r" % (obj["mdc"], want_mdc)
    try:
        t = obj["time"]
        datetime.datetime.fromisoformat(t.replace("Z", "+00:00")[:19])
        if "T" not in t:
            return "time is not RFC 3339: %r" % t
    except Exception:
        return "time is not RFC 3339: %r" % obj.get("time")
    return None


def run(tier, replay=None):
    run = C.Run(PID, tier, "model_checking")
    cases = []
    for cfg in ["MC_JsonLine_quick.cfg"] + (["MC_JsonLine_thorough.cfg"] if tier == "thorough" else []):
        res = C.run_tlc("MC_JsonLine", cfg, "c12_" + tier, workers=8, timeout=2400, coverage=False)
        if res.inv_violated:
            run.mismatch({"kind": "model", "invariant": res.inv_violated}, {"tlc": res.error_text[:4000]})
            return run.finish()
        run.add_tlc(res)
        cases += res.replays
    # scale: the model bounds text lengths at 2-3 classes; a few records of the same shape with fields of 300, 5 000
    # and 70 000 characters (buffers, length fields) are added to the replay
    # (the all-default record: every optional member present)
    base = dict(next(c for c in cases if all(c[f] == ["plain"] for f in ("message", "target", "module_path", "file", "thread"))
                     and c["mdc"] == [] and c["line"] == 7 and c["level"] == 3))
    mix = ["plain", "quote", "b3", "lf", "plain", "bslash", "b4", "plain", "ctl", "b2"]
    for n in (255, 256, 257, 5000, 65535, 65536, 70001):
        long_text = [mix[k % len(mix)] for k in range(n)]
        for f in ("message", "target", "module_path", "file", "thread"):
            if f == "thread" and n > 5000:
                continue
            c = dict(base)
            c["message"], c["target"] = ["plain"], ["plain"]
            c[f] = long_text
            cases.append(c)
    wd = C.workdir("c12_" + tier)
    inp, outp = os.path.join(wd, "cases.ndjson"), os.path.join(wd, "out.ndjson")
    C.write_ndjson(inp, cases)
    C.run_harness(["jsonline", inp, outp], timeout=2400)
    rows = C.read_ndjson(outp)
    if len(rows) != len(cases):
        raise C.ToolError("harness produced %d of %d lines" % (len(rows), len(cases)))
    special = {"quote", "bslash", "lf", "cr", "ctl", "del", "b2", "b3", "b4", "ls"}
    for row in rows:
        c = cases[row["case"]]
        err = row.get("failure") or check_line(row)
        if err:
            run.mismatch({"kind": err.split(":")[0][:60]},
                         {"record": c, "problem": err, "line_hex": row.get("line_hex", "")[:600]})
    # the message arrives in fragments (Fragments.tla; the same replay also renders {m})
    gc, gm, _, _ = C.emit_and_replay(run, "MC_Fragments", "MC_Fragments.cfg", "c12_fragments", ["fragments"], timeout=900, workers=2)
    for m in gm:
        if m["mismatch"]["what"].startswith("json"):
            run.mismatch({"kind": m["mismatch"]["what"]}, m)
    run.traces = len(cases) + len(gc)
    run.evaluations = len(cases) + len(gc)
    run.nontrivial = sum(1 for c in cases if any(x in special for f in ("message", "target", "module_path", "file", "thread")
                                                 for x in c[f]))
    if not run.mismatches and run.nontrivial < 1000:
        raise C.ToolError("vacuous run")
    run.samples = cases[len(cases) // 2: len(cases) // 2 + 2]
    run.exhaustive = True
    run.rule = ("every record in which at most two of {message, target, module path, file, thread name, line, level, "
                "MDC} deviate from a default, text fields being all class sequences of length <= 2 (thorough adds: one field at a "
                "time with length <= 3) over {plain, quote, backslash, LF, CR, other C0 control, DEL, 2-/3-/4-byte, U+2028}, "
                "optional fields present / absent, thread named / unnamed, line absent / 0 / u32::MAX, MDC maps of 0-2 "
                "entries; classes are instantiated with several representatives; non-trivial = a text field contains "
                "a non-plain class")
    run.assumptions = ["the verdict on escaping fidelity rests on Python's json parser and on the class "
                       "representatives; U+007F and U+2028 raw are valid JSON and not flagged",
                       "time is only checked to be RFC 3339 shaped"]
    return run.finish()

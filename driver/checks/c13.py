"""C13 - config building: ConfigBuild.tla model-checked, every builder input replayed."""
from driver import common as C

PID = "C13"


def run(tier, replay=None):
    run = C.Run(PID, tier, "model_checking")
    # logger-name validity, exhaustive over all strings of length <= 6 over {a,b,:}
    names, mism, _, _ = C.emit_and_replay(run, "MC_ConfigBuild", "MC_ConfigBuild_names.cfg", "c13_names",
                                          ["cfgbuild"], timeout=300, workers=4)
    for m in mism:
        if "name" in m["input"]:
            run.mismatch({"kind": "name", "name": m["input"]["name"]}, m)
        else:   # (the scale scenario runs with every replay)
            run.mismatch({"kind": "build", "what": m["mismatch"].get("what")}, m)
    cfg = "MC_ConfigBuild_quick.cfg" if tier == "quick" else "MC_ConfigBuild_thorough.cfg"
    cases, mism, _, _ = C.emit_and_replay(run, "MC_ConfigBuild", cfg, "c13_" + tier, ["cfgbuild"],
                                          timeout=2400, workers=8)
    for m in mism:
        run.mismatch({"kind": "build", "what": m["mismatch"].get("what")}, m)
    dups, mism, _, _ = C.emit_and_replay(run, "MC_ConfigBuild", "MC_ConfigBuild_dups.cfg", "c13_dups", ["cfgbuild"],
                                         timeout=900, workers=8)
    for m in mism:
        run.mismatch({"kind": "build", "what": m["mismatch"].get("what")}, m)
    cases = cases + dups
    run.evaluations = len(names) + len(cases)
    run.nontrivial = sum(1 for c in cases if not c["strict_ok"]) + sum(1 for n in names if not n["valid"])
    if not run.mismatches and (run.nontrivial < 100 or not any(c["strict_ok"] for c in cases)):
        raise C.ToolError("vacuous run")
    run.samples = cases[len(cases) // 3: len(cases) // 3 + 2] + names[500:503]
    run.exhaustive = True
    run.rule = ("every builder input reachable in the bounded ConfigBuild.tla instance (appender sequences with "
                "duplicates, root references incl. dangling, logger sequences from a pool of valid / invalid / "
                "duplicate names with dangling references) is built with build() and build_lossy() and compared "
                "with the specification's verdict, error set (must/may) and lossy result, then installed and "
                "logged through; plus all 1093 strings of length <= 6 over {a,b,:} as logger names; "
                "non-trivial = malformed inputs / invalid names")
    run.assumptions = ["logger-name validity follows the code's reading: every maximal run of ':' has length "
                       "exactly 2, none trailing, leading '::' accepted",
                       "a dangling reference inside a logger that is itself dropped may or may not be reported"]
    return run.finish()

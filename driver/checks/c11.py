"""C11 - any pattern string is safe: Pattern.tla (parser + chunk table + render transcribed) evaluated by TLC on
every string of the bound; every string replayed on PatternEncoder::new + encode under catch_unwind."""
import json
import os

from driver import common as C

PID = "C11"


def replay(run, cfg, name, timeout=2400):
    res = C.run_tlc("MC_Pattern", cfg, name, workers=8, timeout=timeout, coverage=False)
    if res.inv_violated:
        run.mismatch({"kind": "model", "invariant": res.inv_violated}, {"tlc": res.error_text[:4000]})
        return []
    run.add_tlc(res)
    metas = [r for r in res.replays if r.get("meta")]
    cases = [r for r in res.replays if not r.get("meta")]
    wd = C.workdir(name)
    inp, outp = os.path.join(wd, "cases.ndjson"), os.path.join(wd, "out.ndjson")
    C.write_ndjson(inp, metas[:1] + cases)
    p = C.run_harness(["pattern", inp, outp], timeout=timeout)
    summ = json.loads(p.stdout.strip().splitlines()[-1])
    if summ["cases"] != len(cases):
        raise C.ToolError("harness processed %s of %s cases" % (summ["cases"], len(cases)))
    for m in C.read_ndjson(outp):
        run.mismatch({"kind": m["mismatch"]["what"], "input": m["input"]}, m)
    run.traces += len(cases)
    return cases


def run(tier, replay_file=None):
    run = C.Run(PID, tier, "model_checking")
    cases = replay(run, "MC_Pattern_q.cfg" if tier == "quick" else "MC_Pattern_t.cfg", "c11_exh")
    cases += replay(run, "MC_Pattern_family.cfg", "c11_family")
    # the record's own fields at the edges of their types under every kind of width spec (FieldWidths.tla): no panic
    wc, wm, _, _ = C.emit_and_replay(run, "MC_FieldWidths", "MC_FieldWidths.cfg", "c11_fields", ["fieldwidths"], timeout=600, workers=2)
    for m in wm:
        run.mismatch({"kind": m["mismatch"]["what"], "input": m["mismatch"].get("pattern", "")}, m)
    run.evaluations = len(cases) + len(wc)
    run.nontrivial = sum(1 for c in cases if "<ERR>" in c["out"])
    if not run.mismatches and run.nontrivial < 1000:
        raise C.ToolError("vacuous run")
    run.samples = [c for c in cases if "<ERR>" in c["out"] and len(c["out"]) > 2][50:54]
    run.exhaustive = True
    run.rule = ("every string of length <= 4 (quick) / 5 (thorough) over the syntax alphabet { } ( ) \\ : < > . 9 m x and "
                "a non-ASCII letter, plus a curated family (single-character deletions / duplications / swaps of "
                "well-formed patterns, 20+-digit widths, invalid strftime directives, invalid zones, wrong arities); "
                "construction and encoding run under catch_unwind, the rendered prefix before the first error must "
                "match the specification and an {ERROR: marker must follow; non-trivial = inputs with an error piece")
    run.assumptions = ["patterns whose widths exceed the sanity bound (10^6) are constructed but not encoded",
                       "the wording and extent of an error marker are not compared"]
    return run.finish()

"""C18 - console appender and ANSI writer: Console.tla's decision table (432 environment rows) and SGR encoding
(243 styles) enumerated by TLC; each row replayed in a child process on ptys / pipes, each style on AnsiWriter."""
from driver import common as C

PID = "C18"


def run(tier, replay=None):
    run = C.Run(PID, tier, "model_checking")
    cases, mism, _, _ = C.emit_and_replay(run, "MC_Console", "MC_Console.cfg", "c18", ["console"], timeout=1800, workers=4)
    for m in mism:
        inp = m["input"]
        key = {"kind": m["mismatch"]["what"]}
        if inp["kind"] == "row":
            key.update({"tty_only": inp["row"]["tty_only"], "coloured": inp["coloured"], "writes": inp["writes"]})
        else:
            key.update({"style_len": len(inp["sgr"])})
        run.mismatch(key, m)
    rows = [c for c in cases if c["kind"] == "row"]
    run.evaluations = len(cases)
    run.nontrivial = sum(1 for c in rows if c["row"]["tty_only"] or c["coloured"]) + sum(1 for c in cases if c["kind"] == "style")
    if not run.mismatches and (len(rows) != 432 or len(cases) != 675):
        raise C.ToolError("unexpected table size %d / %d" % (len(rows), len(cases)))
    run.samples = rows[200:202] + [c for c in cases if c["kind"] == "style"][100:101]
    run.exhaustive = True
    run.rule = ("all 27 settings of NO_COLOR / CLICOLOR / CLICOLOR_FORCE (unset, \"0\", \"1\") x stdout terminal or pipe x "
                "stderr terminal or pipe x target x tty_only: one child process per row with the streams attached to "
                "a pty (openpty) or a pipe, logging one record per level through a pattern with nested highlight "
                "groups; the bytes on both streams are compared (silent / plain / coloured with well-formed SGR "
                "sequences and a reset after each group); all 243 styles through AnsiWriter over a Vec under "
                "catch_unwind against the specification's SGR string; non-trivial = tty_only rows, coloured rows and "
                "all styles")
    run.assumptions = ["unix only (pty); the pty's LF -> CRLF translation is normalised",
                       "which colour a level gets is not compared"]
    return run.finish()

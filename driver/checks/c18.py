"""C18 - console appender and ANSI writer: Console.tla's decision table (432 environment rows) and SGR encoding
(243 styles) enumerated by TLC; each row replayed in a child process on ptys / pipes, each style on AnsiWriter."""
import json
import os

from driver import common as C

PID = "C18"


def run(tier, replay=None):
    run = C.Run(PID, tier, "model_checking")
    cases, mism, _, _ = C.emit_and_replay(run, "MC_Console", "MC_Console.cfg", "c18", ["console"], timeout=1800, workers=4)
    for m in mism:
        inp = m["input"]
        key = {"kind": m["mismatch"]["what"]}
        if inp["kind"] == "row":
            key.update({"tty_only": inp["row"]["tty_only"], "coloured": inp["coloured"], "writes": inp["writes"]})
        else:
            key.update({"style_len": len(inp["sgr"])})
        run.mismatch(key, m)
    # growth beyond the decision table: several threads and two appenders on one stream (ConsoleStream.tla) - the
    # design with and without the stream lock by TLC, then the bytes real child processes put on pipes and terminals
    # as a trace against it
    cs = C.run_tlc("MC_ConsoleStream", "MC_ConsoleStream.cfg", "c18_cs", workers=4, timeout=900, coverage=False)
    if cs.inv_violated:
        run.mismatch({"kind": "model", "invariant": cs.inv_violated}, {"tlc": cs.error_text[:4000]})
    run.add_tlc(cs)
    neg = C.run_tlc("MC_ConsoleStream", "MC_ConsoleStream_unlocked.cfg", "c18_cs_neg", workers=2, timeout=300, coverage=False)
    if neg.inv_violated != "Whole":
        raise C.ToolError("negative control: ConsoleStream.tla without the lock does not violate Whole")
    tp = os.path.join(C.workdir("c18_stream"), "stream_%s.ndjson" % tier)
    rounds = 2 if tier == "quick" else 12
    p = C.run_harness(["constream", tp, "4", "30", str(rounds)], timeout=900)
    info = json.loads(p.stdout.strip().splitlines()[-1])
    for f in info["failures"]:
        run.mismatch({"kind": "stream: " + f["what"], "target": f["target"], "tty": f["tty"]}, f)
    if not info["failures"]:
        tr = C.validate_trace(run, "Trace_ConsoleStream", "Trace_ConsoleStream.cfg", "c18_stream", tp, timeout=900,
                              key={"kind": "stream trace rejected"}, linear=False)
        if tr is not None:
            run.states += tr.distinct
            run.transitions += tr.generated
        run.traces += info["runs"]
    # the public ConsoleWriter without lock(): pieces alternate freely (Locked = FALSE), each call's bytes - text or
    # escape sequence - arrive as one unit
    tpu = os.path.join(os.path.dirname(tp), "unlocked_%s.ndjson" % tier)
    pu = C.run_harness(["constream", tpu, "4", "30", str(max(1, rounds // 2)), "unlocked"], timeout=900)
    infou = json.loads(pu.stdout.strip().splitlines()[-1])
    for f in infou["failures"]:
        run.mismatch({"kind": "unlocked stream: " + f["what"], "target": f["target"], "tty": f["tty"]}, f)
    if not infou["failures"]:
        tr = C.validate_trace(run, "Trace_ConsoleStream", "Trace_ConsoleStream_unlocked.cfg", "c18_unlocked", tpu, timeout=900,
                              key={"kind": "unlocked stream trace rejected"}, linear=False)
        if tr is not None:
            run.states += tr.distinct
            run.transitions += tr.generated
        run.traces += infou["runs"]
    if infou["coloured_runs"] != infou["runs"]:
        raise C.ToolError("unlocked console stream runs without colour: %s" % infou)
    if info["coloured_runs"] == 0 or info["runs"] != rounds * 4:
        raise C.ToolError("console stream runs: %s" % info)
    run.extra = {"stream_model_states": cs.distinct, "stream_child_runs": info["runs"], "stream_events": info["events"],
                 "stream_coloured_runs": info["coloured_runs"], "unlocked_stream_runs": infou["runs"], "unlocked_stream_events": infou["events"]}
    rows = [c for c in cases if c["kind"] == "row"]
    run.evaluations = len(cases)
    run.nontrivial = sum(1 for c in rows if c["row"]["tty_only"] or c["coloured"]) + sum(1 for c in cases if c["kind"] == "style")
    if not run.mismatches and (len(rows) != 432 or len(cases) != 675):
        raise C.ToolError("unexpected table size %d / %d" % (len(rows), len(cases)))
    run.samples = rows[200:202] + [c for c in cases if c["kind"] == "style"][100:101]
    run.exhaustive = True
    run.rule = ("all 27 settings of NO_COLOR / CLICOLOR / CLICOLOR_FORCE (unset, \"0\", \"1\") x stdout terminal or pipe x "
                "stderr terminal or pipe x target x tty_only: one child process per row with the streams attached to "
                "a pty (openpty) or a pipe, logging one record per level through a pattern with nested highlight "
                "groups; the bytes on both streams are compared (silent / plain / coloured with well-formed SGR "
                "sequences and a reset after each group); all 243 styles through AnsiWriter over a Vec under "
                "catch_unwind against the specification's SGR string; non-trivial = tty_only rows, coloured rows and "
                "all styles")
    run.assumptions = ["unix only (pty); the pty's LF -> CRLF translation is normalised",
                       "which colour a level gets is not compared"]
    return run.finish()

"""C16 - time trigger: TimeTrigger.tla (proleptic calendar + schedule function + trigger machine) model-checked on a
dense grid and on arrival histories; every case replayed per time zone in child processes with the clock hook."""
import json
import os

from driver import common as C

PID = "C16"
FIXED = ["UTC", "<+0530>-5:30", "<-03>3"]
DST = ["Europe/Berlin", "America/New_York", "Australia/Lord_Howe", "America/Havana", "Africa/Cairo"]


def run(tier, replay=None):
    run = C.Run(PID, tier, "model_checking")
    grid = C.run_tlc("MC_TimeTrigger", "MC_TimeTrigger_gridq.cfg" if tier == "quick" else "MC_TimeTrigger_gridt.cfg",
                     "c16_grid", workers=8, timeout=1800, coverage=False)
    hist = C.run_tlc("MC_TimeTrigger", "MC_TimeTrigger_hist.cfg", "c16_hist", workers=8, timeout=1800, coverage=False)
    # long lifetimes of one trigger (300 arrivals), sampled by TLC's simulation mode
    deep = C.run_tlc("MC_TimeTrigger", "MC_TimeTrigger_deep.cfg", "c16_deep", workers=1, timeout=1800, coverage=False,
                     simulate=20 if tier == "quick" else 200, depth=400)
    # (the emitting invariant is evaluated more than once per end state in simulation mode)
    seen, uniq = set(), []
    for c in deep.replays:
        k = json.dumps(c, sort_keys=True)
        if k not in seen:
            seen.add(k)
            uniq.append(c)
    deep.replays = uniq
    big = C.run_tlc("MC_TimeTrigger", "MC_TimeTrigger_big.cfg", "c16_big", workers=2, timeout=600, coverage=False)
    for r in (grid, hist, deep, big):
        if r.inv_violated:
            run.mismatch({"kind": "model", "invariant": r.inv_violated}, {"tlc": r.error_text[:4000]})
            return run.finish()
        run.add_tlc(r)
    wd = C.workdir("c16")
    gp, hp = os.path.join(wd, "grid.ndjson"), os.path.join(wd, "all.ndjson")
    C.write_ndjson(gp, grid.replays + big.replays)
    C.write_ndjson(hp, grid.replays + big.replays + hist.replays + deep.replays)
    run.extra["simulated_long_histories"] = len(deep.replays)
    weak = skipped = 0
    zones = [(z, "fixed") for z in FIXED] + [(z, "dst") for z in (DST if tier == "thorough" else DST[:4])]
    for zone, kind in zones:
        outp = os.path.join(wd, "out_%s.ndjson" % zone.replace("/", "_").replace("<", "").replace(">", ""))
        p = C.run_harness(["timetrig", hp if kind == "fixed" else gp, outp, kind], timeout=2400, env={"TZ": zone})
        summ = json.loads(p.stdout.strip().splitlines()[-1])
        weak += summ["offset_changed_only_strict"]
        skipped += summ["nonexistent_local_times"]
        run.traces += summ["cases"]
        for m in C.read_ndjson(outp):
            inp = m["input"]
            key = {"kind": m["mismatch"]["what"], "zone": zone}
            if inp.get("kind") == "grid":
                key.update({"unit": inp["unit"], "date": "%04d-%02d-%02d" % (inp["now"]["y"], inp["now"]["mo"], inp["now"]["d"])})
            run.mismatch(key, m)
    run.evaluations = run.traces
    run.nontrivial = len(hist.replays) + sum(1 for c in grid.replays if c["mod"] or c["n"] > 1)
    if not run.mismatches and (weak == 0 or skipped == 0):
        raise C.ToolError("vacuous run: no instant fell into a DST transition (weak=%d, skipped=%d)" % (weak, skipped))
    run.samples = grid.replays[1000:1002] + hist.replays[2000:2001]
    run.extra.update({"instants_in_offset_change_windows": weak, "nonexistent_local_times_skipped": skipped, "zones": [z for z, _ in zones]})
    run.rule = ("schedule function: a grid of local instants (every month of 2024 x days 1,2,15,28-31 x 8 seconds of day "
                "around hour / day edges, the hours around the 2024 DST transitions of the zones used, year ends, leap "
                "days, ISO-week year edges) x 7 units x n in {1,2,3,5,7,12,24} x modulate, evaluated in 3 fixed-offset "
                "and 4-5 DST zones (ambiguous local times in both readings); trigger machine: all histories of 3 "
                "record arrivals with gaps from 0 s to 40 days for 14 configurations and 5 start instants, driven "
                "through a real rolling appender under the clock override in the fixed-offset zones; non-trivial = "
                "histories + grid cases with n > 1 or modulation")
    run.assumptions = ["where the UTC offset differs between the instant and the scheduled instant only 'strictly in "
                       "the future' and 'no panic' are required (as the property states)",
                       "n >= 1 and magnitudes within chrono's range", "random delay checked as a range on a sample"]
    return run.finish()

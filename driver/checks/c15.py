"""C15 - runtime reconfiguration: Reconfig.tla (snapshot swap) bound by trace validation of real
threads; Reloader.tla (file reloader) bound by replaying every edit/poll history through the guarded
single-step API."""
import json
import os

from driver import common as C

PID = "C15"


def run(tier, replay=None):
    run = C.Run(PID, tier, "model_checking")
    # --- snapshot swap: model
    for cfg in ("MC_Reconfig_1r.cfg", "MC_Reconfig_2r.cfg"):
        res = C.run_tlc("MC_Reconfig", cfg, "c15_mc", workers=8, timeout=900, coverage=False)
        if res.inv_violated:
            run.mismatch({"kind": "model", "invariant": res.inv_violated}, {"tlc": res.error_text[:4000]})
            return run.finish()
        run.add_tlc(res)
    # --- snapshot swap: traces of the real logger
    wd = C.workdir("c15")
    tp = os.path.join(wd, "reconfig.ndjson")
    nfree = 300 if tier == "quick" else 5000
    p = C.run_harness(["reconfig", tp, str(nfree), str(C.seed())], timeout=1800)
    summ = json.loads(p.stdout.strip().splitlines()[-1])
    if summ.get("hung_in"):
        run.mismatch({"kind": "a log / set_config call never returned", "part": "swap", "scenario": summ["hung_in"]},
                     {"scenario": summ["hung_in"], "events_recorded": summ["events"]})
    else:
        r = C.validate_trace(run, "Trace_Reconfig", "Trace_Reconfig.cfg", "c15_trace", tp, timeout=1800,
                             key={"part": "swap"}, linear=False)
        if r:
            run.states += r.distinct
            run.transitions += r.generated
    run.traces += summ["scenarios"]
    run.samples = C.read_ndjson(tp)[20:36]
    # --- reloader: properties on a deep instance, replay of every history of a shallow one
    res = C.run_tlc("MC_Reloader", "MC_Reloader_big.cfg", "c15_rl_big", workers=8, timeout=900, coverage=False)
    if res.inv_violated:
        run.mismatch({"kind": "model", "invariant": res.inv_violated}, {"tlc": res.error_text[:4000]})
        return run.finish()
    run.add_tlc(res)
    cfg = "MC_Reloader_quick.cfg" if tier == "quick" else "MC_Reloader_thorough.cfg"
    cases, mism, _, _ = C.emit_and_replay(run, "MC_Reloader", cfg, "c15_rl_" + tier, ["reloader"], timeout=2400, workers=8)
    for m in mism:
        run.mismatch({"kind": m["mismatch"]["what"], "part": "reloader"}, m)
    # long edit / poll histories (up to 200 steps, ending when the rate is removed), sampled by TLC's simulation mode
    dcases, dmism, _, _ = C.emit_and_replay(run, "MC_Reloader", "MC_Reloader_deep.cfg", "c15_rl_deep", ["reloader"], timeout=1200,
                                            workers=1, simulate=300 if tier == "quick" else 5000, depth=260)
    for m in dmism:
        run.mismatch({"kind": m["mismatch"]["what"], "part": "reloader", "mode": "simulate"}, m)
    run.extra["simulated_long_reloader_histories"] = len(dcases)
    run.extra["longest_simulated_reloader_history"] = max(len(c["ops"]) for c in dcases)
    # --- the reloader thread itself: traces of init_file's refresh thread (sleep / edit / apply events, all emitted
    # on that thread) must be behaviours of Reloader.tla where every sleep lasts the current rate
    ltp = os.path.join(wd, "reloadlive.ndjson")
    nlive = 6 if tier == "quick" else 18
    p = C.run_harness(["reloadlive", ltp, str(nlive)], timeout=900)
    lsumm = json.loads(p.stdout.strip().splitlines()[-1])
    if lsumm["sleeps"] == 0:
        raise C.ToolError("instrumentation missing: no reloader.sleep hook events recorded")
    for pr in lsumm["problems"]:
        run.mismatch({"kind": pr["what"], "part": "reloader thread"}, pr)
    r = C.validate_trace(run, "Trace_Reloader", "Trace_Reloader.cfg", "c15_live", ltp, timeout=900,
                         key={"part": "reloader thread"}, linear=False)
    if r:
        run.states += r.distinct
        run.transitions += r.generated
    run.traces += nlive
    # --- the loop at the grain of its system calls (ReloaderLive.tla): the editor acts between the two looks that
    # init_file and run_once take at the file.  Liveness under fairness of the loop's steps (a valid content that stays
    # is applied eventually, a bad one never stops the loop), two negative controls of it (an editor that reproduces the
    # remembered modification time; init_file reading the text before it takes the time - F17), and every behaviour of
    # a bounded instance replayed through init_file and the real refresh thread in a child process each, the edits
    # made at the guarded sync points between the looks
    res = C.run_tlc("MC_ReloaderLive", "MC_ReloaderLive_live.cfg" if tier == "quick" else "MC_ReloaderLive_live4.cfg", "c15_rlive",
                    workers=4, timeout=1200, coverage=False)
    if res.inv_violated:
        run.mismatch({"kind": "model", "invariant": res.inv_violated, "part": "reloader races"}, {"tlc": res.error_text[:4000]})
        return run.finish()
    run.add_tlc(res)
    for cfg in ("MC_ReloaderLive_forge.cfg", "MC_ReloaderLive_readfirst.cfg"):
        neg = C.run_tlc("MC_ReloaderLive", cfg, "c15_rlive_neg", workers=2, timeout=600, coverage=False)
        if neg.inv_violated != "Converges":
            raise C.ToolError("negative control: %s does not refute Converges (%r)" % (cfg, neg.inv_violated))
    racecfg = "MC_ReloaderLive_quick.cfg" if tier == "quick" else "MC_ReloaderLive_thorough.cfg"
    # the quick tier replays every behaviour in which an edit lands between two looks, and every fifth of the others
    keep = None
    if tier == "quick":
        keep = lambda c: any(o.get("mid") for o in c["ops"]) or (len(json.dumps(c["ops"])) * 2654435761 >> 7) % 5 == 0
    rcases, rmism, _, _ = C.emit_and_replay(run, "MC_ReloaderLive", racecfg, "c15_race_" + tier, ["reloadrace"], timeout=2400, workers=4,
                                            keep=keep)
    for m in rmism:
        run.mismatch({"kind": m["mismatch"]["what"], "part": "reloader races"}, m)
    raced = sum(1 for c in rcases if any(o.get("mid") for o in c["ops"]))
    if not run.mismatches and raced < 200:
        raise C.ToolError("vacuous run: %d behaviours with an edit between two looks" % raced)
    run.extra["behaviours_with_an_edit_between_two_looks"] = raced
    run.evaluations = len(cases) + summ["scenarios"] + nlive + len(rcases)
    polls = lambda c: [o for o in c["ops"] if o["op"] == "poll"]
    run.nontrivial = sum(1 for c in cases if any(o["ret"] in ("err", "stop", "rate") for o in polls(c)))
    if not run.mismatches and run.nontrivial < 100:
        raise C.ToolError("vacuous run")
    run.samples.append({"reloader_history": cases[len(cases) // 2]["ops"]})
    run.rule = ("swap: 7 directed scenarios (swap while a logging thread is parked inside appender 1/2/3 of the old "
                "generation, swap between snapshot load and fan-out via the log.loaded sync point, re-entrant "
                "set_config from appender 1/2/3) + seeded free-running scenarios of 1-3 logging and 1-2 reconfiguring "
                "threads; every delivery carries the generation of its appender and the whole event sequence must be "
                "a behaviour of Reconfig.tla; reloader: every history of <= 4 (quick) edits / polls over 2 versions x "
                "3 rates (incl. rate removal) x 2 broken texts x deletion x touch, in YAML / JSON / TOML, replayed "
                "through VerifReloader::run_once with explicit mtimes; non-trivial = histories with an error, a "
                "stop or an applied change; reloader thread: 6 (quick) / 18 (thorough) scripted lifetimes of the real "
                "init_file refresh thread with rates of 10-30 ms (rate changes, rate-only change, touch, broken text, "
                "deletion and restoration, rate removal; the configured path a plain file or a symbolic link re-pointed at every "
                "edit), validated as traces against Reloader.tla: every sleep "
                "lasts the rate of the last applied file")
    run.assumptions = ["harness events are totally ordered by one mutex; load / max update / store are silent steps "
                       "inferred by TLC", "free-running schedules are sampled, directed ones are deterministic",
                       "the reloader histories drive run_once step by step; the sleep loop (run) is covered by the recorded "
                       "lifetimes of the real thread, whose script is fixed (3 scripts x 3 formats x plain file / re-pointed symbolic link)"]
    return run.finish()

"""C14 - configuration files: ConfigFile.tla (logical documents, injected defects, outcome classes, surviving
configuration) checked by TLC; every document rendered into YAML / JSON / TOML and loaded through the lossy and
the strict pipeline."""
from driver import common as C

PID = "C14"


def run(tier, replay=None):
    run = C.Run(PID, tier, "model_checking")
    cases, mism, _, _ = C.emit_and_replay(run, "MC_ConfigFile", "MC_ConfigFile_quick.cfg", "c14_" + tier, ["configfile"],
                                          timeout=3000, workers=8)
    for m in mism:
        d = m["doc"]
        run.mismatch({"kind": m["mismatch"]["what"], "x": d["x"], "c": d["c"], "dv": d["dv"]}, m)
    # growth beyond the property: the deserializer registry the loaders rely on (Registry.tla)
    reg_cases, reg_mism, _, _ = C.emit_and_replay(run, "MC_Registry", "MC_Registry.cfg", "c14_registry", ["registry"],
                                                  timeout=1200, workers=8)
    for m in reg_mism:
        run.mismatch({"kind": "registry: " + m["mismatch"]["what"]}, m)
    # ... and which reader a file gets (ConfigFormat.tla: by the last extension alone, case-sensitively)
    fmt_cases, fmt_mism, _, _ = C.emit_and_replay(run, "MC_ConfigFormat", "MC_ConfigFormat.cfg", "c14_format", ["cfgformat"],
                                                  timeout=600, workers=2)
    for m in fmt_mism:
        run.mismatch({"kind": "format: " + m["mismatch"]["what"]}, m)
    run.extra = {"registry_histories": len(reg_cases), "file_name_cases": len(fmt_cases)}
    run.evaluations = len(cases) * 4
    run.nontrivial = sum(1 for c in cases if c["class"] != "loaded")
    classes = {c["class"] for c in cases}
    if not run.mismatches and classes != {"loaded", "partial", "rejected"}:
        raise C.ToolError("vacuous run: classes %s" % classes)
    run.samples = [{"doc": c["doc"], "class": c["class"], "kept": c["kept"]} for c in cases[len(cases) // 2: len(cases) // 2 + 3]]
    run.exhaustive = True
    run.rule = ("every logical document of the bounded ConfigFile.tla instance: a capture appender in 6 variants (plain, "
                "threshold filter, unknown filter kind, good+bad and bad+good filter lists, absent), a second appender in "
                "28 variants (file / rolling / console appenders well-formed, with defaulted fields, or with one injected "
                "defect in the appender, encoder, policy, trigger or roller section: unknown key, unknown kind, wrong "
                "type, negative / unparsable / missing numbers, degenerate time intervals), 12 document-level variants "
                "(unknown key at document / root / logger level, missing logger level, bad levels, bad refresh rate, "
                "appender without kind, wrong-typed lists and flags), root present / without level / absent, refresh "
                "rate present / absent, 0-2 loggers incl. dangling references and an invalid logger name; each is "
                "rendered into YAML, JSON and TOML and loaded by load_config_file and by the strict pipeline; outcome "
                "class, surviving appenders, routing of 25 probe records through the capture appender, refresh rate, "
                "append default and encoder defaults are compared; non-trivial = documents that are not plainly loaded")
    run.assumptions = ["the document-level defaults follow the code (root level debug, logger level required)",
                       "one defect per document so that classes do not mask each other"]
    return run.finish()

"""C09 - pattern encoder output equals the pattern's meaning: well-formed patterns generated as grammar-token
sequences with a parser-independent denotation (MC_PatternGrammar.tla); TLC checks that the parser transcription
agrees with the denotation; every pattern is replayed on the real encoder for three records."""
import json
import os

from driver import common as C

PID = "C09"


def run(tier, replay=None):
    run = C.Run(PID, tier, "model_checking")
    insts = [("A", False), ("B", False), ("C", False)]
    if tier == "thorough":
        insts += [("A3", False), ("B3", False), ("Crel", True)]
    allc = []
    for name, release in insts:
        cfg = "MC_PatternGrammar_%s.cfg" % name
        res = C.run_tlc("MC_PatternGrammar", cfg, "c09_" + name, workers=8, timeout=2400, coverage=False, xmx="8g")
        if res.inv_violated:
            run.mismatch({"kind": "model", "invariant": res.inv_violated}, {"tlc": res.error_text[:4000]})
            continue
        run.add_tlc(res)
        metas = [r for r in res.replays if r.get("meta")]
        cases = [r for r in res.replays if not r.get("meta")]
        wd = C.workdir("c09_" + name)
        inp, outp = os.path.join(wd, "cases.ndjson"), os.path.join(wd, "out.ndjson")
        C.write_ndjson(inp, metas[:1] + cases)
        if release:
            C.build_harness(release=True)
        # a zone with an offset, so that {d(..)(utc)} and {d(..)(local)} differ
        p = C.run_harness(["pattern", inp, outp], timeout=2400, release=release, env={"TZ": "<+0530>-5:30"})
        summ = json.loads(p.stdout.strip().splitlines()[-1])
        if summ["cases"] != len(cases):
            raise C.ToolError("harness processed %s of %s cases" % (summ["cases"], len(cases)))
        for m in C.read_ndjson(outp):
            run.mismatch({"kind": m["mismatch"]["what"], "input": m["input"]}, m)
        run.traces += len(cases)
        allc += cases
    # the local zone is an input of every encode call (DateZone.tla): histories in which the zone changes between
    # the construction of an encoder and its use, and between two uses
    zc, zm, _, _ = C.emit_and_replay(run, "MC_DateZone", "MC_DateZone.cfg", "c09_zone", ["datezone"], timeout=900, workers=4)
    for m in zm:
        run.mismatch({"kind": m["mismatch"]["what"], "input": m["mismatch"].get("pattern", "")}, m)
    # ... and the process: histories with fork(), continued in the child
    fc, fm, _, _ = C.emit_and_replay(run, "MC_DateZone", "MC_DateZone_fork.cfg", "c09_fork", ["datezone"], timeout=900, workers=4)
    for m in fm:
        run.mismatch({"kind": m["mismatch"]["what"], "input": m["mismatch"].get("pattern", "")}, m)
    # ... the record's own fields (line 0 .. u32::MAX, absent file / module path, every level) under every kind of width spec
    wc, wm, _, _ = C.emit_and_replay(run, "MC_FieldWidths", "MC_FieldWidths.cfg", "c09_fields", ["fieldwidths"], timeout=600, workers=2)
    for m in wm:
        run.mismatch({"kind": m["mismatch"]["what"], "input": m["mismatch"].get("pattern", "")}, m)
    # ... and time: successive encodes render strictly increasing instants, to the last digit of a fraction
    kc, km, _, _ = C.emit_and_replay(run, "MC_DateZone", "MC_DateZone_clock.cfg", "c09_clock", ["datezone"], timeout=900, workers=4)
    for m in km:
        run.mismatch({"kind": m["mismatch"]["what"], "input": m["mismatch"].get("pattern", "")}, m)
    # ... and the message's value is the concatenation of the fragments it arrives in (Fragments.tla)
    gc, gm, _, _ = C.emit_and_replay(run, "MC_Fragments", "MC_Fragments.cfg", "c09_fragments", ["fragments"], timeout=900, workers=2)
    for m in gm:
        run.mismatch({"kind": m["mismatch"]["what"], "input": m["mismatch"].get("pattern", "")}, m)
    run.evaluations = len(allc) + len(zc) + len(fc) + len(gc) + len(kc)
    run.nontrivial = sum(1 for c in allc if "{" in c["input"].replace("{{", "").replace("\\{", ""))
    if not run.mismatches and run.nontrivial < 1000:
        raise C.ToolError("vacuous run")
    run.samples = [{"input": c["input"], "out": c["out"]} for c in allc[len(allc) // 2: len(allc) // 2 + 4]]
    run.exhaustive = True
    run.rule = ("every sequence of <= 2 (quick) / 3 (thorough) items, nesting depth <= 2, over 6 literal chunks, 9 "
                "escapes, 34 formatter tokens (every formatter with both aliases, width specs, MDC hit / miss / default "
                "with escaped characters, literal and strftime date formats with zones) and 6 group openers x 4 closing "
                "width specs; three records (all fields present; optional fields absent with an empty message and a "
                "non-ASCII target; special characters and 4 non-ASCII characters in the message); the encoder output "
                "(bytes and style requests in line) must equal the denotation; non-trivial = patterns containing a "
                "formatter or group")
    run.assumptions = ["process / thread ids are opaque digit runs; a date is compared with the harness's own clock readings "
                       "around the call formatted with the pattern's format and zone (TZ = +05:30 so that utc and local "
                       "differ); a width applied to an opaque atom is not compared beyond the preceding text",
                       "the colour chosen per level is not compared, only that a style request precedes and a reset "
                       "follows the highlighted group",
                       "zone changes are 4 POSIX TZ values (UTC0, JST-9, IST-5:30, NST3:30) set through the environment; "
                       "all histories of 5 operations (set zone / build an encoder of one of 4 kinds / encode); all histories of 6 operations "
                       "with up to 2 forks (the history continues in the child) over {P}|{pid} and a local date",
                       "release-profile {R(..)} rendering is replayed in the thorough tier"]
    return run.finish()

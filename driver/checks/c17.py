"""C17 - on-start-up trigger: Rolling.tla with Trig = startup over pre-existing sizes around min_size,
both modes, restarts (each lifetime may roll once); replay on the real OnStartUpTrigger."""
from driver import common as C
from driver import rolling_common as R

PID = "C17"


def instances(tier):
    I = R.inst
    L = []
    for mn in (0, 1, 2):
        for append in (True, False):
            L.append(I("min%d_%s" % (mn, "a" if append else "t"), trig="startup", append=append, count=2, limit=mn,
                       sizes=(1, 2), pre="PreB", maxrec=3 if tier == "quick" else 4, restart=2))
    L += [
        I("min_huge", trig="startup", count=2, limit=2000000000, sizes=(1, 2), pre="PreB", maxrec=3, restart=2),
        I("min2_w11", trig="startup", base=1, count=1, limit=2, sizes=(1, 3), pre="PreB", maxrec=4, restart=2),
        I("min1_delete", trig="startup", roller="delete", count=0, limit=1, sizes=(1, 2), pre="PreB", maxrec=3, restart=2),
        I("big", trig="startup", count=2, limit=2, sizes=(1, 2, 3), pre="PreB", maxrec=5, restart=2, faults=1, crash=1,
          hist=False),
    ]
    return L


def run(tier, replay=None):
    run = C.Run(PID, tier, "model_checking")
    cases = R.run_instances(run, "c17_" + tier, instances(tier), R.has_roll)
    # long behaviours (hundreds of records in one history), sampled by TLC's simulation mode
    deep = 400 if tier == "quick" else 600
    R.deep_runs(run, "c17", [R.inst("deep_min1", trig="startup", count=2, limit=1, sizes=(1, 2), pre="PreB", maxrec=deep, restart=12, faults=3, crash=3),
                        R.inst("deep_min0_t", trig="startup", append=False, count=1, limit=0, sizes=(0, 1), pre="PreB", maxrec=deep, restart=12)], 40 if tier == "quick" else 120)
    # the first records arrive simultaneously from several threads (released by a barrier)
    for mn in (0, 1, 2):
        # the first scenario of each batch is one long lifetime (4 threads x 80 / 600 records)
        R.concurrent_traces(run, "c17", "startup", mn, 60 if tier == "quick" else 1500, long=80 if tier == "quick" else 600)
    if not run.mismatches and run.nontrivial < 50:
        raise C.ToolError("vacuous run")
    run.exhaustive = True
    run.rule = ("all behaviours with the on-start-up trigger: min_size 0..2 units, pre-existing file absent / empty / "
                "1..3 units, append and truncate mode, up to 2 restarts, all record sequences; the directory after "
                "every append shows whether and when the single rotation of a lifetime happened and that the "
                "pre-existing content became the newest archive; non-trivial = a rotation happened")
    run.rule += ("; plus seeded scenarios of 2-4 real threads released together by a barrier, each appending 1-3 records "
                 "over pre-existing files of -/0/1/2/3 units with min_size 0/1/2: the trace (start / end events emitted "
                 "under the appender's mutex, directory parsed at the end of every append) is validated against "
                 "Rolling.tla with TLC; one scenario per batch is a long lifetime of 320 (quick) / 2400 (thorough) records")
    run.assumptions = ["long behaviours (400 / 1000 records with faults, crashes, restarts, obstacles and encoder failures) are sampled by TLC -simulate (40 / 400 per instance), not enumerated", "thread schedules are sampled (barrier + seeded yields), not enumerated"]
    return run.finish()

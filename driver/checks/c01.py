"""C01 - routing: Routing.tla model-checked, every configuration replayed on the real Logger."""
import json
import os

from driver import common as C

PID = "C01"


def emit_and_replay(run, cfg, name, timeout):
    res = C.run_tlc("MC_Routing", cfg, name, workers=8, timeout=timeout, coverage=False)
    if res.inv_violated:
        run.mismatch({"kind": "model", "invariant": res.inv_violated},
                     {"tlc": res.error_text[:4000]})
        return res, []
    run.add_tlc(res)
    metas = [r for r in res.replays if r.get("meta") == "targets"]
    cases = [r for r in res.replays if "meta" not in r]
    if not metas or not cases:
        raise C.ToolError("no replay cases emitted by %s" % cfg)
    wd = C.workdir(name)
    inp = os.path.join(wd, "cases.ndjson")
    outp = os.path.join(wd, "out.ndjson")
    C.write_ndjson(inp, [metas[0]] + cases)
    p = C.run_harness(["routing", inp, outp], timeout=timeout)
    summ = json.loads(p.stdout.strip().splitlines()[-1])
    if summ["cases"] != len(cases):
        raise C.ToolError("harness processed %s of %s cases" % (summ["cases"], len(cases)))
    mism = C.read_ndjson(outp)
    return res, (cases, summ, mism)


def run(tier, replay=None):
    run = C.Run(PID, tier, "model_checking")
    # (the second instance: names whose length in characters says nothing about their depth)
    cfgs = [("MC_Routing_quick.cfg", "c01_quick", 900), ("MC_Routing_long.cfg", "c01_long", 900)]
    if tier == "thorough":
        cfgs.append(("MC_Routing_thorough.cfg", "c01_thorough", 3000))
        cfgs.append(("MC_Routing_thorough3.cfg", "c01_thorough3", 3000))
    total_cases = 0
    nontrivial = 0
    for cfg, name, to in cfgs:
        res, rest = emit_and_replay(run, cfg, name, to)
        if not rest:
            continue
        cases, summ, mism = rest
        total_cases += len(cases)
        run.traces += len(cases)
        run.evaluations += len(cases) * summ["log_calls_per_case"]
        # non-trivial: a logger exists whose routing differs from the root's somewhere
        nontrivial += sum(1 for c in cases if len(c["cls"]) > 1)
        if not run.samples:
            run.samples = [{"root": c["root"], "loggers": c["loggers"], "classes": c["cls"]}
                           for c in cases[len(cases) // 2: len(cases) // 2 + 3]]
        for m in mism:
            mm = m["mismatch"]
            run.mismatch({"kind": mm.get("what"), "target": mm.get("target")}, m)
    run.nontrivial = nontrivial
    if not run.mismatches and nontrivial < 1000:
        raise C.ToolError("vacuous run: only %d non-trivial configurations" % nontrivial)
    run.exhaustive = True
    run.rule = ("every configuration reachable in the bounded Routing.tla instance (Declare actions over a "
                "curated name pool) is built through the public builders in every declaration order and every "
                "(target, level) pair of the bound is logged; non-trivial = configurations whose routing table "
                "has more than one class (some target is routed differently from the root)")
    run.assumptions = [
        "names/targets over the alphabet {a,b,:}; appenders are counting Append implementations",
        "TLC bound: see spec/MC_Routing_*.cfg",
    ]
    return run.finish()

"""C05 - rolling appender stream integrity: Rolling.tla model-checked; behaviours (appends, restarts,
every trigger kind, window / delete rollers) replayed on the real appender."""
from driver import common as C
from driver import rolling_common as R

PID = "C05"


def instances(tier):
    I = R.inst
    L = [
        I("size_w02", trig="size", count=2, limit=2, sizes=(1, 3), maxrec=5, restart=1),
        I("size_w11_l0", trig="size", base=1, count=1, limit=0, sizes=(1, 2), maxrec=4, restart=1),
        I("size_w03", trig="size", count=3, limit=1, sizes=(1, 2), maxrec=5, pre="PreNone"),
        I("size_delete", trig="size", roller="delete", count=0, limit=1, sizes=(1, 2), maxrec=4, restart=1),
        I("size_count0", trig="size", roller="window", count=0, limit=1, sizes=(1, 2), maxrec=4, restart=1),
        I("pre_w02", trig="pre", count=2, sizes=(1, 2), maxrec=4, restart=1),
        I("post_w02", trig="post", count=2, sizes=(1, 2), maxrec=4, restart=1),
        I("startup_w02", trig="startup", count=2, limit=1, sizes=(1, 2), pre="PreB", maxrec=3, restart=2),
        I("size_trunc", trig="size", append=False, count=2, limit=2, sizes=(1, 3), maxrec=4, restart=1),
        I("pre_trunc", trig="pre", append=False, count=2, sizes=(1, 2), maxrec=3, restart=1),
        # a failed rotation must not cost records either (the fault machinery is C08's subject)
        I("size_a_fault", trig="size", count=2, limit=2, sizes=(1, 3), maxrec=4, faults=1, pre="PreNone"),
        I("post_a_obst", trig="post", count=2, sizes=(1, 2), maxrec=3, obst=1, pre="PreNone"),
        # a failing encoder leaves part of a record behind: the acknowledged records around it stay whole and in order
        I("pre_encfail", trig="pre", count=2, sizes=(1, 2), maxrec=4, encfail=1, restart=1, pre="PreNone"),
        I("post_encfail", trig="post", count=2, sizes=(1, 2), maxrec=3, encfail=1, crash=1, pre="PreNone"),
        # larger, model-checking only (all perturbations on, no history)
        I("big_size", trig="size", base=1, count=2, limit=2, sizes=(1, 3), maxrec=6, faults=1, crash=1, restart=1,
          obst=1, hist=False),
        I("big_post", trig="post", count=2, sizes=(1, 2), maxrec=5, faults=1, crash=1, restart=1, obst=1, hist=False),
    ]
    if tier == "thorough":
        L += [
            I("size_w13_long", trig="size", base=1, count=3, limit=2, sizes=(1, 2, 3), maxrec=6, restart=1),
            I("pre_w03_long", trig="pre", count=3, sizes=(1, 2), maxrec=6, restart=1),
            I("post_w03_long", trig="post", count=3, sizes=(1, 2), maxrec=5, restart=2),
            I("big_pre", trig="pre", count=3, sizes=(1, 2), maxrec=6, faults=1, crash=1, restart=1, obst=1, hist=False),
            I("big_size7", trig="size", base=1, count=3, limit=2, sizes=(1, 3), maxrec=7, faults=2, crash=1, restart=2,
              obst=1, hist=False),
        ]
    return L


def run(tier, replay=None):
    run = C.Run(PID, tier, "model_checking")
    cases = R.run_instances(run, "c05_" + tier, instances(tier), R.has_roll)
    # concurrent writers: traces of real threads validated against the specification
    R.concurrent_traces(run, "c05", "size", 3, 80 if tier == "quick" else 2000, long=80 if tier == "quick" else 600)
    R.concurrent_traces(run, "c05", "size", 1, 40 if tier == "quick" else 1000)
    if not run.mismatches and run.nontrivial < 50:
        raise C.ToolError("vacuous run: %d behaviours with a rotation" % run.nontrivial)
    run.exhaustive = True
    run.rule = ("every complete behaviour (all record-size sequences, scripted trigger decisions, restarts, "
                "pre-existing contents) of the listed bounded Rolling.tla instances, replayed on the real "
                "RollingFileAppender with 3 materialisations (10-byte units + PatternEncoder; 400-byte units "
                "straddling the 1 KiB buffer + two-chunk encoder + count-0 window roller; gzip archives); after "
                "every operation every file is parsed back into record ids and compared with the specification's "
                "directory; non-trivial = a rotation happened")
    run.assumptions = ["record sizes are multiples of the unit; time trigger represented by the scripted "
                       "pre-process trigger (its schedule is C16's subject)",
                       "replays are single-threaded; concurrent writers are covered by sampled schedules of 2-4 real threads whose traces (events under the appender mutex) are validated against Rolling.tla"]
    return run.finish()

"""C05 - rolling appender stream integrity: Rolling.tla model-checked; behaviours (appends, restarts,
every trigger kind, window / delete rollers) replayed on the real appender."""
import json
import os

from driver import common as C
from driver import rolling_common as R

PID = "C05"


def instances(tier):
    I = R.inst
    L = [
        I("size_w02", trig="size", count=2, limit=2, sizes=(1, 3), maxrec=5, restart=1),
        I("size_w11_l0", trig="size", base=1, count=1, limit=0, sizes=(1, 2), maxrec=4, restart=1),
        I("size_w03", trig="size", count=3, limit=1, sizes=(1, 2), maxrec=5, pre="PreNone"),
        I("size_delete", trig="size", roller="delete", count=0, limit=1, sizes=(1, 2), maxrec=4, restart=1),
        I("size_count0", trig="size", roller="window", count=0, limit=1, sizes=(1, 2), maxrec=4, restart=1),
        I("pre_w02", trig="pre", count=2, sizes=(1, 2), maxrec=4, restart=1),
        I("post_w02", trig="post", count=2, sizes=(1, 2), maxrec=4, restart=1),
        I("startup_w02", trig="startup", count=2, limit=1, sizes=(1, 2), pre="PreB", maxrec=3, restart=2),
        I("size_trunc", trig="size", append=False, count=2, limit=2, sizes=(1, 3), maxrec=4, restart=1),
        I("pre_trunc", trig="pre", append=False, count=2, sizes=(1, 2), maxrec=3, restart=1),
        # a failed rotation must not cost records either (the fault machinery is C08's subject)
        I("size_a_fault", trig="size", count=2, limit=2, sizes=(1, 3), maxrec=4, faults=1, pre="PreNone"),
        I("post_a_obst", trig="post", count=2, sizes=(1, 2), maxrec=3, obst=1, pre="PreNone"),
        I("pre_a_obst", trig="pre", count=2, sizes=(1, 2), maxrec=4, obst=1, pre="PreNone"),
        # ... nor may a compressed archive whose last piece cannot be written (the newest archive's name takes no byte)
        I("size_gz_full", trig="size", count=1, limit=2, sizes=(1, 3), maxrec=4, obst=1, gz=True, pre="PreNone"),
        # a failing encoder leaves part of a record behind: the acknowledged records around it stay whole and in order
        I("pre_encfail", trig="pre", count=2, sizes=(1, 2), maxrec=4, encfail=1, restart=1, pre="PreNone"),
        I("post_encfail", trig="post", count=2, sizes=(1, 2), maxrec=3, encfail=1, crash=1, pre="PreNone"),
        # archives found at first build, with gaps (an appender started over what an earlier life - or an admin - left)
        I("size_prearch_w04", trig="size", count=4, limit=1, sizes=(1, 2), maxrec=3, prearch=True, pre="PreA"),
        I("pre_prearch_w13_t", trig="pre", base=1, count=3, append=False, sizes=(1, 2), maxrec=3, prearch=True, restart=1, pre="PreNone"),
        # a user-defined roller that returns Ok and leaves the file where it is: the appender carries on in the same file
        I("size_noop", trig="size", roller="noop", count=0, limit=2, sizes=(1, 3), maxrec=4, restart=1),
        I("pre_noop_t", trig="pre", roller="noop", count=0, append=False, sizes=(1, 2), maxrec=3, restart=1, faults=1),
        I("post_noop", trig="post", roller="noop", count=0, sizes=(1, 2), maxrec=3, faults=1, pre="PreNone"),
        # a reconfiguration: the successor appender is built while its predecessor is alive and still acknowledges a record
        I("size_overlap", trig="size", count=2, limit=3, sizes=(1, 2), maxrec=4, overlap=2, restart=1),
        I("pre_overlap", trig="pre", count=2, sizes=(1, 2), maxrec=4, overlap=1, pre="PreNone"),
        I("post_overlap", trig="post", count=1, sizes=(1, 2), maxrec=4, overlap=2, pre="PreNone"),
        I("startup_overlap", trig="startup", count=2, limit=1, sizes=(1, 2), pre="PreB", maxrec=3, overlap=1, restart=1),
        # larger, model-checking only (all perturbations on, no history)
        I("big_size", trig="size", base=1, count=2, limit=2, sizes=(1, 3), maxrec=6, faults=1, crash=1, restart=1,
          obst=1, hist=False),
        I("big_post", trig="post", count=2, sizes=(1, 2), maxrec=5, faults=1, crash=1, restart=1, obst=1, hist=False),
    ]
    if tier == "thorough":
        L += [
            I("size_w13_long", trig="size", base=1, count=3, limit=2, sizes=(1, 2, 3), maxrec=6, restart=1),
            I("pre_w03_long", trig="pre", count=3, sizes=(1, 2), maxrec=6, restart=1),
            I("post_w03_long", trig="post", count=3, sizes=(1, 2), maxrec=5, restart=2),
            I("big_pre", trig="pre", count=3, sizes=(1, 2), maxrec=6, faults=1, crash=1, restart=1, obst=1, hist=False),
            I("big_size7", trig="size", base=1, count=3, limit=2, sizes=(1, 3), maxrec=7, faults=2, crash=1, restart=2,
              obst=1, hist=False),
        ]
    return L


def run(tier, replay=None):
    run = C.Run(PID, tier, "model_checking")
    cases = R.run_instances(run, "c05_" + tier, instances(tier), R.has_roll)
    # long behaviours (hundreds of records in one history), sampled by TLC's simulation mode
    deep = 400 if tier == "quick" else 1000
    R.deep_runs(run, "c05", [R.inst("deep_size", trig="size", count=2, limit=2, sizes=(1, 2, 3), maxrec=deep, faults=6, crash=3, restart=6, obst=4, encfail=4, overlap=5),
                        R.inst("deep_pre_t", trig="pre", append=False, count=3, sizes=(1, 2), maxrec=deep, faults=4, crash=2, restart=6, obst=2),
                        R.inst("deep_post", trig="post", base=1, count=2, sizes=(0, 1, 2), maxrec=deep, faults=4, crash=3, restart=4, obst=2, encfail=3, overlap=5)], 40 if tier == "quick" else 400)
    # concurrent writers: traces of real threads validated against the specification
    R.concurrent_traces(run, "c05", "size", 3, 80 if tier == "quick" else 2000, long=80 if tier == "quick" else 600)
    R.concurrent_traces(run, "c05", "size", 1, 40 if tier == "quick" else 1000)
    # --- background rotation: the hand-off protocol (BackgroundRotation.tla: rotation threads step by step, restarts
    # inside one process, liveness under weak fairness), then the unperturbed behaviours replayed on a second build of
    # the harness against log4rs with the background_rotation feature; appends and restarts overlap the rotation
    # thread and the directory is compared at the end of every history (QuiescentWindow)
    if run.mismatches:
        return run.finish()      # (what follows replays the same behaviours once more; a violation is already at hand)
    res = C.run_tlc("BackgroundRotation", "MC_BackgroundRotation.cfg" if tier == "quick" else "MC_BackgroundRotation_t.cfg",
                    "c05_bgmodel", workers=4, timeout=1200, coverage=False)
    if res.inv_violated:
        run.mismatch({"kind": "model", "invariant": res.inv_violated, "build": "background_rotation"}, {"tlc": res.error_text[:6000]})
    else:
        run.add_tlc(res)
    bg_cases, bg_waits = 0, 0
    for i in instances(tier):
        # (histories with a directory in the way of an archive run with one check there: the newest acknowledged record
        # is in a file, whatever the rotation thread did)
        if not i["hist"] or i["faults"] or i["crash"] or i["encfail"] or (i["obst"] and (i.get("gz") or i.get("nodir"))):
            continue
        wd = os.path.join(C.WORK, "c05_%s_%s" % (tier, i["name"]))
        inp, outp = os.path.join(wd, "cases.ndjson"), os.path.join(wd, "out_bg.ndjson")
        try:
            p = C.run_harness(["rolling", inp, outp], timeout=1500, features=["bgrot"])
        except C.ToolError as ex:
            if "timeout" not in str(ex):
                raise
            # the replay itself bounds every wait (10 s per history): not finishing in 25 minutes is the code under test
            run.mismatch({"kind": "replay with background rotation did not finish", "build": "background_rotation", "instance": i["name"]},
                         {"error": str(ex)})
            continue
        summ = json.loads(p.stdout.strip().splitlines()[-1])
        if not summ.get("background_rotation"):
            raise C.ToolError("the bgrot build does not have background rotation")
        bg_cases += summ["cases"]
        bg_waits += summ["waited_for_background_rotation"]
        for m in C.read_ndjson(outp):
            run.mismatch({"kind": m["mismatch"]["what"], "build": "background_rotation", "trig": m["params"]["trig"],
                          "instance": i["name"]}, m)
    if bg_cases and not bg_waits:
        raise C.ToolError("background rotation never overlapped the replay: the build or the settle logic is off")
    run.traces += bg_cases
    run.extra.update({"background_rotation_histories": bg_cases, "ends_that_waited_for_a_rotation_thread": bg_waits})
    if not run.mismatches and run.nontrivial < 50:
        raise C.ToolError("vacuous run: %d behaviours with a rotation" % run.nontrivial)
    run.exhaustive = True
    run.rule = ("every complete behaviour (all record-size sequences, scripted trigger decisions, restarts, "
                "pre-existing contents) of the listed bounded Rolling.tla instances, replayed on the real "
                "RollingFileAppender with 3 materialisations (10-byte units + PatternEncoder; 400-byte units "
                "straddling the 1 KiB buffer + two-chunk encoder + count-0 window roller; gzip archives); after "
                "every operation every file is parsed back into record ids and compared with the specification's "
                "directory; non-trivial = a rotation happened; the unperturbed histories run a second time on a build "
                "with the background_rotation feature (directory compared at the end of each history, when the "
                "rotation threads have finished), after BackgroundRotation.tla has been model-checked (step-wise "
                "rotation threads, restarts inside one process, NoOrphan under weak fairness)")
    run.assumptions = ["long behaviours (400 / 1000 records with faults, crashes, restarts, obstacles and encoder failures) are sampled by TLC -simulate (40 / 400 per instance), not enumerated", "record sizes are multiples of the unit; time trigger represented by the scripted "
                       "pre-process trigger (its schedule is C16's subject)",
                       "replays are single-threaded; concurrent writers are covered by sampled schedules of 2-4 real threads whose traces (events under the appender mutex) are validated against Rolling.tla"]
    return run.finish()

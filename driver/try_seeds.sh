#!/bin/bash
# usage (through `vp run --with-repo`): driver/try_seeds.sh  - applies every seeded_try/<Cxx>.diff to the snapshot of /repo,
# runs that property's quick check, undoes the patch; prints one line per candidate
cd "$(dirname "$0")/.."
R=${VP_RUN_REPO:-/repo}
if [ "$R" != "/repo" ]; then sed -i "s|path = \"/repo\"|path = \"$R\"|" harness/Cargo.toml; export VERIF_REPO=$R; fi
(cd harness && cp -n $R/Cargo.lock Cargo.lock; cargo build --offline --quiet)
for f in seeded_try/*.diff; do
  c=$(basename $f .diff); p=${c%%_*}
  if git -C $R apply $PWD/$f; then
    out=$(./check $p --tier quick 2>&1 | grep -E "^(OK|VIOLATION|TOOL-ERROR)" | head -1)
    git -C $R checkout -- .
    echo "TRY $c: $out"
  else
    echo "TRY $c: PATCH DOES NOT APPLY"
  fi
done

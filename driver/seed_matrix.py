#!/usr/bin/env python3
"""For every seeded change under /verif/seeded/<id>/: apply it to /repo, run the quick check of the property
it breaks, undo it, and record in meta.json whether the check raised a VIOLATION. Usage:
  driver/seed_matrix.py [id ...]"""
import json
import os
import subprocess
import sys
import time

VERIF = os.path.dirname(os.path.dirname(os.path.abspath(__file__)))
SEEDED = os.path.join(VERIF, "seeded")
# under `vp run --with-repo` the patches go to the snapshot of /repo and the harness is built against it
REPO = os.environ.get("VP_RUN_REPO", "/repo")


def main():
    if REPO != "/repo":
        cargo = os.path.join(VERIF, "harness", "Cargo.toml")
        t = open(cargo).read().replace('path = "/repo"', 'path = "%s"' % REPO)
        open(cargo, "w").write(t)
        os.environ["VERIF_REPO"] = REPO
    ids = sys.argv[1:] or sorted(os.listdir(SEEDED))
    for sid in ids:
        d = os.path.join(SEEDED, sid)
        meta_p = os.path.join(d, "meta.json")
        meta = json.load(open(meta_p))
        prop = meta["property"]
        patch = os.path.join(d, "patch.diff")
        if subprocess.run(["git", "-C", REPO, "apply", patch]).returncode != 0:
            print(sid, "PATCH DOES NOT APPLY")
            continue
        t0 = time.time()
        try:
            p = subprocess.run([os.path.join(VERIF, "check"), prop, "--tier", "quick"], cwd=VERIF,
                               stdout=subprocess.PIPE, stderr=subprocess.PIPE, text=True)
        finally:
            subprocess.run(["git", "-C", REPO, "checkout", "--", "."])
        line = [l for l in p.stdout.splitlines() if l.startswith("VIOLATION")]
        first = ""
        for l in p.stderr.splitlines():
            if "violation(s); first:" in l:
                first = l[:600]
        meta["detection"] = {"where": "in place (/repo)" if REPO == "/repo" else "snapshot of /repo and of committed /verif (vp run)", "check": "./check %s --tier quick" % prop, "exit": p.returncode, "detected": bool(line) and p.returncode == 1,
                             "wall_s": round(time.time() - t0, 1), "first_violation": first,
                             "repo_head": subprocess.run(["git", "-C", REPO, "rev-parse", "--short", "HEAD"], stdout=subprocess.PIPE, text=True).stdout.strip()}
        json.dump(meta, open(meta_p, "w"), indent=1)
        print(sid, "detected" if meta["detection"]["detected"] else "MISSED (exit %s)" % p.returncode)
    # leave the evidence of the unchanged tree in place: re-run the checks that were touched
    subprocess.run(["git", "-C", REPO, "status", "--short"])


if __name__ == "__main__":
    main()

#!/bin/bash
# runs every thorough tier once and prints one line per check (used via `vp run`)
cd "$(dirname "$0")/.."
# when started with `vp run --with-repo`, build against the snapshot of /repo so that edits to /repo do not disturb the sweep
if [ -n "$VP_RUN_REPO" ]; then sed -i "s|path = \"/repo\"|path = \"$VP_RUN_REPO\"|" harness/Cargo.toml; fi
(cd harness && cp -n ${VP_RUN_REPO:-/repo}/Cargo.lock Cargo.lock; cargo build --offline --quiet)
for c in C03 C13 C07 C20 C18 C11 C10 C12 C15 C04 C02 C06 C17 C14 C16 C09 C01 C05 C08 C19; do
  /usr/bin/time -f "$c %es" ./check $c --tier thorough 2>&1 | grep -E "^OK|VIOLATION|TOOL-ERROR|^C[0-9]+ [0-9.]+s|KNOWN"
done

//! C15 (the reloader thread itself): records traces of `log4rs::init_file`'s refresh thread for validation
//! against Trace_Reloader.tla.  Every event is emitted from the reloader thread: "sleep" at the hook before
//! thread::sleep, "edit" when the script - inside that same hook call - rewrites the file, "apply" at the
//! set_config hook.  One scenario per child process (init_file installs the process-wide logger).
use crate::{fsutil::*, reloader::{text_rate, CaptureDeserializer}, util::*};
use log4rs::config::Deserializers;
use serde_json::{json, Value};
use std::{
    process::Command,
    sync::{atomic::AtomicUsize, Arc, Mutex},
    time::{Duration, Instant},
};

fn scripts() -> Vec<(Value, Vec<Value>)> {
    let v = |ver: i64, r: i64| json!({"k": "valid", "v": ver, "r": r});
    let b = |i: i64| json!({"k": "broken", "v": i, "r": 0});
    let gone = json!({"k": "absent", "v": 0, "r": 0});
    vec![
        (v(1, 10), vec![v(2, 30), v(3, 10), v(3, 10), b(1), v(4, 20), gone.clone(), v(5, 20), v(6, 0)]),
        (v(1, 30), vec![v(2, 10), b(2), v(3, 30), v(3, 30), v(4, 0)]),
        (v(1, 20), vec![v(1, 10), v(2, 10), v(3, 30), gone, v(3, 30), v(4, 20), v(5, 0)]),
    ]
}

struct St {
    sleeps: usize,
    next_edit: usize,
    applies: usize,
    last_event: Instant,
}

/// `reloadlive-child <trace_out> <scenario>`
pub fn child(args: &[String]) {
    let scen: usize = args[1].parse().unwrap();
    let fmt = scen % 3;
    let (init, script) = scripts()[scen % scripts().len()].clone();
    let scratch = Scratch::new("live");
    let path = scratch.path().join(["log4rs.yaml", "log4rs.json", "log4rs.toml"][fmt]);
    // every second round of scenarios the configured path is a symbolic link and an edit re-points it at a new
    // file (how mounted configuration volumes are updated): what counts is the file *at the configured path*
    let linked = (scen / 3) % 2 == 1;
    let ext = ["yaml", "json", "toml"][fmt];
    // modification times are set explicitly (version k: base + 10 k seconds): two writes within one tick of the
    // filesystem clock would otherwise carry the same time, which the reloader's mtime shortcut cannot see by design
    // (in every fourth scenario the stamps are the moment of the edit itself - distinct, increasing, and only
    // milliseconds old when the next poll looks: how old a change is plays no part, Reloader.tla has mtimes, no ages)
    let young = scen % 4 == 2;
    let stamp = move |p: &std::path::Path, k: usize| {
        let f = std::fs::OpenOptions::new().write(true).open(p).unwrap();
        if young {
            f.set_modified(std::time::SystemTime::now()).unwrap();
        } else {
            f.set_modified(std::time::SystemTime::UNIX_EPOCH + Duration::from_secs(1_700_000_000 + 10 * k as u64)).unwrap();
        }
    };
    let write_version = move |dir: &std::path::Path, path: &std::path::Path, k: usize, text: Option<String>| {
        if !linked {
            match text {
                Some(t) => {
                    std::fs::write(path, t).unwrap();
                    stamp(path, k);
                }
                None => {
                    let _ = std::fs::remove_file(path);
                }
            }
            return;
        }
        match text {
            Some(t) => {
                let target = dir.join(format!("version{}.{}", k, ext));
                std::fs::write(&target, t).unwrap();
                stamp(&target, k);
                let tmp = dir.join("link.tmp");
                let _ = std::fs::remove_file(&tmp);
                std::os::unix::fs::symlink(&target, &tmp).unwrap();
                std::fs::rename(&tmp, path).unwrap();
            }
            None => {
                let _ = std::fs::remove_file(path);
            }
        }
    };
    write_version(scratch.path(), &path, 0, text_rate(&init, fmt, true));
    let events: Arc<Mutex<Vec<Value>>> = Arc::new(Mutex::new(vec![json!({"e": "reset", "v": init["v"], "r": init["r"], "scenario": scen})]));
    let st = Arc::new(Mutex::new(St { sleeps: 0, next_edit: 0, applies: 0, last_event: Instant::now() }));
    let (ev, st2, p2, sc2) = (events.clone(), st.clone(), path.clone(), script.clone());
    let dir2 = scratch.path().to_path_buf();
    log4rs::verif::set_global_callback(Some(Arc::new(move |name: &str, arg: u64| {
        match name {
            "reloader.sleep" => {
                let mut s = st2.lock().unwrap();
                s.sleeps += 1;
                s.last_event = Instant::now();
                let mut e = ev.lock().unwrap();
                e.push(json!({"e": "sleep", "ms": arg}));
                // every second sleep the script's next edit happens - here, on the reloader thread, so that the
                // order of events is the order of the trace
                if s.sleeps % 2 == 1 && s.next_edit < sc2.len() {
                    let c = &sc2[s.next_edit];
                    write_version(&dir2, &p2, s.next_edit + 1, text_rate(c, fmt, true));
                    e.push(json!({"e": "edit", "k": c["k"], "v": c["v"], "r": c["r"], "m": 3 + s.next_edit}));
                    s.next_edit += 1;
                }
            }
            "set_config.stored" => {
                let mut s = st2.lock().unwrap();
                s.applies += 1;
                s.last_event = Instant::now();
                // (the process-wide maximum level as it is once the new configuration is in place)
                ev.lock().unwrap().push(json!({"e": "apply", "max": filter_num(log::max_level())}));
            }
            _ => {}
        }
        Ok(())
    })));
    let mut d = Deserializers::default();
    d.insert("capture", CaptureDeserializer { sink: Arc::new(Mutex::new(vec![])), built: Arc::new(AtomicUsize::new(0)), slow_v3: Duration::from_millis(45) });
    let mut problems = vec![];
    if let Err(e) = log4rs::init_file(&path, d) {
        problems.push(json!({"what": "init_file failed", "error": e.to_string()}));
    }
    // the script ends with a file without refresh_rate: the thread applies it and stops; wait for silence
    let t0 = Instant::now();
    loop {
        std::thread::sleep(Duration::from_millis(20));
        let s = st.lock().unwrap();
        if s.next_edit == script.len() && s.last_event.elapsed() > Duration::from_millis(400) {
            break;
        }
        if t0.elapsed() > Duration::from_secs(30) {
            problems.push(json!({"what": "the reloader thread did not get through the script within 30 s", "edits_done": s.next_edit, "sleeps": s.sleeps}));
            break;
        }
    }
    log4rs::verif::set_global_callback(None);
    let mut ev = events.lock().unwrap().clone();
    for p in problems {
        ev.push(json!({"e": "problem", "detail": p}));
    }
    write_ndjson(&args[0], &ev);
}

/// `reloadlive <trace_out.ndjson> <scenarios>`: one child per scenario, traces concatenated
pub fn main(args: &[String]) {
    let n: usize = args[1].parse().unwrap();
    let exe = std::env::current_exe().unwrap();
    let scratch = Scratch::new("livetr");
    let mut all = vec![];
    let mut problems = vec![];
    for k in 0..n {
        let out = scratch.path().join(format!("t{}.ndjson", k));
        // every other child runs with a standard error stream nobody reads any more (a pipe whose reader has gone
        // away): reporting a broken file there fails, which is no reason for the refresh thread to stop (Reloader.tla:
        // a failed poll is followed by the next one)
        let st = if k % 2 == 1 {
            Command::new(&exe).arg("reloadlive-child").arg(&out).arg(k.to_string()).stderr(std::process::Stdio::piped()).spawn().and_then(|mut c| {
                drop(c.stderr.take());
                c.wait()
            })
        } else {
            Command::new(&exe).arg("reloadlive-child").arg(&out).arg(k.to_string()).status()
        };
        match st {
            Ok(s) if s.success() => {}
            other => problems.push(json!({"what": "child failed", "scenario": k, "status": format!("{:?}", other)})),
        }
        for e in read_ndjson(&out.to_string_lossy()) {
            if e["e"] == "problem" {
                problems.push(json!({"what": e["detail"]["what"], "scenario": k, "detail": e["detail"]}));
            } else {
                all.push(e);
            }
        }
    }
    write_ndjson(&args[0], &all);
    println!("{}", json!({"scenarios": n, "events": all.len(), "sleeps": all.iter().filter(|e| e["e"] == "sleep").count(),
                          "applies": all.iter().filter(|e| e["e"] == "apply").count(), "problems": problems}));
}

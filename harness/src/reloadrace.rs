//! C15 growth (ReloaderLive.tla): behaviours in which the editor of the configuration file acts BETWEEN the two
//! looks that `init_file` and `run_once` take at it (modification time, text).  One behaviour per child process
//! (`init_file` installs the process-wide logger); everything after `init_file` happens on the real refresh thread,
//! which the script drives from the guarded sync points:
//!   "init_file.looked"  (between the two looks of init_file)   the boot step's `mid` edits
//!   "reloader.sleep"    (before the sleep of poll k)           poll k-1 is over: what is active, at which rate, how
//!                                                              often the logger was swapped; then the edits before poll k
//!   "reloader.stat"     (between stat and read of poll k)      poll k's `mid` edits
use crate::{fsutil::*, reloader::{text_rate, CaptureConfig, CaptureDeserializer}, util::*};
use log4rs::config::{Deserialize, Deserializers};
use serde_json::{json, Value};
use std::{
    process::Command,
    sync::{atomic::AtomicUsize, Arc, Condvar, Mutex},
    time::{Duration, Instant},
};

/// one unit of the model's rate is this many milliseconds of the real thread's sleep
const UNIT_MS: i64 = 4;

struct St {
    /// index of the next op to look at
    pos: usize,
    /// index of the step (an op index: 1 = the boot step) that the refresh thread has under way or just finished
    cur: usize,
    swaps_seen: i64,
    last_instance: usize,
    problem: Option<Value>,
    done: bool,
    sleeps: usize,
    /// quiet polls still to come after the script (behaviours with an edit between two looks)
    extra_left: usize,
}

/// Is the refresh thread still there?  The child process has no other thread than the one that called init_file, so
/// it is enough to count (a thread gives itself its name only once it runs: the name is no reliable sign at once
/// after the spawn).
fn refresh_thread_alive() -> bool {
    std::fs::read_dir("/proc/self/task").map(|d| d.filter_map(|e| e.ok()).count() > 1).unwrap_or(true)
}

/// The `capture` kind of the documents, with something to do when the first appender is built - that is inside
/// init_file, after its two looks at the file and before the logger is installed and the refresh thread started.
struct Building {
    inner: CaptureDeserializer,
    first: Mutex<Option<Box<dyn FnOnce() + Send>>>,
}
impl Deserialize for Building {
    type Trait = dyn log4rs::append::Append;
    type Config = CaptureConfig;
    fn deserialize(&self, config: CaptureConfig, d: &Deserializers) -> anyhow::Result<Box<dyn log4rs::append::Append>> {
        if let Some(f) = self.first.lock().unwrap().take() {
            f();
        }
        self.inner.deserialize(config, d)
    }
}

fn write_content(path: &std::path::Path, c: &Value, m: i64, fmt: usize) {
    let mut scaled = c.clone();
    scaled["r"] = json!(c["r"].as_i64().unwrap_or(0) * UNIT_MS);
    match c["k"].as_str().unwrap() {
        "absent" => {
            let _ = std::fs::remove_file(path);
            return;
        }
        // the name is there, its text is not text
        "unread" => std::fs::write(path, [0xffu8, 0xfe, b'r', b'o', b'o', b't', 0xc3, 0x28]).unwrap(),
        _ => std::fs::write(path, text_rate(&scaled, fmt, true).unwrap()).unwrap(),
    }
    let f = std::fs::OpenOptions::new().write(true).open(path).unwrap();
    f.set_modified(std::time::SystemTime::UNIX_EPOCH + Duration::from_secs(1_700_000_000 + 10 * m as u64)).unwrap();
}

/// `reloadrace-child <case.json> <out.json> <index>`
///
/// What is compared.  A step (the boot step or a poll) whose `mid` is empty took both its looks at one and the same
/// file: its outcome is the specification's, exactly (result class through the next sleep's length, active
/// configuration, number of swaps).  A step WITH an edit between its looks may, as far as property C15 goes, have seen
/// the file before or after that edit: from the first such step on nothing is compared step by step; instead the
/// thread is given two more polls without any edit and the settled state is compared with what the file then holds
/// (ReloaderLive.tla, Converges / BadKeeps): a valid text with a rate is active at that rate; a valid text without a
/// rate is active and the thread gone; a bad file leaves some earlier valid text of the file active and the thread
/// alive - unless the thread ended on a text without a rate that was in the file at some time.
pub fn child(args: &[String]) {
    let case: Value = serde_json::from_str(&std::fs::read_to_string(&args[0]).unwrap()).unwrap();
    let idx: usize = args[2].parse().unwrap();
    let fmt = mix(idx) % 3;
    let ops: Arc<Vec<Value>> = Arc::new(case["ops"].as_array().unwrap().clone());
    let scratch = Scratch::new("race");
    let path = scratch.path().join(["log4rs.yaml", "log4rs.json", "log4rs.toml"][fmt]);
    write_content(&path, &ops[0]["c"], 2, fmt);
    let sink: Arc<Mutex<Vec<(String, usize)>>> = Arc::new(Mutex::new(vec![]));
    let probe = {
        let sink = sink.clone();
        move || -> Option<(String, usize)> {
            sink.lock().unwrap().clear();
            log::logger().log(&log::Record::builder().level(log::Level::Error).target("probe").args(format_args!("p")).build());
            let s = sink.lock().unwrap();
            if s.len() == 1 { Some(s[0].clone()) } else { None }
        }
    };
    let has_mid = |o: &Value| o["mid"].as_array().map(|m| !m.is_empty()).unwrap_or(false);
    // the first step with an edit between its looks
    let racy_from: Option<usize> = (1..ops.len()).find(|&i| has_mid(&ops[i]));
    // every content the file ever holds, in order (the last one is what it holds in the end)
    let mut contents: Vec<Value> = vec![ops[0]["c"].clone()];
    for o in ops.iter().skip(1) {
        if o["op"] == "edit" {
            contents.push(o["c"].clone());
        } else {
            for e in o["mid"].as_array().unwrap() {
                contents.push(e["c"].clone());
            }
        }
    }
    // in every other behaviour the edits that precede the first poll are made while init_file is still building the
    // first configuration (after its looks at the file): ReloaderLive.tla makes no difference between the two
    let mut first_pos = 2;
    let mut early: Vec<Value> = vec![];
    if mix(idx / 3) % 2 == 1 && ops[1]["ret"] == "started" {
        while first_pos < ops.len() && ops[first_pos]["op"] == "edit" {
            early.push(ops[first_pos].clone());
            first_pos += 1;
        }
    }
    let st = Arc::new((Mutex::new(St { pos: first_pos, cur: 1, swaps_seen: 0, last_instance: 0, problem: None, done: false, sleeps: 0,
                                       extra_left: if racy_from.is_some() { 2 } else { 0 } }), Condvar::new()));
    let boot = ops[1].clone();
    let (st2, ops2, p2, probe2) = (st.clone(), ops.clone(), path.clone(), probe.clone());
    let final_content = contents.last().unwrap().clone();
    let contents2 = contents.clone();
    log4rs::verif::set_global_callback(Some(Arc::new(move |name: &str, arg: u64| {
        match name {
            "init_file.looked" => {
                for e in ops2[1]["mid"].as_array().unwrap() {
                    write_content(&p2, &e["c"], e["m"].as_i64().unwrap(), fmt);
                }
            }
            "reloader.stat" => {
                let cur = st2.0.lock().unwrap().cur;
                if cur > 1 && cur < ops2.len() {
                    for e in ops2[cur]["mid"].as_array().unwrap() {
                        write_content(&p2, &e["c"], e["m"].as_i64().unwrap(), fmt);
                    }
                }
            }
            "reloader.sleep" => {
                let mut s = st2.0.lock().unwrap();
                s.sleeps += 1;
                let exact = racy_from.map(|r| s.cur < r).unwrap_or(true);
                if s.problem.is_none() && exact && s.cur < ops2.len() {
                    // the step before this sleep took its looks at one file: compare
                    let expect = ops2[s.cur].clone();
                    if expect["ret"] == "stop" || expect["ret"] == "norate" || expect["ret"] == "fail" {
                        s.problem = Some(json!({"what": "the refresh thread goes on although the file has no refresh rate", "after": expect}));
                    } else if arg as i64 != expect["rate"].as_i64().unwrap() * UNIT_MS {
                        s.problem = Some(json!({"what": "refresh rate in force", "after": expect, "expected_ms": expect["rate"].as_i64().unwrap() * UNIT_MS, "actual_ms": arg}));
                    } else {
                        match probe2() {
                            Some((tag, inst)) => {
                                if s.cur > 1 && inst != s.last_instance {
                                    s.swaps_seen += 1;
                                }
                                s.last_instance = inst;
                                if tag != format!("v{}", expect["active"]) {
                                    s.problem = Some(json!({"what": "active configuration", "after": expect, "expected": format!("v{}", expect["active"]), "actual": tag}));
                                } else if s.cur > 1 && s.swaps_seen != expect["swaps"].as_i64().unwrap() {
                                    s.problem = Some(json!({"what": "logger swapped although / not swapped when the specification says", "after": expect,
                                                            "expected_swaps": expect["swaps"], "actual_swaps": s.swaps_seen}));
                                }
                            }
                            None => s.problem = Some(json!({"what": "probe record not delivered exactly once", "after": expect})),
                        }
                    }
                }
                // the edits before the next poll
                while s.pos < ops2.len() && ops2[s.pos]["op"] == "edit" {
                    write_content(&p2, &ops2[s.pos]["c"], ops2[s.pos]["m"].as_i64().unwrap(), fmt);
                    s.pos += 1;
                }
                if s.problem.is_none() && s.pos >= ops2.len() && s.extra_left > 0 {
                    // the script is over; polls without edits follow
                    s.extra_left -= 1;
                    s.cur = ops2.len();
                    return Ok(());
                }
                if s.problem.is_none() && s.pos >= ops2.len() && racy_from.is_some() {
                    // settled, and the thread lives: what does the file hold?
                    let f = &final_content;
                    let got = probe2();
                    let tag = got.as_ref().map(|g| g.0.clone()).unwrap_or_default();
                    if got.is_none() {
                        s.problem = Some(json!({"what": "probe record not delivered exactly once", "after": "settling"}));
                    } else if f["k"] == "valid" && f["r"].as_i64().unwrap() == 0 {
                        s.problem = Some(json!({"what": "the refresh thread goes on although the file has no refresh rate", "file": f, "after": "two polls without an edit"}));
                    } else if f["k"] == "valid" {
                        if tag != format!("v{}", f["v"]) {
                            s.problem = Some(json!({"what": "a changed file is never applied", "file": f, "active": tag, "after": "two polls without an edit"}));
                        } else if arg as i64 != f["r"].as_i64().unwrap() * UNIT_MS {
                            s.problem = Some(json!({"what": "refresh rate in force", "file": f, "expected_ms": f["r"].as_i64().unwrap() * UNIT_MS, "actual_ms": arg,
                                                    "after": "two polls without an edit"}));
                        }
                    } else if !contents2.iter().any(|c| c["k"] == "valid" && tag == format!("v{}", c["v"])) {
                        s.problem = Some(json!({"what": "active configuration", "file": f, "active": tag, "expected": "a valid text the file held"}));
                    }
                }
                if s.problem.is_some() || s.pos >= ops2.len() {
                    // over: the thread stays here
                    s.done = true;
                    st2.1.notify_all();
                    drop(s);
                    loop {
                        std::thread::sleep(Duration::from_secs(3600));
                    }
                }
                s.cur = s.pos;
                s.pos += 1;
            }
            _ => {}
        }
        Ok(())
    })));
    let mut d = Deserializers::default();
    let p3 = path.clone();
    let first: Box<dyn FnOnce() + Send> = Box::new(move || {
        for e in &early {
            write_content(&p3, &e["c"], e["m"].as_i64().unwrap(), fmt);
        }
    });
    d.insert("capture", Building { inner: CaptureDeserializer { sink: sink.clone(), built: Arc::new(AtomicUsize::new(0)), slow_v3: Duration::ZERO },
                                   first: Mutex::new(Some(first)) });
    let r = catch(|| log4rs::init_file(&path, d));
    let mut problem: Option<Value> = None;
    let boot_exact = racy_from != Some(1);
    let want = boot["ret"].as_str().unwrap();
    let started_ok = matches!(&r, Ok(Ok(())));
    match &r {
        Err(p) => problem = Some(json!({"what": "init_file panicked", "panic": p})),
        Ok(res) if boot_exact => match (res, want) {
            (Err(_), "fail") => {}
            (Err(e), _) => problem = Some(json!({"what": "init_file result", "expected": want, "actual": format!("error: {}", e)})),
            (Ok(()), "fail") => problem = Some(json!({"what": "init_file result", "expected": "an error", "actual": "ok"})),
            (Ok(()), _) => {}
        },
        // (with an edit between its looks init_file may have seen a file it refuses, or one it accepts)
        Ok(_) => {}
    }
    if problem.is_none() && started_ok {
        // wait until the script is over (the thread parks itself in the hook) or the thread is gone
        let t0 = Instant::now();
        let mut s = st.0.lock().unwrap();
        let mut gone = false;
        loop {
            if s.done || s.problem.is_some() {
                break;
            }
            if !refresh_thread_alive() {
                gone = true;
                break;
            }
            if t0.elapsed() > Duration::from_secs(20) {
                problem = Some(json!({"what": "the refresh thread did not get through the script within 20 s", "pos": s.pos, "sleeps": s.sleeps}));
                break;
            }
            let (g, _) = st.1.wait_timeout(s, Duration::from_millis(5)).unwrap();
            s = g;
        }
        if problem.is_none() {
            problem = s.problem.take();
        }
        let (swaps_seen, last_instance, sleeps, cur) = (s.swaps_seen, s.last_instance, s.sleeps, s.cur);
        drop(s);
        if problem.is_none() && gone {
            // the thread is gone (or never was): look from here
            let got = probe();
            let tag = got.as_ref().map(|g| g.0.clone()).unwrap_or_default();
            let exact = racy_from.map(|r| cur < r).unwrap_or(true);
            if got.is_none() {
                problem = Some(json!({"what": "probe record not delivered exactly once", "after": "the thread's end"}));
            } else if exact {
                // the step under way when the thread ended must be the one that takes the rate away - and the last one
                let expect = &ops[cur.min(ops.len() - 1)];
                if !(expect["ret"] == "stop" || expect["ret"] == "norate") || cur != ops.len() - 1 {
                    problem = Some(json!({"what": "the refresh thread ended", "during": expect, "step": cur, "sleeps": sleeps}));
                } else if tag != format!("v{}", expect["active"]) {
                    problem = Some(json!({"what": "active configuration", "after": expect, "expected": format!("v{}", expect["active"]), "actual": tag}));
                } else if expect["op"] == "poll" {
                    let swaps = swaps_seen + if got.as_ref().unwrap().1 != last_instance { 1 } else { 0 };
                    if swaps != expect["swaps"].as_i64().unwrap() {
                        problem = Some(json!({"what": "logger swapped although / not swapped when the specification says", "after": expect,
                                              "expected_swaps": expect["swaps"], "actual_swaps": swaps}));
                    }
                }
            } else if !contents.iter().any(|c| c["k"] == "valid" && c["r"].as_i64().unwrap() == 0 && tag == format!("v{}", c["v"])) {
                // ended somewhere after an edit between two looks: only a text without a rate ends the thread
                problem = Some(json!({"what": "the refresh thread ended", "active": tag, "expected": "a text without a refresh rate that the file held"}));
            }
        }
    }
    log4rs::verif::set_global_callback(None);
    std::fs::write(&args[1], serde_json::to_string(&json!({"problem": problem})).unwrap()).unwrap();
    // (the refresh thread may be parked inside the hook: leave without joining anything)
    std::process::exit(0);
}

/// `reloadrace <cases.ndjson> <out.ndjson>`: one child per behaviour
pub fn main(args: &[String]) {
    quiet_panics();
    let rows = read_ndjson(&args[0]);
    let exe = std::env::current_exe().unwrap();
    let scratch = Scratch::new("racetr");
    let res = par_map(&rows, threads(), |i, c| {
        let inp = scratch.path().join(format!("c{}.json", i));
        let out = scratch.path().join(format!("o{}.json", i));
        std::fs::write(&inp, serde_json::to_string(c).unwrap()).unwrap();
        let st = Command::new(&exe).arg("reloadrace-child").arg(&inp).arg(&out).arg(i.to_string()).stderr(std::process::Stdio::null()).status();
        let fname = ["yaml", "json", "toml"][mix(i) % 3];
        let r: Vec<Value> = match st {
            Ok(s) if s.success() => {
                let v: Value = serde_json::from_str(&std::fs::read_to_string(&out).unwrap_or_default()).unwrap_or(Value::Null);
                if v["problem"].is_null() { vec![] } else { vec![json!({"case": i, "format": fname, "ops": c["ops"], "mismatch": v["problem"]})] }
            }
            other => vec![json!({"case": i, "format": fname, "ops": c["ops"], "mismatch": {"what": "child failed", "status": format!("{:?}", other)}})],
        };
        let _ = std::fs::remove_file(&inp);
        let _ = std::fs::remove_file(&out);
        r
    });
    write_ndjson(&args[1], &res);
    println!("{}", json!({"cases": rows.len(), "mismatches": res.len()}));
}

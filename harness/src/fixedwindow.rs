//! C07: replay of FixedWindow.tla behaviours through Roll::roll on real directories.
use crate::{fsutil::*, util::*};
use log4rs::append::rolling_file::policy::compound::roll::{delete::DeleteRoller, fixed_window::FixedWindowRoller, Roll};
use serde_json::{json, Value};
use std::{collections::BTreeMap, fs, path::Path};

/// content id -> bytes; sizes and alphabets vary with the id
fn content(id: i64) -> Vec<u8> {
    if id.rem_euclid(7) == 2 {
        // 150 KB that do not compress: exercises the compressing rollers beyond their internal buffers
        let mut r = crate::rng::Rng::new(id as u64 + 99);
        return (0..150_000).map(|_| r.next() as u8).collect();
    }
    match id.rem_euclid(5) {
        0 => format!("content-{}\n", id).into_bytes(),
        1 => vec![],
        2 => format!("c{}:{}\n", id, "x".repeat(5000)).into_bytes(),
        3 => format!("c{} \u{e9}\u{4e16}\u{1F600} multi-byte\n", id).into_bytes(),
        _ => format!("c{}\nsecond line\n", id).into_bytes(),
    }
}

struct Template {
    name: &'static str,
    pattern: String,       // handed to the roller (may contain $ENV{..})
    expanded: String,      // the same with the environment reference resolved
    gz: bool,
}

fn templates(d: &str) -> Vec<Template> {
    vec![
        Template { name: "file-name", pattern: format!("{}/arch.{{}}.log", d), expanded: format!("{}/arch.{{}}.log", d), gz: false },
        Template { name: "dir-component", pattern: format!("{}/sub{{}}/arch.log", d), expanded: format!("{}/sub{{}}/arch.log", d), gz: false },
        Template { name: "repeated", pattern: format!("{}/x{{}}/arch.{{}}.log", d), expanded: format!("{}/x{{}}/arch.{{}}.log", d), gz: false },
        // the value of the variable contains the index placeholder itself: it is text, not a placeholder
        Template { name: "env", pattern: "$ENV{LV_FW_DIR}/env.{}.log".to_string(), expanded: format!("{}/e{{}}x/env.{{}}.log", d), gz: false },
        // the index completes the name of a variable (the placeholder is substituted first)
        Template { name: "env-indexed", pattern: format!("{}/$ENV{{LV_FW_SLOT_{{}}}}.log", d), expanded: format!("{}/slot-{{}}-name.log", d), gz: false },
        // the rolled file lives on another filesystem than the archives (rename fails, copy and delete)
        Template { name: "cross-mount", pattern: format!("{}/xm.{{}}.log", d), expanded: format!("{}/xm.{{}}.log", d), gz: false },
        // the reference sits in the last component of the pattern and its value brings directories along
        Template { name: "env-tail", pattern: format!("{}/$ENV{{LV_FW_TAIL}}.{{}}.log", d), expanded: format!("{}/t/ail/arch.{{}}.log", d), gz: false },
        Template { name: "gzip", pattern: format!("{}/gz.{{}}.log.gz", d), expanded: format!("{}/gz.{{}}.log.gz", d), gz: true },
    ]
}

fn entries(v: &Value, lo: i64) -> Vec<(i64, i64)> {
    if let Some(a) = v.as_array() {
        a.iter().enumerate().map(|(i, x)| (lo + i as i64, x.as_i64().unwrap())).collect()
    } else {
        let mut e: Vec<(i64, i64)> = v.as_object().unwrap().iter().map(|(k, x)| (k.parse().unwrap(), x.as_i64().unwrap())).collect();
        e.sort();
        e
    }
}

fn check_template(case: &Value, t: &Template, root: &Path, offset: i64) -> Option<Value> {
    let lo = case["lo"].as_i64().unwrap();
    let base = (case["base"].as_i64().unwrap() + offset) as u32;
    let count = case["count"].as_u64().unwrap() as u32;
    // the model is translation invariant in the index: `offset` moves the whole window (e.g. to the top of u32)
    // (in the "env" template the first {} of `expanded` is literal text that came out of a variable)
    let name_of = |i: i64| {
        let idx = (i + offset).to_string();
        if t.name == "env" {
            let (head, tail) = t.expanded.split_at(t.expanded.find("{}").unwrap() + 2);
            format!("{}{}", head, tail.replace("{}", &idx))
        } else {
            t.expanded.replace("{}", &idx)
        }
    };
    let rel = |p: &str| Path::new(p).strip_prefix(root).unwrap().to_string_lossy().to_string();
    // initial directory
    for (i, c) in entries(&case["init"], lo) {
        if c != 0 {
            let p = name_of(i);
            fs::create_dir_all(Path::new(&p).parent().unwrap()).unwrap();
            let bytes = if t.gz { gzip(&content(c)) } else { content(c) };
            fs::write(&p, bytes).unwrap();
        }
    }
    let mut bystanders: BTreeMap<String, Vec<u8>> = BTreeMap::new();
    for (n, b) in [("bystander.txt", "bystander"), ("arch.log", "no index"), ("arch.999.log", "far index"), ("arch.x.log", "not a number")] {
        fs::write(root.join(n), b).unwrap();
        bystanders.insert(n.to_string(), b.as_bytes().to_vec());
    }
    // ... and neighbours of the archive names that no index produces: the newest archive's name with ".tmp" / "~" / ".1"
    // behind it (FixedWindow.tla: a roll touches the names base .. base+count of the pattern and nothing else)
    for suffix in [".tmp", "~", ".part"] {
        let p = format!("{}{}", name_of(base as i64 - offset), suffix);
        fs::create_dir_all(Path::new(&p).parent().unwrap()).unwrap();
        fs::write(&p, suffix).unwrap();
        bystanders.insert(rel(&p), suffix.as_bytes().to_vec());
    }
    let make_roller = || -> Result<Box<dyn Roll>, Value> { Ok(if t.name == "env" || (case["kind"] == "delete" && base % 2 == 1) {
        // built from a configuration value; `base` is left out where it is the default 0
        let doc = if case["kind"] == "delete" {
            json!({})
        } else if base == 0 {
            json!({"pattern": t.pattern, "count": count})
        } else {
            json!({"pattern": t.pattern, "count": count, "base": base})
        };
        let v: serde_value::Value = serde_json::from_value(doc).unwrap();
        let kind = if case["kind"] == "delete" { "delete" } else { "fixed_window" };
        match log4rs::config::Deserializers::default().deserialize::<dyn Roll>(kind, v) {
            Ok(r) => r,
            Err(e) => return Err(json!({"what": "roller from configuration failed", "error": e.to_string()})),
        }
    } else if case["kind"] == "delete" {
        Box::new(DeleteRoller::new())
    } else {
        match FixedWindowRoller::builder().base(base).build(&t.pattern, count) {
            Ok(r) => Box::new(r),
            Err(e) => return Err(json!({"what": "roller build failed", "error": e.to_string()})),
        }
    }) };
    // a roller keeps nothing between rolls (FixedWindow.tla has no roller state): which instance performs a roll plays
    // no part - a second instance for the same pattern (what a reconfiguration leaves behind) takes every third roll
    let (roller, roller2) = match (make_roller(), make_roller()) {
        (Ok(a), Ok(b)) => (a, b),
        (Err(e), _) | (_, Err(e)) => return Some(e),
    };
    let other = if t.name == "cross-mount" { Scratch::other_mount("fw") } else { None };
    if t.name == "cross-mount" && other.is_none() {
        return None; // no second filesystem on this machine
    }
    let active = other.as_ref().map(|o| o.path().join("active.log")).unwrap_or_else(|| root.join("active.log"));
    for (k, roll) in case["rolls"].as_array().unwrap().iter().enumerate() {
        if roll["wipe"].as_bool().unwrap_or(false) {
            // FixedWindow.tla, Wipe: the directory of the archives goes away with everything in it; where the rolled
            // file lives in it too, that much is put back (empty) for the next file to be written
            let _ = fs::remove_dir_all(root);
            bystanders.clear();
            if other.is_none() {
                fs::create_dir_all(root).unwrap();
            }
            continue;
        }
        let c = roll["content"].as_i64().unwrap();
        fs::write(&active, content(c)).unwrap();
        match catch(|| if k % 3 == 1 { roller2.roll(&active) } else { roller.roll(&active) }) {
            Ok(Ok(())) => {}
            Ok(Err(e)) => return Some(json!({"what": "roll returned an error", "roll": k + 1, "error": e.to_string()})),
            Err(p) => return Some(json!({"what": "roll panicked", "roll": k + 1, "error": p})),
        }
        if active.exists() {
            return Some(json!({"what": "the rolled file still exists at its original path", "roll": k + 1}));
        }
        let mut want = bystanders.clone();
        for (i, c) in entries(&roll["after"], lo) {
            if c != 0 {
                want.insert(rel(&name_of(i)), content(c));
            }
        }
        let got = snapshot(root, true, false);
        if got != want {
            let mut diff = vec![];
            for k in want.keys().chain(got.keys()).collect::<std::collections::BTreeSet<_>>() {
                if want.get(k) != got.get(k) {
                    diff.push(json!({"file": k, "expected": want.get(k).map(|b| show(b)), "actual": got.get(k).map(|b| show(b))}));
                }
            }
            return Some(json!({"what": "directory after roll", "roll": k + 1, "diff": diff}));
        }
    }
    None
}

/// `fixedwindow <cases.ndjson> <out.ndjson>` (single-threaded: one template uses the environment)
pub fn main(args: &[String]) {
    quiet_panics();
    let rows = read_ndjson(&args[0]);
    let mut res = vec![];
    let mut runs = 0;
    for (ci, case) in rows.iter().enumerate() {
        for ti in 0..8 {
            let s = Scratch::new("fw");
            let d = s.path().to_string_lossy().to_string();
            std::env::set_var("LV_FW_DIR", format!("{}/e{{}}x", d));
            std::env::set_var("LV_FW_TAIL", "t/ail/arch");
            let (lo, cnt) = (case["lo"].as_i64().unwrap(), case["count"].as_i64().unwrap() + case["base"].as_i64().unwrap());
            for i in (lo - 2).max(0)..=(cnt + 3) {
                std::env::set_var(format!("LV_FW_SLOT_{}", i), format!("slot-{}-name", i));
            }
            let ts = templates(&d);
            let t = &ts[ti];
            if case["kind"] == "delete" && ti > 0 {
                continue;
            }
            runs += 1;
            // the first template is also run with the window ending exactly at u32::MAX
            let top = ti == 0 && case["kind"] == "window" && case["count"].as_i64().unwrap() >= 1 && case["base"].as_i64().unwrap() >= 1;
            // ... the second and third templates with the window straddling 2^16 and 2^8 (the model is translation
            // invariant in the index)
            let window = case["kind"] == "window" && case["count"].as_i64().unwrap() >= 1;
            let offset = if top {
                u32::MAX as i64 - (case["base"].as_i64().unwrap() + case["count"].as_i64().unwrap() - 1)
            } else if window && ti == 1 {
                65535 - case["base"].as_i64().unwrap()
            } else if window && ti == 2 {
                255 - case["base"].as_i64().unwrap()
            } else {
                0
            };
            if let Some(m) = check_template(case, t, s.path(), offset) {
                res.push(json!({"case": ci, "template": t.name, "index_offset": offset, "pattern": t.pattern.replace(&d, "<dir>"),
                    "input": {"base": case["base"], "count": case["count"], "kind": case["kind"], "init": case["init"]},
                    "mismatch": m}));
            }
        }
    }
    res.extend(check_cwd());
    write_ndjson(&args[1], &res);
    println!("{}", json!({"cases": rows.len(), "runs": runs, "mismatches": res.len()}));
}

/// `fixedwindow-cwd-child <dir_a> <dir_b> <variant>`: the working directory is process state, hence a process of its own.
/// A pattern that is a relative path denotes names below the working directory of the moment of the roll (that is
/// what a relative path means to every file system call; FixedWindow.tla's names are whatever the pattern denotes
/// then).  The roller is built in A, the process moves to B - a daemon does after reading its configuration - and rolls
/// three times there: the window is in B and A holds nothing.
pub fn cwd_child(args: &[String]) {
    let (a, b) = (Path::new(&args[0]), Path::new(&args[1]));
    let variant: usize = args[2].parse().unwrap();
    std::env::set_current_dir(a).unwrap();
    std::env::set_var("LV_CWD_LEAF", "app");
    let pattern = ["archive/app.{}.log", "app.{}.log", "./deep/er/$ENV{LV_CWD_LEAF}.{}.log"][variant % 3];
    let built = catch(|| FixedWindowRoller::builder().base(1).build(pattern, 2));
    let roller = match built {
        Ok(Ok(r)) => r,
        other => {
            println!("{}", json!({"problem": {"what": "build", "result": format!("{:?}", other.map(|r| r.map(|_| ()).map_err(|e| e.to_string())))}}));
            return;
        }
    };
    std::env::set_current_dir(b).unwrap();
    for k in 1..=3 {
        // (the active file is named relatively in two of three variants, absolutely in the third)
        let active = if variant % 2 == 0 { Path::new("active.log").to_path_buf() } else { b.join("active.log") };
        fs::write(&active, format!("r{}", k)).unwrap();
        match catch(|| roller.roll(&active)) {
            Ok(Ok(())) => {}
            other => {
                println!("{}", json!({"problem": {"what": "roll", "k": k, "result": format!("{:?}", other.map(|r| r.map_err(|e| e.to_string())))}}));
                return;
            }
        }
    }
    let text = |m: BTreeMap<String, Vec<u8>>| -> BTreeMap<String, String> { m.into_iter().map(|(k, v)| (k, String::from_utf8_lossy(&v).to_string())).collect() };
    let (in_a, in_b) = (text(snapshot(a, false, false)), text(snapshot(b, false, false)));
    let names = |i: usize| pattern.trim_start_matches("./").replace("$ENV{LV_CWD_LEAF}", "app").replace("{}", &i.to_string());
    let want_b: BTreeMap<String, String> = [(names(1), "r3".to_string()), (names(2), "r2".to_string())].into_iter().collect();
    if !in_a.is_empty() || in_b != want_b {
        println!("{}", json!({"problem": {"what": "a relative pattern after a change of the working directory", "pattern": pattern,
                                          "in_the_directory_of_the_build": in_a, "in_the_working_directory": in_b, "expected_in_the_working_directory": want_b}}));
    } else {
        println!("{}", json!({"problem": null}));
    }
}

fn check_cwd() -> Vec<Value> {
    let exe = std::env::current_exe().unwrap();
    let mut out = vec![];
    for variant in 0..6 {
        let (a, b) = (Scratch::new("cwda"), Scratch::new("cwdb"));
        let o = std::process::Command::new(&exe).arg("fixedwindow-cwd-child").arg(a.path()).arg(b.path()).arg(variant.to_string()).output();
        let line = o.as_ref().ok().map(|o| String::from_utf8_lossy(&o.stdout).lines().last().unwrap_or("").to_string()).unwrap_or_default();
        match serde_json::from_str::<Value>(&line) {
            Ok(v) if v["problem"].is_null() => {}
            Ok(v) => out.push(json!({"case": "cwd", "variant": variant, "mismatch": v["problem"]})),
            Err(_) => out.push(json!({"case": "cwd", "variant": variant, "mismatch": {"what": "child failed", "status": format!("{:?}", o.map(|o| o.status))}})),
        }
    }
    out
}

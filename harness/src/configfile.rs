//! C14: renders the logical documents of ConfigFile.tla into YAML, JSON and TOML, loads each through
//! the lossy pipeline (load_config_file) and the strict pipeline (serde -> RawConfig -> strict
//! build), and compares outcome class, surviving appenders, routing of probe records through the
//! capture appender, refresh rate and a few behaviours of the real appenders.
use crate::{fsutil::*, reloader::CaptureDeserializer, util::*};
use log::Log;
use log4rs::config::{Deserializers, RawConfig};
use serde_json::{json, Map, Value};
use std::sync::{atomic::AtomicUsize, Arc, Mutex};

const LEVELS: [&str; 6] = ["off", "error", "warn", "info", "debug", "trace"];


/// A filter kind of the embedding program: it accepts every record outright (ConfigFile.tla, "pass").
#[derive(Debug)]
struct Pass;
impl log4rs::filter::Filter for Pass {
    fn filter(&self, _: &log::Record) -> log4rs::filter::Response {
        log4rs::filter::Response::Accept
    }
}
#[derive(serde::Deserialize)]
#[serde(deny_unknown_fields)]
struct PassConfig {}
struct PassDeserializer;
impl log4rs::config::Deserialize for PassDeserializer {
    type Trait = dyn log4rs::filter::Filter;
    type Config = PassConfig;
    fn deserialize(&self, _: PassConfig, _: &Deserializers) -> anyhow::Result<Box<dyn log4rs::filter::Filter>> {
        Ok(Box::new(Pass))
    }
}

fn render(doc: &Value, dir: &str, fmt: usize) -> Value {
    let dv = doc["dv"].as_str().unwrap();
    let mut top = Map::new();
    if doc["refresh"] == "30s" {
        top.insert("refresh_rate".into(), json!("30 seconds"));
    } else if doc["refresh"] == "200ms" {
        top.insert("refresh_rate".into(), json!("200 ms"));
    }
    match dv {
        "refresh_bad" => {
            top.insert("refresh_rate".into(), json!("soon"));
        }
        "refresh_wrong_type" => {
            top.insert("refresh_rate".into(), json!(30));
        }
        "doc_unknown_key" => {
            top.insert("colour".into(), json!(true));
        }
        _ => {}
    }
    // root
    let root_variant = doc["root"].as_str().unwrap();
    let force_root = matches!(dv, "root_unknown_key" | "root_level_bad" | "root_appenders_wrong_type");
    if root_variant != "absent" || force_root {
        let mut root = Map::new();
        if root_variant == "full" {
            root.insert("level".into(), json!(LEVELS[doc["rootlvl"].as_u64().unwrap() as usize]));
        }
        if root_variant != "absent" {
            root.insert("appenders".into(), doc["rootapps"].clone());
        }
        match dv {
            "root_unknown_key" => {
                root.insert("extra".into(), json!(1));
            }
            "root_level_bad" => {
                root.insert("level".into(), json!("loud"));
            }
            "root_appenders_wrong_type" => {
                root.insert("appenders".into(), json!("c"));
            }
            _ => {}
        }
        top.insert("root".into(), Value::Object(root));
    }
    // appenders
    let mut apps = Map::new();
    let thr = |l: &str| json!({"kind": "threshold", "level": l});
    let c = match doc["c"].as_str().unwrap() {
        "absent" => None,
        "plain" => Some(json!({"kind": "capture", "tag": "c"})),
        "thr" => Some(json!({"kind": "capture", "tag": "c", "filters": [thr("warn")]})),
        "badfilter_kind" => Some(json!({"kind": "capture", "tag": "c", "filters": [{"kind": "nofilter"}]})),
        "thr_then_bad" => Some(json!({"kind": "capture", "tag": "c", "filters": [thr("warn"), thr("loud")]})),
        "pass_then_thr" => Some(json!({"kind": "capture", "tag": "c", "filters": [{"kind": "pass"}, thr("warn")]})),
        "thr_then_pass" => Some(json!({"kind": "capture", "tag": "c", "filters": [thr("warn"), {"kind": "pass"}]})),
        _ => Some(json!({"kind": "capture", "tag": "c", "filters": [thr("loud"), thr("warn")]})),
    };
    if let Some(c) = c {
        apps.insert("c".into(), c);
    }
    let path = format!("{}/x.log", dir);
    let roll = |policy: Value| json!({"kind": "rolling_file", "path": path, "policy": policy});
    // one kibibyte, spelled differently in each rendering: the built trigger is the same
    let spelled = ["1 kb", "1kb", "1 KiB", "1024"][fmt % 4];
    let size = json!({"kind": "size", "limit": spelled});
    let zero_limit: Value = [json!(0), json!(0), json!(0), json!("0 kb")][fmt % 4].clone();
    let spelled_w: Value = [json!(1024), json!("1024 b"), json!("1Kb"), json!("1   kib")][fmt % 4].clone();
    let del = json!({"kind": "delete"});
    let two_hours: Value = [json!("2 HOURS"), json!("2 hourS"), json!(7200), json!("2 Hours")][fmt % 4].clone();
    let win = |extra: Value| {
        let mut m = json!({"kind": "fixed_window", "pattern": format!("{}/x.{{}}.log", dir), "count": 2});
        for (k, v) in extra.as_object().unwrap() {
            if v.is_null() {
                m.as_object_mut().unwrap().remove(k);
            } else {
                m[k] = v.clone();
            }
        }
        m
    };
    let x = match doc["x"].as_str().unwrap() {
        "absent" => None,
        "file" => Some(json!({"kind": "file", "path": path})),
        "file_trunc" => Some(json!({"kind": "file", "path": path, "append": false})),
        "file_json" => Some(json!({"kind": "file", "path": path, "encoder": {"kind": "json"}})),
        // a path with a reference whose value is itself the text of a reference: expansion is one pass, here as for the
        // builders (the loaded appender prints the same path as its programmatic twin)
        "file_env" => Some(json!({"kind": "file", "path": format!("{}/x$ENV{{LV_CF_OUTER}}.log", dir)})),
        "file_pat" => Some(json!({"kind": "file", "path": path, "encoder": {"pattern": "{l}|{m}{n}"}})),
        // a pattern that is present and empty: every record encodes to nothing - which is not the default pattern
        "file_empty_pat" => Some(json!({"kind": "file", "path": path, "encoder": {"kind": "pattern", "pattern": ""}})),
        "roll_delete" => Some(roll(json!({"trigger": size, "roller": del}))),
        "roll_window" => Some(roll(json!({"kind": "compound", "trigger": {"kind": "size", "limit": spelled_w}, "roller": win(json!({}))}))),
        // a limit of zero, as a bare integer (the formats hand integers to the reader differently: unsigned, signed)
        "roll_zero_limit" => Some(roll(json!({"trigger": {"kind": "size", "limit": zero_limit}, "roller": del}))),
        // an interval of two hours, spelled differently in each rendering (unit case does not matter, singular and
        // plural are both units, a bare number is seconds)
        "roll_time" => Some(roll(json!({"trigger": {"kind": "time", "interval": two_hours}, "roller": del}))),
        "console" => Some(json!({"kind": "console", "target": "stderr", "tty_only": true})),
        "file_unknown_key" => Some(json!({"kind": "file", "path": path, "colour": true})),
        "file_path_wrong_type" => Some(json!({"kind": "file", "path": 5})),
        "file_append_wrong_type" => Some(json!({"kind": "file", "path": path, "append": "yes"})),
        "enc_unknown_key" => Some(json!({"kind": "file", "path": path, "encoder": {"kind": "pattern", "patern": "x"}})),
        "enc_unknown_kind" => Some(json!({"kind": "file", "path": path, "encoder": {"kind": "xml"}})),
        "enc_kind_wrong_type" => Some(json!({"kind": "file", "path": path, "encoder": {"kind": 7}})),
        "enc_kind_null" => Some(json!({"kind": "file", "path": path, "encoder": {"kind": [ "json" ]}})),
        "policy_kind_wrong_type" => Some(roll(json!({"kind": 7, "trigger": size, "roller": del}))),
        "trigger_kind_wrong_type" => Some(roll(json!({"trigger": {"kind": true, "limit": 10}, "roller": del}))),
        "roller_kind_wrong_type" => Some(roll(json!({"trigger": size, "roller": {"kind": 3}}))),
        "policy_unknown_key" => Some(roll(json!({"trigger": size, "roller": del, "extra": 1}))),
        "policy_unknown_kind" => Some(roll(json!({"kind": "simple", "trigger": size, "roller": del}))),
        "trigger_unknown_key" => Some(roll(json!({"trigger": {"kind": "size", "limit": 10, "extra": 1}, "roller": del}))),
        "trigger_unknown_kind" => Some(roll(json!({"trigger": {"kind": "lunar"}, "roller": del}))),
        "trigger_neg_limit" => Some(roll(json!({"trigger": {"kind": "size", "limit": -1}, "roller": del}))),
        "trigger_bad_unit" => Some(roll(json!({"trigger": {"kind": "size", "limit": "10 parsecs"}, "roller": del}))),
        "roller_unknown_key" => Some(roll(json!({"trigger": size, "roller": {"kind": "delete", "extra": 1}}))),
        "roller_unknown_kind" => Some(roll(json!({"trigger": size, "roller": {"kind": "shredder"}}))),
        "roller_neg_count" => Some(roll(json!({"trigger": size, "roller": win(json!({"count": -1}))}))),
        "roller_no_count" => Some(roll(json!({"trigger": size, "roller": win(json!({"count": null}))}))),
        "roller_no_braces" => Some(roll(json!({"trigger": size, "roller": win(json!({"pattern": format!("{}/x.log.old", dir)}))}))),
        "console_bad_target" => Some(json!({"kind": "console", "target": "stdnowhere"})),
        "unknown_kind" => Some(json!({"kind": "carrier_pigeon"})),
        // a dropped appender that carries valid filters of its own: they must vanish with it
        "unknown_kind_with_filter" => Some(json!({"kind": "carrier_pigeon", "filters": [thr("off")]})),
        "file_no_path_with_filter" => Some(json!({"kind": "file", "filters": [thr("error"), thr("off")]})),
        "time_zero_interval" => Some(roll(json!({"trigger": {"kind": "time", "interval": "0 seconds", "modulate": true}, "roller": del}))),
        _ => Some(roll(json!({"trigger": {"kind": "time", "interval": "9223372036854775807 weeks"}, "roller": del}))),
    };
    if let Some(mut x) = x {
        if dv == "appender_no_kind" {
            x.as_object_mut().unwrap().remove("kind");
        }
        if dv == "appender_kind_wrong_type" {
            x["kind"] = json!(7);
        }
        if dv == "filter_kind_wrong_type" {
            x["filters"] = json!([{"kind": 5, "level": "warn"}]);
        }
        apps.insert("x".into(), x);
    } else if dv == "appender_no_kind" {
        apps.insert("x".into(), json!({"path": path}));
    } else if dv == "appender_kind_wrong_type" {
        apps.insert("x".into(), json!({"kind": 7, "path": path}));
    } else if dv == "filter_kind_wrong_type" {
        apps.insert("x".into(), json!({"kind": "file", "path": path, "filters": [{"kind": 5, "level": "warn"}]}));
    }
    top.insert("appenders".into(), Value::Object(apps));
    // loggers
    let mut loggers = Map::new();
    for (i, l) in doc["loggers"].as_array().unwrap().iter().enumerate() {
        let mut m = Map::new();
        m.insert("level".into(), json!(LEVELS[l["lvl"].as_u64().unwrap() as usize]));
        match l["add"].as_str().unwrap() {
            "true" => {
                m.insert("additive".into(), json!(true));
            }
            "false" => {
                m.insert("additive".into(), json!(false));
            }
            _ => {}
        }
        m.insert("appenders".into(), l["apps"].clone());
        if i == 0 {
            match dv {
                "logger_unknown_key" => {
                    m.insert("extra".into(), json!(1));
                }
                "logger_no_level" => {
                    m.remove("level");
                }
                "logger_level_bad" => {
                    m.insert("level".into(), json!("loud"));
                }
                "logger_additive_wrong_type" => {
                    m.insert("additive".into(), json!("yes"));
                }
                _ => {}
            }
        }
        loggers.insert(l["name"].as_str().unwrap().to_string(), Value::Object(m));
    }
    if !loggers.is_empty() {
        top.insert("loggers".into(), Value::Object(loggers));
    }
    Value::Object(top)
}

fn to_toml(v: &Value) -> toml::Value {
    match v {
        Value::Null => toml::Value::String("null".into()),
        Value::Bool(b) => toml::Value::Boolean(*b),
        Value::Number(n) => toml::Value::Integer(n.as_i64().unwrap()),
        Value::String(s) => toml::Value::String(s.clone()),
        Value::Array(a) => toml::Value::Array(a.iter().map(to_toml).collect()),
        Value::Object(o) => toml::Value::Table(o.iter().map(|(k, v)| (k.clone(), to_toml(v))).collect()),
    }
}

fn check_format(case: &Value, fmt: usize) -> Option<Value> {
    let scratch = Scratch::new("cfg");
    let dir = scratch.path().to_string_lossy().to_string();
    let tree = render(&case["doc"], &dir, fmt);
    let (ext, text) = match fmt {
        0 => ("yaml", serde_yaml::to_string(&tree).unwrap()),
        // flow-style YAML: JSON text is YAML too (quoted scalars, inline maps and lists)
        3 => ("yml", serde_json::to_string(&tree).unwrap()),
        1 => ("json", serde_json::to_string_pretty(&tree).unwrap()),
        _ => ("toml", match toml::to_string(&to_toml(&tree)) {
            Ok(t) => t,
            Err(e) => return Some(json!({"what": "harness: toml rendering failed", "error": e.to_string()})),
        }),
    };
    let path = scratch.path().join(format!("log4rs.{}", ext));
    std::fs::write(&path, &text).unwrap();
    std::fs::write(scratch.path().join("x.log"), "old\n").unwrap();
    let sink = Arc::new(Mutex::new(vec![]));
    let built = Arc::new(AtomicUsize::new(0));
    let mk = || {
        let mut d = Deserializers::default();
        d.insert("capture", CaptureDeserializer { sink: sink.clone(), built: built.clone(), slow_v3: std::time::Duration::ZERO });
        d.insert("pass", PassDeserializer);
        d
    };
    let class = case["class"].as_str().unwrap();
    let fail = |what: &str, detail: Value| Some(json!({"what": what, "format": ext, "detail": detail, "document": text}));
    // strict pipeline: parse, build every appender, strict config build
    let strict: Result<(), String> = match catch(|| -> Result<(), String> {
        let raw: RawConfig = match fmt {
            0 | 3 => serde_yaml::from_str(&text).map_err(|e| format!("parse: {}", e))?,
            1 => serde_json::from_str(&text).map_err(|e| format!("parse: {}", e))?,
            _ => toml::from_str(&text).map_err(|e| format!("parse: {}", e))?,
        };
        let (apps, errs) = raw.appenders_lossy(&mk());
        if !errs.is_empty() {
            return Err(format!("appenders: {}", errs));
        }
        log4rs::Config::builder().appenders(apps).loggers(raw.loggers()).build(raw.root()).map(|_| ()).map_err(|e| format!("config: {}", e))
    }) {
        Ok(r) => r,
        Err(p) => return fail("strict loading panicked", json!(p)),
    };
    // the strict attempt created x.log afresh or appended nothing; restore the marker content
    std::fs::write(scratch.path().join("x.log"), "old\n").unwrap();
    let lossy = match catch(|| log4rs::config::load_config_file(&path, mk())) {
        Ok(r) => r,
        Err(p) => return fail("lossy loading panicked", json!(p)),
    };
    match class {
        "rejected" => {
            if lossy.is_ok() {
                return fail("a document that must be rejected was loaded", Value::Null);
            }
            match &strict {
                Err(e) if e.starts_with("parse:") => {}
                other => return fail("a document that must be rejected was accepted by the strict parser", json!(format!("{:?}", other))),
            }
            return None;
        }
        "partial" => {
            if strict.is_ok() {
                return fail("strict loading accepted a document with a broken component", Value::Null);
            }
            if let Err(e) = &strict {
                if e.starts_with("parse:") {
                    return fail("a document with one broken component was rejected as a whole", json!(e));
                }
            }
        }
        _ => {
            if let Err(e) = &strict {
                return fail("strict loading refused a well-formed document", json!(e));
            }
        }
    }
    let cfg = match lossy {
        Ok(c) => c,
        Err(e) => return fail("lossy loading failed although only components are broken", json!(e.to_string())),
    };
    let mut names: Vec<String> = cfg.appenders().iter().map(|a| a.name().to_string()).collect();
    names.sort();
    let mut want: Vec<String> = case["kept"].as_array().unwrap().iter().map(|v| v.as_str().unwrap().to_string()).collect();
    want.sort();
    if names != want {
        return fail("surviving appenders", json!({"expected": want, "actual": names}));
    }
    // refresh rate as the raw document reports it
    let raw: Result<RawConfig, String> = match fmt {
        0 | 3 => serde_yaml::from_str(&text).map_err(|e| e.to_string()),
        1 => serde_json::from_str(&text).map_err(|e| e.to_string()),
        _ => toml::from_str(&text).map_err(|e| e.to_string()),
    };
    let rr = raw.ok().and_then(|r| r.refresh_rate());
    let want_rr = if case["refresh"] == "30s" { Some(std::time::Duration::from_secs(30)) } else if case["refresh"] == "200ms" { Some(std::time::Duration::from_millis(200)) } else { None };
    if rr != want_rr {
        return fail("refresh rate", json!({"expected": format!("{:?}", want_rr), "actual": format!("{:?}", rr)}));
    }
    let x_variant = case["doc"]["x"].as_str().unwrap();
    let pre = std::fs::read_to_string(scratch.path().join("x.log")).unwrap_or_default();
    // ... and as the reloading thread adopts it when it finds this document at the path (it has seen another text
    // before): the rate it goes on with is the document's - none stops it
    {
        let logger = log4rs::Logger::new(log4rs::Config::builder().build(log4rs::config::Root::builder().build(log::LevelFilter::Off)).unwrap());
        match log4rs::config::VerifReloader::new(path.clone().into(), "an earlier text".to_string(), None, mk(), logger.verif_handle()) {
            Err(e) => return fail("reloader construction failed", json!(e.to_string())),
            Ok(mut rl) => match catch(|| rl.run_once(std::time::Duration::from_secs(7))) {
                Ok(Ok(got)) if got == want_rr => {}
                other => return fail("refresh rate adopted by the reloader", json!({"expected": format!("{:?}", want_rr), "actual": format!("{:?}", other.map(|r| r.map_err(|e| e.to_string())))})),
            },
        }
    }
    if names.contains(&"x".to_string()) && x_variant != "console" {
        let want_pre = if x_variant == "file_trunc" { "" } else { "old\n" };
        if pre != want_pre {
            return fail("append / truncate default of the file appender", json!({"expected": want_pre, "actual": pre}));
        }
    }
    // "equal to the programmatic configuration": the surviving file / rolling appender prints (Debug: path, mode,
    // encoder, policy with its trigger and roller - the open handle is not part of it) exactly like the one built
    // through the builders
    if names.contains(&"x".to_string()) {
        use log4rs::append::rolling_file::policy::compound::{roll::{delete::DeleteRoller, fixed_window::FixedWindowRoller}, trigger::size::SizeTrigger, CompoundPolicy};
        let xp = format!("{}/x.log", dir);
        let twin: Option<Box<dyn log4rs::append::Append>> = match x_variant {
            "file" => Some(Box::new(log4rs::append::file::FileAppender::builder().build(&xp).unwrap())),
            "file_json" => Some(Box::new(log4rs::append::file::FileAppender::builder().encoder(Box::new(log4rs::encode::json::JsonEncoder::new())).build(&xp).unwrap())),
            "file_env" => Some(Box::new(log4rs::append::file::FileAppender::builder().build(format!("{}/x$ENV{{LV_CF_OUTER}}.log", dir)).unwrap())),
            "file_pat" => Some(Box::new(log4rs::append::file::FileAppender::builder().encoder(Box::new(log4rs::encode::pattern::PatternEncoder::new("{l}|{m}{n}"))).build(&xp).unwrap())),
            "file_empty_pat" => Some(Box::new(log4rs::append::file::FileAppender::builder().encoder(Box::new(log4rs::encode::pattern::PatternEncoder::new(""))).build(&xp).unwrap())),
            "roll_delete" => Some(Box::new(log4rs::append::rolling_file::RollingFileAppender::builder()
                .build(&xp, Box::new(CompoundPolicy::new(Box::new(SizeTrigger::new(1024)), Box::new(DeleteRoller::new())))).unwrap())),
            "roll_zero_limit" => Some(Box::new(log4rs::append::rolling_file::RollingFileAppender::builder()
                .build(&xp, Box::new(CompoundPolicy::new(Box::new(SizeTrigger::new(0)), Box::new(DeleteRoller::new())))).unwrap())),
            "roll_window" => Some(Box::new(log4rs::append::rolling_file::RollingFileAppender::builder()
                .build(&xp, Box::new(CompoundPolicy::new(Box::new(SizeTrigger::new(1024)),
                    Box::new(FixedWindowRoller::builder().build(&format!("{}/x.{{}}.log", dir), 2).unwrap())))).unwrap())),
            _ => None,
        };
        if let Some(t) = twin {
            let twin_cfg = log4rs::config::Appender::builder().build("x", t);
            let loaded = cfg.appenders().iter().find(|a| a.name() == "x").unwrap();
            let (a, b) = (format!("{:?}", loaded), format!("{:?}", twin_cfg));
            if a != b {
                return fail("the loaded appender differs from the one built programmatically", json!({"loaded": a, "programmatic": b}));
            }
        }
    }
    let logger = match catch(|| log4rs::Logger::new(cfg)) {
        Ok(l) => l,
        Err(p) => return fail("installing the loaded configuration panicked", json!(p)),
    };
    for p in case["probes"].as_array().unwrap() {
        let t = p["t"].as_str().unwrap();
        for l in 1..=5usize {
            sink.lock().unwrap().clear();
            if let Err(pn) = catch(|| logger.log(&log::Record::builder().target(t).level(level(l as i64)).args(format_args!("m")).build())) {
                return fail("logging through the loaded configuration panicked", json!(pn));
            }
            let got = sink.lock().unwrap().len();
            let want = p["n"][l - 1].as_u64().unwrap() as usize;
            if got != want {
                return fail("deliveries to the capture appender", json!({"target": t, "level": l, "expected": want, "actual": got}));
            }
        }
    }
    // encoder defaults, read off the file the real appender wrote
    if names.contains(&"x".to_string()) && matches!(x_variant, "file" | "file_json" | "file_pat") {
        let content = std::fs::read_to_string(scratch.path().join("x.log")).unwrap_or_default();
        for line in content.lines().skip(1) {
            let ok = match x_variant {
                "file_json" => line.starts_with('{') && line.ends_with('}'),
                "file_pat" => line.ends_with("|m") && !line.contains(" - "),
                _ => line.ends_with(" - m"),
            };
            if !ok {
                return fail("encoder kind / default", json!({"variant": x_variant, "line": line}));
            }
        }
    }
    None
}

/// `configfile <cases.ndjson> <out.ndjson>`
pub fn main(args: &[String]) {
    quiet_panics();
    std::env::set_var("LV_CF_OUTER", "$ENV{LV_CF_INNER}");
    std::env::set_var("LV_CF_INNER", "");
    let rows = read_ndjson(&args[0]);
    let res = par_map(&rows, threads(), |i, c| {
        for fmt in 0..4 {
            if let Some(m) = check_format(c, fmt) {
                return vec![json!({"case": i, "doc": c["doc"], "class": c["class"], "mismatch": m})];
            }
        }
        vec![]
    });
    write_ndjson(&args[1], &res);
    println!("{}", json!({"cases": rows.len(), "formats": 4, "mismatches": res.len()}));
}

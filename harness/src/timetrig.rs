//! C16: replay of TimeTrigger.tla in the process's zone (TZ is set by the driver per child process).
//! Grid cases go through the guarded pure-function wrapper; histories drive a real rolling appender
//! under the clock override and watch when it rolls.
use crate::{fsutil::*, util::*};
use chrono::{DateTime, Local, LocalResult, NaiveDate, Offset, TimeZone};
use log4rs::append::rolling_file::{
    policy::compound::{
        roll::Roll,
        trigger::{
            time::{TimeTrigger, TimeTriggerConfig, TimeTriggerInterval},
            Trigger,
        },
        CompoundPolicy,
    },
    LogFile, RollingFileAppender,
};
use log4rs::append::Append;
use serde_json::{json, Value};
use std::sync::{
    atomic::{AtomicUsize, Ordering},
    Arc,
};

fn naive(c: &Value) -> chrono::NaiveDateTime {
    NaiveDate::from_ymd_opt(c["y"].as_i64().unwrap() as i32, c["mo"].as_u64().unwrap() as u32, c["d"].as_u64().unwrap() as u32)
        .unwrap()
        .and_hms_opt(c["h"].as_u64().unwrap() as u32, c["mi"].as_u64().unwrap() as u32, c["s"].as_u64().unwrap() as u32)
        .unwrap()
}

fn locals(c: &Value) -> Vec<DateTime<Local>> {
    match Local.from_local_datetime(&naive(c)) {
        LocalResult::None => vec![],
        LocalResult::Single(t) => vec![t],
        LocalResult::Ambiguous(a, b) => vec![a, b],
    }
}

fn interval(unit: &str, n: i64) -> TimeTriggerInterval {
    match unit {
        "second" => TimeTriggerInterval::Second(n),
        "minute" => TimeTriggerInterval::Minute(n),
        "hour" => TimeTriggerInterval::Hour(n),
        "day" => TimeTriggerInterval::Day(n),
        "week" => TimeTriggerInterval::Week(n),
        "month" => TimeTriggerInterval::Month(n),
        _ => TimeTriggerInterval::Year(n),
    }
}

fn check_grid(case: &Value, skipped: &AtomicUsize, weak: &AtomicUsize) -> Option<Value> {
    let ts = locals(&case["now"]);
    if ts.is_empty() {
        skipped.fetch_add(1, Ordering::Relaxed); // the local time does not exist in this zone
        return None;
    }
    // counts beyond TLC's integers come as q * per_day + r (TimeTrigger.tla, NextTimeBig)
    let n = match case.get("n_q") {
        Some(q) if !q.is_null() => q.as_i64().unwrap() * case["per_day"].as_i64().unwrap() + case["n_r"].as_i64().unwrap(),
        _ => case["n"].as_i64().unwrap(),
    };
    let iv = interval(case["unit"].as_str().unwrap(), n);
    let modulate = case["mod"].as_bool().unwrap();
    for t in ts {
        let r = match catch(|| TimeTrigger::verif_next_time(t, iv, modulate)) {
            Ok(r) => r,
            Err(p) => return Some(json!({"what": "schedule computation panicked", "now": t.to_rfc3339(), "error": p})),
        };
        if r <= t {
            return Some(json!({"what": "scheduled instant is not strictly in the future", "now": t.to_rfc3339(), "next": r.to_rfc3339()}));
        }
        if r.offset().fix() == t.offset().fix() {
            let want = naive(&case["expect"]);
            if r.naive_local() != want {
                return Some(json!({"what": "scheduled instant differs", "now": t.to_rfc3339(), "expected_local": want.to_string(), "actual": r.to_rfc3339()}));
            }
        } else {
            weak.fetch_add(1, Ordering::Relaxed);
        }
    }
    None
}

#[derive(Debug)]
struct SharedTrigger(Arc<TimeTrigger>);
impl Trigger for SharedTrigger {
    fn trigger(&self, file: &LogFile) -> anyhow::Result<bool> {
        self.0.trigger(file)
    }
    fn is_pre_process(&self) -> bool {
        self.0.is_pre_process()
    }
}
#[derive(Debug)]
struct CountingRoller(Arc<AtomicUsize>);
thread_local! {
    static FAIL_NEXT_ROLL: std::cell::Cell<bool> = std::cell::Cell::new(false);
}
impl Roll for CountingRoller {
    fn roll(&self, file: &std::path::Path) -> anyhow::Result<()> {
        self.0.fetch_add(1, Ordering::SeqCst);
        if FAIL_NEXT_ROLL.with(|f| f.replace(false)) {
            anyhow::bail!("scripted roller failure");
        }
        std::fs::remove_file(file).map_err(Into::into)
    }
}

#[derive(serde::Deserialize)]
struct NoConfig {}
struct CountingRollerDeserializer(Arc<AtomicUsize>);
impl log4rs::config::Deserialize for CountingRollerDeserializer {
    type Trait = dyn Roll;
    type Config = NoConfig;
    fn deserialize(&self, _: NoConfig, _: &log4rs::config::Deserializers) -> anyhow::Result<Box<dyn Roll>> {
        Ok(Box::new(CountingRoller(self.0.clone())))
    }
}

fn check_history(ci: usize, case: &Value) -> Option<Value> {
    let ops = case["ops"].as_array().unwrap();
    let cfg = &case["cfg"];
    let scratch = Scratch::new("time");
    let path = scratch.path().join("t.log");
    let rolls = Arc::new(AtomicUsize::new(0));
    // every other history builds the whole appender from a configuration value (kind `time` inside a compound
    // policy): there the schedule is not observable, the firing decisions and the file are
    let via_config = ci % 2 == 1;
    let mut appender: Option<(Box<dyn log4rs::append::Append>, Option<Arc<TimeTrigger>>)> = None;
    let mut expected_file = String::new();
    let mut failed_once = false;
    let res = catch(|| -> Option<Value> {
        for (i, op) in ops.iter().enumerate() {
            let t = match locals(&op["now"]).first() {
                Some(t) => *t,
                None => return None,
            };
            // TimeTrigger.tla counts whole seconds; a real arrival is somewhere inside its second.  Boundaries are whole
            // seconds, so where in its second an arrival lies changes neither whether it is at or after the scheduled
            // instant nor the next boundary: the last nanosecond and the last half millisecond of the second before a
            // boundary are still before it
            let t = if op["op"] == "new" { t } else { t + chrono::Duration::nanoseconds([0i64, 999_999_999, 999_500_000, 1, 500_000_000][mix(ci + i) % 5]) };
            log4rs::verif::set_now(Some(t));
            let sched_want = naive(&op["sched"]);
            if op["op"] == "new" {
                let doc = format!("interval: {} {}\nmodulate: {}\n", cfg["n"], cfg["unit"].as_str().unwrap(), cfg["mod"]);
                if via_config {
                    let mut d = log4rs::config::Deserializers::default();
                    d.insert("counting", CountingRollerDeserializer(rolls.clone()));
                    let v: serde_value::Value = serde_json::from_value(json!({
                        "path": path.to_string_lossy(), "encoder": {"pattern": "{m}{n}"},
                        "policy": {"kind": "compound",
                                   "trigger": {"kind": "time", "interval": format!("{} {}", cfg["n"], cfg["unit"].as_str().unwrap()), "modulate": cfg["mod"]},
                                   "roller": {"kind": "counting"}}})).unwrap();
                    let a = d.deserialize::<dyn log4rs::append::Append>("rolling_file", v).expect("appender from configuration");
                    appender = Some((a, None));
                } else {
                let tc: TimeTriggerConfig = serde_yaml::from_str(&doc).expect("trigger config");
                let trig = Arc::new(TimeTrigger::new(tc));
                let policy = CompoundPolicy::new(Box::new(SharedTrigger(trig.clone())), Box::new(CountingRoller(rolls.clone())));
                let a = RollingFileAppender::builder()
                    .encoder(Box::new(log4rs::encode::pattern::PatternEncoder::new("{m}{n}")))
                    .build(&path, Box::new(policy))
                    .expect("appender");
                appender = Some((Box::new(a), Some(trig)));
                }
            } else {
                let (a, _) = appender.as_ref().unwrap();
                let before = rolls.load(Ordering::SeqCst);
                let want = op["fire"].as_bool().unwrap();
                // in a third of the histories the roller fails at the first firing: the trigger has fired and rescheduled
                // (TimeTrigger.tla, Arrive) - what the roller then does with the file is not its business -, the append
                // reports the failure and does not write the record; the arrivals that follow fire as the model says
                let roll_fails = want && !failed_once && ci % 3 == 0;
                if roll_fails {
                    failed_once = true;
                    FAIL_NEXT_ROLL.with(|f| f.set(true));
                }
                let r = a.append(&log::Record::builder().level(log::Level::Info).args(format_args!("r{}", i)).build());
                FAIL_NEXT_ROLL.with(|f| f.set(false));
                if r.is_err() != roll_fails {
                    return Some(json!({"step": i, "what": "append result", "expected_error": roll_fails, "error": r.err().map(|e| e.to_string())}));
                }
                let fired = rolls.load(Ordering::SeqCst) - before;
                if (fired == 1) != want || fired > 1 {
                    return Some(json!({"step": i, "what": "trigger fired / did not fire", "expected_fire": want, "rolls_during_append": fired,
                                       "now": t.to_rfc3339(), "a_roll_failed_earlier": failed_once}));
                }
                if roll_fails {
                    // (the record was not written and the file is still the old one)
                    let got = std::fs::read_to_string(&path).unwrap_or_default();
                    if got != expected_file {
                        return Some(json!({"step": i, "what": "file content after a failed roll", "expected": expected_file, "actual": got}));
                    }
                    let sched = match &appender.as_ref().unwrap().1 {
                        Some(t) => t.verif_scheduled(),
                        None => continue,
                    };
                    if sched <= t || sched.naive_local() != sched_want {
                        return Some(json!({"step": i, "what": "scheduled instant differs", "now": t.to_rfc3339(), "expected_local": sched_want.to_string(),
                                           "actual": sched.to_rfc3339()}));
                    }
                    continue;
                }
                // the trigger fires before the record is written: the record starts the fresh file
                if want {
                    expected_file.clear();
                }
                expected_file.push_str(&format!("r{}\n", i));
                let got = std::fs::read_to_string(&path).unwrap_or_default();
                if got != expected_file {
                    return Some(json!({"step": i, "what": "file content around the rotation", "expected": expected_file, "actual": got}));
                }
            }
            let sched = match &appender.as_ref().unwrap().1 {
                Some(t) => t.verif_scheduled(),
                None => continue,
            };
            if sched <= t {
                return Some(json!({"step": i, "what": "scheduled instant is not strictly in the future", "now": t.to_rfc3339(), "scheduled": sched.to_rfc3339()}));
            }
            if sched.naive_local() != sched_want {
                return Some(json!({"step": i, "what": "scheduled instant differs", "now": t.to_rfc3339(), "expected_local": sched_want.to_string(),
                                   "actual": sched.to_rfc3339()}));
            }
        }
        None
    });
    log4rs::verif::set_now(None);
    match res {
        Ok(r) => r,
        Err(p) => Some(json!({"what": "panic while driving the trigger", "error": p})),
    }
}

/// A walk of arrivals through the repeated hour of this zone (where the clocks are set back and the same wall-clock
/// readings come twice): whatever the schedule is there, the trigger fires on the first record at or after the
/// scheduled *instant* - not when the wall clock reading has caught up with the schedule's - and reschedules strictly
/// into the future (TimeTrigger.tla, Trigger: `now` and `next` are instants).
fn check_overlap_walk() -> Vec<Value> {
    use chrono::LocalResult;
    let mut out = vec![];
    // the first set-back of the zone after 2024-01-01
    let mut first_pass: Option<DateTime<Local>> = None;
    let mut day = chrono::NaiveDate::from_ymd_opt(2024, 1, 1).unwrap();
    'scan: for _ in 0..800 {
        for h in 0..24 {
            for m in [0u32, 30] {
                if let LocalResult::Ambiguous(a, b) = Local.from_local_datetime(&day.and_hms_opt(h, m, 0).unwrap()) {
                    first_pass = Some(a.min(b)); // the earlier of the two instants that read this wall-clock time
                    break 'scan;
                }
            }
        }
        day = day.succ_opt().unwrap();
    }
    let start = match first_pass {
        Some(t) => t,
        None => return out, // no set-back in this zone
    };
    for (n, unit) in [(1i64, "hour"), (30, "minute"), (45, "minutes"), (7, "minute"), (90, "seconds"), (2, "hours")] {
        for modulate in [false, true] {
            let scratch = Scratch::new("walk");
            let path = scratch.path().join("t.log");
            let rolls = Arc::new(AtomicUsize::new(0));
            let r = catch(|| -> Option<Value> {
                let mut now = start + chrono::Duration::minutes(3);
                log4rs::verif::set_now(Some(now));
                let tc: TimeTriggerConfig = serde_yaml::from_str(&format!("interval: {} {}\nmodulate: {}\n", n, unit, modulate)).expect("trigger config");
                let trig = Arc::new(TimeTrigger::new(tc));
                let policy = CompoundPolicy::new(Box::new(SharedTrigger(trig.clone())), Box::new(CountingRoller(rolls.clone())));
                let a = RollingFileAppender::builder().encoder(Box::new(log4rs::encode::pattern::PatternEncoder::new("{m}{n}"))).build(&path, Box::new(policy)).expect("appender");
                for step in 0..60 {
                    now = now + chrono::Duration::seconds(if step % 3 == 0 { 211 } else { 97 });
                    log4rs::verif::set_now(Some(now));
                    let scheduled = trig.verif_scheduled();
                    let before = rolls.load(Ordering::SeqCst);
                    if let Err(e) = log4rs::append::Append::append(&a, &log::Record::builder().level(log::Level::Info).args(format_args!("r{}", step)).build()) {
                        return Some(json!({"what": "append failed in the repeated hour", "error": e.to_string()}));
                    }
                    let fired = rolls.load(Ordering::SeqCst) - before;
                    let want = now >= scheduled;
                    if (fired == 1) != want || fired > 1 {
                        return Some(json!({"what": "trigger fired / did not fire against its scheduled instant (repeated hour)", "interval": format!("{} {}", n, unit),
                                           "modulate": modulate, "now": now.to_rfc3339(), "scheduled": scheduled.to_rfc3339(), "expected_fire": want, "rolls_during_append": fired}));
                    }
                    let next = trig.verif_scheduled();
                    if next <= now {
                        return Some(json!({"what": "scheduled instant is not strictly in the future (repeated hour)", "now": now.to_rfc3339(), "scheduled": next.to_rfc3339()}));
                    }
                }
                None
            });
            log4rs::verif::set_now(None);
            match r {
                Ok(Some(m)) => out.push(m),
                Ok(None) => {}
                Err(p) => out.push(json!({"what": "panic while walking through the repeated hour", "error": p})),
            }
        }
    }
    out
}

/// max_random_delay: the schedule lies in [boundary, boundary + max)
fn check_delay(idx: usize, case: &Value) -> Option<Value> {
    let t = *locals(&case["now"]).first()?;
    let n = match case.get("n_q") {
        Some(q) if !q.is_null() => q.as_i64().unwrap() * case["per_day"].as_i64().unwrap() + case["n_r"].as_i64().unwrap(),
        _ => case["n"].as_i64().unwrap(),
    };
    // random-delay bounds: small ones, and bounds around 2^31, 2^32, what chrono's durations can hold (about 2^63 / 1000
    // seconds), 2^63 and the largest u64 - the schedule lies in [boundary, boundary + bound) and nothing panics
    let bounds: [u64; 9] = [1, 10, 3600, 1 << 31, (1 << 32) + 1, 9_223_372_036_854_775, 9_223_372_036_854_776, 1 << 63, u64::MAX];
    let bound = bounds[mix(idx) % bounds.len()];
    log4rs::verif::set_now(Some(t));
    let doc = format!("interval: {} {}\nmodulate: {}\nmax_random_delay: {}\n", n, case["unit"].as_str().unwrap(), case["mod"], bound);
    let r = catch(|| {
        let tc: TimeTriggerConfig = serde_yaml::from_str(&doc).expect("trigger config");
        TimeTrigger::new(tc).verif_scheduled()
    });
    log4rs::verif::set_now(None);
    match r {
        Err(p) => Some(json!({"what": "TimeTrigger::new panicked", "max_random_delay": bound, "error": p})),
        Ok(s) => {
            let lo = naive(&case["expect"]);
            let d = (s.naive_local() - lo).num_seconds();
            if s.offset().fix() == t.offset().fix() && (d < 0 || d as u64 >= bound) {
                Some(json!({"what": "random delay outside [0, max)", "max_random_delay": bound, "boundary": lo.to_string(), "scheduled": s.to_rfc3339()}))
            } else {
                None
            }
        }
    }
}

/// `timetrig <cases.ndjson> <out.ndjson> <fixed|dst>`
pub fn main(args: &[String]) {
    quiet_panics();
    let rows = read_ndjson(&args[0]);
    let fixed = args[2] == "fixed";
    let skipped = AtomicUsize::new(0);
    let weak = AtomicUsize::new(0);
    let zone = std::env::var("TZ").unwrap_or_default();
    let res = par_map(&rows, threads(), |i, c| {
        let mut m = if c["kind"] == "grid" {
            check_grid(c, &skipped, &weak)
        } else if fixed {
            check_history(mix(i), c)
        } else {
            None
        };
        if m.is_none() && c["kind"] == "grid" && i % 37 == 0 {
            m = check_delay(i, c);
        }
        m.into_iter().map(|m| json!({"case": i, "zone": zone, "input": c, "mismatch": m})).collect()
    });
    let mut res = res;
    if !fixed {
        for m in check_overlap_walk() {
            res.push(json!({"case": -1, "zone": zone, "input": {"kind": "walk through the repeated hour"}, "mismatch": m}));
        }
    }
    write_ndjson(&args[1], &res);
    println!("{}", json!({"cases": rows.len(), "mismatches": res.len(), "nonexistent_local_times": skipped.load(Ordering::Relaxed),
                          "offset_changed_only_strict": weak.load(Ordering::Relaxed)}));
}

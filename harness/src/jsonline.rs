//! C12: encodes the records of JsonLine.tla with the real JsonEncoder. The raw line (hex) and the
//! concrete field values (as code-point lists) are written out; the driver parses the line with an
//! independent JSON reader (Python's json) and compares.
use crate::{pattern::Cap, util::*};
use log4rs::encode::Encode;
use serde_json::{json, Value};

fn rep(class: &str, salt: usize) -> &'static str {
    let pick = |v: &'static [&'static str]| v[salt % v.len()];
    match class {
        "plain" => pick(&["a", "Z", " ", "/", "0", "{", "}", ":", ",", ".", "_", "-", "$", "%"]),
        "quote" => "\"",
        "dot" => ".",
        "us" => "_",
        "bslash" => "\\",
        "lf" => "\n",
        "cr" => "\r",
        "ctl" => pick(&["\u{1}", "\t", "\u{8}", "\u{c}", "\u{1f}", "\u{1b}"]),
        "del" => "\u{7f}",
        // (incl. the C1 controls: U+0085 NEXT LINE and U+009F are two-byte characters that some consider line breaks)
        "b2" => pick(&["\u{e9}", "\u{80}", "\u{7ff}", "\u{301}", "\u{85}", "\u{9f}"]),
        "b3" => pick(&["\u{4e16}", "\u{800}", "\u{ffff}", "\u{fffd}"]),
        "b4" => pick(&["\u{1F600}", "\u{10000}", "\u{10FFFF}"]),
        _ => pick(&["\u{2028}", "\u{2029}"]),
    }
}

fn text(v: &Value, salt: usize) -> Option<String> {
    let a = v.as_array().unwrap();
    if a.len() == 1 && a[0] == "-absent-" {
        return None;
    }
    Some(a.iter().enumerate().map(|(i, c)| rep(c.as_str().unwrap(), salt + i)).collect())
}

fn cps(s: &str) -> Vec<u32> {
    s.chars().map(|c| c as u32).collect()
}

fn run_case(i: usize, case: &Value) -> Value {
    let message = text(&case["message"], i).unwrap();
    let target = text(&case["target"], i + 1).unwrap();
    let module = text(&case["module_path"], i + 2);
    let file = text(&case["file"], i + 3);
    let thread = text(&case["thread"], i + 4);
    let line: Option<u32> = match case["line"].as_i64().unwrap() {
        -1 => None,
        429496729 => Some(u32::MAX),
        n => Some(n as u32),
    };
    let mdc: Vec<(String, String)> = case["mdc"].as_array().unwrap().iter().map(|p| (text(&p[0], i + 5).unwrap(), text(&p[1], i + 6).unwrap())).collect();
    let lvl = level(case["level"].as_i64().unwrap());
    let body = || -> Result<(Vec<u8>, usize), String> {
        log_mdc::clear();
        for (k, v) in &mdc {
            log_mdc::insert(k.clone(), v.clone());
        }
        // every other record uses an encoder built from a configuration value ({kind: json})
        let v = mix(i);
        let enc: Box<dyn Encode> = if v % 2 == 1 {
            let v: serde_value::Value = serde_json::from_value(json!({})).unwrap();
            log4rs::config::Deserializers::default().deserialize::<dyn Encode>("json", v).expect("json encoder from configuration")
        } else {
            Box::new(log4rs::encode::json::JsonEncoder::new())
        };
        // in two of three cases an encoder of the other kind has rendered the thread's name, ids and the context map on
        // this thread before (a console appender with a pattern in front of a JSON file appender): a JSON line
        // describes the record and the thread, not what ran on the thread earlier (JsonLine.tla)
        if v % 3 != 0 {
            let p = log4rs::encode::pattern::PatternEncoder::new("{T}|{thread}|{I}|{i}|{P}|{X(k)(none)}|{M}|{f}|{L}|{m}{n}");
            let mut sink = Cap::new(vec![]);
            let _ = catch(|| p.encode(&mut sink, &log::Record::builder().level(lvl).target("earlier").args(format_args!("by pattern")).build()));
        }
        // an earlier record of this thread whose sink failed part-way must leave nothing behind
        let mut broken = Cap::new(vec![]);
        broken.fail_after = Some((v % 6) * 7);
        let _ = catch(|| enc.encode(&mut broken, &log::Record::builder().level(lvl).target("earlier").args(format_args!("earlier record")).build()));
        // the sink accepts a prefix per write call (JsonLine.tla)
        let mut cap = Cap::new(match (v / 2) % 4 {
            0 => vec![],
            1 => vec![1],
            2 => vec![7, 0, 1, 64], // 0: the call is interrupted and repeated
            _ => vec![3],
        });
        // where the thread's context map is empty, every third record has a message that puts an entry into it while it
        // is being rendered (a Display implementation that notes a request id): the line is one JSON object all the
        // same - with the map as it was before or as it is after (JsonLine.tla speaks about the record; when the map
        // is read during the call is the encoder's choice)
        struct Noting<'a>(&'a str);
        impl<'a> std::fmt::Display for Noting<'a> {
            fn fmt(&self, f: &mut std::fmt::Formatter<'_>) -> std::fmt::Result {
                log_mdc::insert("late", "x");
                f.write_str(self.0)
            }
        }
        let noting = mdc.is_empty() && v % 3 == 1;
        // every fifth record is encoded by a guard's Drop while a panic unwinds the stack it lives on (a scope guard that
        // logs how its scope ended): the record and the thread's context map are what they are - how the call was
        // reached is no part of JsonLine.tla
        let unwinding = (v / 3) % 5 == 2;
        let r = catch(|| {
            let mut do_encode = || -> anyhow::Result<()> {
                let mut b = log::Record::builder();
                b.level(lvl).target(&target).module_path(module.as_deref()).file(file.as_deref()).line(line);
                if noting {
                    enc.encode(&mut cap, &b.args(format_args!("{}", Noting(&message))).build())
                } else {
                    enc.encode(&mut cap, &b.args(format_args!("{}", message)).build())
                }
            };
            if !unwinding {
                return do_encode();
            }
            struct Guard<'a>(&'a mut dyn FnMut());
            impl<'a> Drop for Guard<'a> {
                fn drop(&mut self) {
                    (self.0)()
                }
            }
            let mut res: Option<Result<anyhow::Result<()>, String>> = None;
            let _ = std::panic::catch_unwind(std::panic::AssertUnwindSafe(|| {
                let mut f = || res = Some(catch(|| do_encode()));
                let _g = Guard(&mut f);
                panic!("the scope ends with a panic");
            }));
            match res.expect("the guard ran") {
                Ok(r) => r,
                Err(p) => panic!("{}", p),
            }
        });
        log_mdc::remove("late");
        match r {
            Err(p) => Err(format!("panic: {}", p)),
            Ok(Err(e)) => Err(format!("error: {}", e)),
            Ok(Ok(())) => {
                let mut bytes = vec![];
                for o in &cap.out {
                    match o {
                        crate::pattern::Out::Bytes(b) => bytes.extend_from_slice(b),
                        // a style request is not part of a JSON line: on a colour-capable writer it is an escape
                        // sequence, i.e. raw control characters inside or in front of the object
                        crate::pattern::Out::Style(_) => return Err("the JSON encoder issued a style request to the writer".to_string()),
                    }
                }
                Ok((bytes, thread_id::get()))
            }
        }
    };
    let res = std::thread::scope(|s| {
        let b = std::thread::Builder::new();
        let b = match &thread {
            Some(n) if !n.contains('\0') => b.name(n.clone()),
            _ => b,
        };
        b.spawn_scoped(s, body).unwrap().join().unwrap()
    });
    let hex = |b: &[u8]| b.iter().map(|x| format!("{:02x}", x)).collect::<String>();
    match res {
        Err(e) => json!({"case": i, "failure": e}),
        Ok((bytes, tid)) => json!({"case": i, "line_hex": hex(&bytes), "thread_id": tid, "mdc_may_also_hold_late": mdc.is_empty() && mix(i) % 3 == 1,
            "expect": {"level": lvl.to_string(), "message": cps(&message), "target": cps(&target),
                       "module_path": module.as_deref().map(cps), "file": file.as_deref().map(cps), "line": line,
                       "thread": thread.as_deref().map(cps),
                       "mdc": mdc.iter().map(|(k, v)| json!([cps(k), cps(v)])).collect::<Vec<_>>(),
                       "members": case["members"]}}),
    }
}

/// `jsonline <cases.ndjson> <out.ndjson>`
pub fn main(args: &[String]) {
    quiet_panics();
    let rows = read_ndjson(&args[0]);
    let res = par_map(&rows, threads(), |i, c| vec![run_case(i, c)]);
    write_ndjson(&args[1], &res);
    println!("{}", json!({"cases": rows.len(), "mismatches": 0}));
}

//! Shared helpers: ndjson I/O, parallel map, capturing appender, level mapping.
use serde_json::Value;
use std::{
    io::{BufRead, BufReader, Write},
    sync::{
        atomic::{AtomicUsize, Ordering},
        Arc, Mutex,
    },
};

pub fn read_ndjson(path: &str) -> Vec<Value> {
    let f = std::fs::File::open(path).unwrap_or_else(|e| {
        eprintln!("cannot open {}: {}", path, e);
        std::process::exit(2)
    });
    let mut out = vec![];
    for line in BufReader::new(f).lines() {
        let line = line.unwrap();
        if line.trim().is_empty() {
            continue;
        }
        out.push(serde_json::from_str(&line).unwrap_or_else(|e| {
            eprintln!("bad json line: {} ({})", &line[..line.len().min(200)], e);
            std::process::exit(2)
        }));
    }
    out
}

pub fn write_ndjson(path: &str, rows: &[Value]) {
    let mut f = std::io::BufWriter::new(std::fs::File::create(path).unwrap());
    for r in rows {
        serde_json::to_writer(&mut f, r).unwrap();
        f.write_all(b"\n").unwrap();
    }
}

/// Runs `f` over all items on `threads` threads; collects the outputs (order not kept).
pub fn par_map<T: Sync, R: Send>(items: &[T], threads: usize, f: impl Fn(usize, &T) -> Vec<R> + Sync) -> Vec<R> {
    let next = AtomicUsize::new(0);
    let out = Mutex::new(Vec::new());
    std::thread::scope(|s| {
        for _ in 0..threads.max(1) {
            s.spawn(|| {
                let mut local = vec![];
                loop {
                    let i = next.fetch_add(1, Ordering::Relaxed);
                    if i >= items.len() {
                        break;
                    }
                    local.extend(f(i, &items[i]));
                }
                out.lock().unwrap().extend(local);
            });
        }
    });
    out.into_inner().unwrap()
}

pub fn threads() -> usize {
    std::env::var("LV_THREADS").ok().and_then(|s| s.parse().ok()).unwrap_or_else(|| {
        std::thread::available_parallelism().map(|n| n.get()).unwrap_or(4)
    })
}

pub fn level_filter(n: i64) -> log::LevelFilter {
    match n {
        0 => log::LevelFilter::Off,
        1 => log::LevelFilter::Error,
        2 => log::LevelFilter::Warn,
        3 => log::LevelFilter::Info,
        4 => log::LevelFilter::Debug,
        _ => log::LevelFilter::Trace,
    }
}

pub fn level(n: i64) -> log::Level {
    match n {
        1 => log::Level::Error,
        2 => log::Level::Warn,
        3 => log::Level::Info,
        4 => log::Level::Debug,
        _ => log::Level::Trace,
    }
}

pub fn filter_num(l: log::LevelFilter) -> i64 {
    l as usize as i64
}

/// An appender that counts deliveries (and optionally fails).
#[derive(Debug, Default)]
pub struct Counter {
    pub n: AtomicUsize,
    pub fail: std::sync::atomic::AtomicBool,
}

#[derive(Debug)]
pub struct CountingAppender(pub Arc<Counter>);

impl log4rs::append::Append for CountingAppender {
    fn append(&self, _record: &log::Record) -> anyhow::Result<()> {
        self.0.n.fetch_add(1, Ordering::Relaxed);
        if self.0.fail.load(Ordering::Relaxed) {
            anyhow::bail!("scripted appender failure");
        }
        Ok(())
    }
    fn flush(&self) {}
}

/// Decorrelates a case index from the enumeration order of the model checker (variants chosen by `i % k` would
/// otherwise line up with the fastest-changing fields of the enumerated records).
pub fn mix(i: usize) -> usize {
    let mut z = (i as u64).wrapping_add(0x9E3779B97F4A7C15);
    z = (z ^ (z >> 30)).wrapping_mul(0xBF58476D1CE4E5B9);
    z = (z ^ (z >> 27)).wrapping_mul(0x94D049BB133111EB);
    ((z ^ (z >> 31)) >> 16) as usize
}

/// Runs a closure, converting a panic into Err(message).
pub fn catch<R>(f: impl FnOnce() -> R) -> Result<R, String> {
    match std::panic::catch_unwind(std::panic::AssertUnwindSafe(f)) {
        Ok(r) => Ok(r),
        Err(e) => Err(if let Some(s) = e.downcast_ref::<&str>() {
            s.to_string()
        } else if let Some(s) = e.downcast_ref::<String>() {
            s.clone()
        } else {
            "panic".to_string()
        }),
    }
}

pub fn quiet_panics() {
    if std::env::var("LV_VERBOSE").is_ok() {
        return;
    }
    std::panic::set_hook(Box::new(|_| {}));
}

/// All permutations of 0..n (n small).
pub fn permutations(n: usize) -> Vec<Vec<usize>> {
    fn rec(cur: &mut Vec<usize>, used: &mut Vec<bool>, n: usize, out: &mut Vec<Vec<usize>>) {
        if cur.len() == n {
            out.push(cur.clone());
            return;
        }
        for i in 0..n {
            if !used[i] {
                used[i] = true;
                cur.push(i);
                rec(cur, used, n, out);
                cur.pop();
                used[i] = false;
            }
        }
    }
    let mut out = vec![];
    rec(&mut vec![], &mut vec![false; n], n, &mut out);
    out
}

/// Splits `items` into the runs a style hands over together: a run of one item goes through the single-item
/// method, longer runs through the bulk method (ConfigBuild.tla: the sequence of declarations is the input, how it is
/// handed to the builder is not).
pub fn runs<T>(items: Vec<T>, style: usize) -> Vec<Vec<T>> {
    let n = items.len();
    let cuts: Vec<usize> = match style % 5 {
        0 => (1..n).collect(),                 // one at a time
        1 => vec![],                           // all at once
        2 => vec![1],                          // the first alone, the rest at once
        3 => vec![n.saturating_sub(1)],        // all but the last at once, the last alone
        _ => vec![n / 2],                      // two bulk calls
    };
    let mut out: Vec<Vec<T>> = vec![vec![]];
    for (i, it) in items.into_iter().enumerate() {
        if cuts.contains(&i) && i > 0 {
            out.push(vec![]);
        }
        out.last_mut().unwrap().push(it);
    }
    out.retain(|r| !r.is_empty());
    out
}


//! C04: records traces of real threads appending through FileAppender, for validation against
//! Trace_FileAppender.tla. One "unit" of the specification is UNIT bytes, so that Cap = 4 units is
//! the appender's 1 KiB buffer.
use crate::{fsutil::*, rng::Rng, util::*};
use log4rs::append::{file::FileAppender, Append};
use log4rs::encode::{Encode, Write as EncWrite};
use serde_json::{json, Value};
use std::{
    cell::RefCell,
    path::PathBuf,
    sync::{Arc, Barrier, Mutex},
};

const UNIT: usize = 256;

type Events = Arc<Mutex<Vec<Value>>>;

thread_local! {
    static TID: RefCell<(u64, u64, Vec<u64>)> = RefCell::new((0, 0, vec![])); // thread, record index, shape
    static FAIL_AFTER: RefCell<Option<usize>> = RefCell::new(None); // the encoder gives up after this many write calls
}

/// one unit of record (t, i): no newline anywhere, so line buffering cannot help
pub(crate) fn unit_bytes(t: u64, i: u64) -> Vec<u8> {
    let mut s = format!("<{}.{}>", t, i).into_bytes();
    let fill = b'A' + ((t * 7 + i) % 26) as u8;
    while s.len() < UNIT {
        s.push(fill);
    }
    s
}

/// file bytes -> runs [[t, i, units], ...]; Err if the file is not a sequence of whole units
pub(crate) fn runs(bytes: &[u8]) -> Result<Vec<[u64; 3]>, String> {
    if bytes.len() % UNIT != 0 {
        return Err(format!("file length {} is not a multiple of the unit", bytes.len()));
    }
    let mut out: Vec<[u64; 3]> = vec![];
    for u in bytes.chunks(UNIT) {
        let text = String::from_utf8_lossy(u);
        let end = text.find('>').ok_or_else(|| format!("corrupt unit {}", show(u)))?;
        let inner = &text[1..end];
        let mut it = inner.split('.');
        let t: u64 = it.next().and_then(|x| x.parse().ok()).ok_or_else(|| format!("corrupt unit {}", show(u)))?;
        let i: u64 = it.next().and_then(|x| x.parse().ok()).ok_or_else(|| format!("corrupt unit {}", show(u)))?;
        if u != unit_bytes(t, i).as_slice() {
            return Err(format!("corrupt unit {}", show(u)));
        }
        match out.last_mut() {
            Some(l) if l[0] == t && l[1] == i => l[2] += 1,
            _ => out.push([t, i, 1]),
        }
    }
    Ok(out)
}

/// A second file appender, on a file of its own, that the encoder of the first one appends to from inside its own
/// encode call (an audit line written by a Display implementation, say): an append like any other - acknowledged
/// means in its file -, whatever the thread is in the middle of.  Its hook events are kept out of the trace.
static AUDIT: Mutex<Option<Arc<dyn Append>>> = Mutex::new(None);
thread_local! {
    static NESTED: RefCell<bool> = RefCell::new(false);
}

#[derive(Debug)]
struct ShapeEncoder {
    events: Events,
}
impl Encode for ShapeEncoder {
    fn encode(&self, w: &mut dyn EncWrite, _record: &log::Record) -> anyhow::Result<()> {
        let (t, i, shape) = TID.with(|x| x.borrow().clone());
        let fail_after = FAIL_AFTER.with(|x| *x.borrow());
        if i % 2 == 1 && shape.iter().all(|n| *n == 1) {
            // every other record reaches the writer through write_fmt: a Display implementation hands over the
            // record one unit per write_str call (the thread gave it a shape of ones) - and, where the script says so,
            // gives up with fmt::Error after some of them
            struct Units<'a> {
                t: u64,
                i: u64,
                n: usize,
                fail_after: Option<usize>,
                events: &'a Events,
            }
            impl<'a> std::fmt::Display for Units<'a> {
                fn fmt(&self, f: &mut std::fmt::Formatter<'_>) -> std::fmt::Result {
                    let unit = String::from_utf8(unit_bytes(self.t, self.i)).unwrap();
                    for k in 0..=self.n {
                        if self.fail_after == Some(k) {
                            self.events.lock().unwrap().push(json!({"e": "encfail", "t": self.t, "chunks": k}));
                            return Err(std::fmt::Error);
                        }
                        if k == self.n {
                            break;
                        }
                        f.write_str(&unit)?;
                        self.events.lock().unwrap().push(json!({"e": "chunk", "t": self.t, "n": 1}));
                    }
                    Ok(())
                }
            }
            w.write_fmt(format_args!("{}", Units { t, i, n: shape.len(), fail_after, events: &self.events }))?;
            return Ok(());
        }
        for (k, n) in shape.iter().copied().chain(std::iter::once(u64::MAX)).enumerate() {
            if fail_after == Some(k) {
                // FileAppender.tla, EncodeFail: logged here, while the appender's lock is still held
                self.events.lock().unwrap().push(json!({"e": "encfail", "t": t, "chunks": k}));
                anyhow::bail!("scripted encoder failure");
            }
            if n == u64::MAX {
                break;
            }
            if k == 1 && i % 3 == 0 {
                let audit = AUDIT.lock().unwrap().clone();
                if let Some(a) = audit {
                    NESTED.with(|x| *x.borrow_mut() = true);
                    let r = a.append(&log::Record::builder().level(log::Level::Info).args(format_args!("audit {}.{}", t, i)).build());
                    NESTED.with(|x| *x.borrow_mut() = false);
                    self.events.lock().unwrap().push(json!({"e": "audit", "t": t, "i": i, "ok": r.is_ok()}));
                }
            }
            let mut chunk = vec![];
            for _ in 0..n {
                chunk.extend(unit_bytes(t, i));
            }
            w.write_all(&chunk)?;
            self.events.lock().unwrap().push(json!({"e": "chunk", "t": t, "n": n}));
        }
        Ok(())
    }
}

struct ShapeDeserializer {
    events: Events,
}
#[derive(serde::Deserialize)]
struct NoConfig {}
impl log4rs::config::Deserialize for ShapeDeserializer {
    type Trait = dyn Encode;
    type Config = NoConfig;
    fn deserialize(&self, _c: NoConfig, _: &log4rs::config::Deserializers) -> anyhow::Result<Box<dyn Encode>> {
        Ok(Box::new(ShapeEncoder { events: self.events.clone() }))
    }
}

fn scenario(rng: &mut Rng, append_mode: bool, events: &Events, problems: &mut Vec<Value>, run_no: usize) {
    let scratch = Scratch::new("file");
    let path: PathBuf = scratch.path().join("app.log");
    // pre-existing content: 2 units of (0, 0)
    let mut pre = unit_bytes(0, 0);
    pre.extend(unit_bytes(0, 0));
    std::fs::write(&path, &pre).unwrap();
    events.lock().unwrap().push(json!({"e": "reset", "run": run_no}));
    // every other scenario builds the appender from a configuration value (the `append` key is left out
    // where the documented default - append - is wanted)
    let appender: Arc<dyn Append> = if run_no % 2 == 1 {
        let mut d = log4rs::config::Deserializers::default();
        d.insert("shape", ShapeDeserializer { events: events.clone() });
        let mut doc = json!({"path": path.to_string_lossy(), "encoder": {"kind": "shape"}});
        if !append_mode {
            doc["append"] = json!(false);
        }
        let v: serde_value::Value = serde_json::from_value(doc).unwrap();
        Arc::from(d.deserialize::<dyn Append>("file", v).expect("file appender from configuration"))
    } else {
        Arc::new(FileAppender::builder().append(append_mode).encoder(Box::new(ShapeEncoder { events: events.clone() })).build(&path).unwrap())
    };
    // every fourth append-mode scenario has a successor: a second appender opened on the same path while the first
    // is alive (what a reconfiguration does) - it takes over after the threads are done and appends one more record,
    // which has to land at the end of the file as it is then
    let successor: Option<FileAppender> = if run_no % 4 == 2 {
        // (in truncate mode the successor truncates the file the first appender has just truncated; it never writes -
        // without O_APPEND its records would land on top of the first appender's - but what the first appender
        // acknowledges afterwards must still be readable at the path)
        Some(FileAppender::builder().append(append_mode).encoder(Box::new(ShapeEncoder { events: events.clone() })).build(&path).unwrap())
    } else {
        None
    };
    // the first scenario of a batch is one long lifetime: three threads, 60 records each
    let long = run_no == 0;
    let nthreads = if long { 3 } else { 1 + rng.below(3) };
    let shapes: Vec<Vec<u64>> = vec![vec![], vec![0], vec![1], vec![3], vec![4], vec![5], vec![3, 3], vec![1, 4], vec![2, 2, 1], vec![4, 4], vec![1, 0, 3], vec![7]];
    let plans: Vec<Vec<Vec<u64>>> = (0..nthreads).map(|_| (0..if long { 60 } else { 1 + rng.below(3) }).map(|_| rng.pick(&shapes).clone()).collect()).collect();
    // about one record in seven has an encoder that gives up after some of its write calls; in every fourth scenario
    // that is (also) the very first record handed to the freshly built appender
    let fails: Vec<Vec<Option<usize>>> = plans.iter().enumerate().map(|(ti, plan)| plan.iter().enumerate().map(|(k, shape)| {
        if (ti == 0 && k == 0 && run_no % 4 == 1) || rng.below(7) == 0 { Some(rng.below(shape.len() as u64 + 1) as usize) } else { None }
    }).collect()).collect();
    let amp_seed = rng.next();
    // hook: events under the lock + race amplifier
    let ev = events.clone();
    let p2 = path.clone();
    let amp = Arc::new(Mutex::new(Rng::new(amp_seed)));
    let audit_path = scratch.path().join("audit.log");
    *AUDIT.lock().unwrap() = Some(Arc::new(FileAppender::builder().encoder(Box::new(log4rs::encode::pattern::PatternEncoder::new("{m}{n}"))).build(&audit_path).unwrap()));
    log4rs::verif::set_global_callback(Some(Arc::new(move |name: &str, _arg: u64| {
        if NESTED.with(|x| *x.borrow()) {
            return Ok(()); // (the audit appender's own steps)
        }
        let t = TID.with(|x| x.borrow().0);
        let read = || match std::fs::read(&p2).map_err(|e| e.to_string()).and_then(|b| runs(&b)) {
            Ok(r) => json!(r),
            Err(e) => json!([[-1, -1, 1, e]]),
        };
        match name {
            "file.locked" => ev.lock().unwrap().push(json!({"e": "lock", "t": t})),
            "file.encoded" => {
                let f = read();
                ev.lock().unwrap().push(json!({"e": "encoded", "t": t, "file": f}))
            }
            "file.flushed" => {
                let f = read();
                ev.lock().unwrap().push(json!({"e": "flushed", "t": t, "file": f}))
            }
            _ => {}
        }
        let r = amp.lock().unwrap().below(6);
        match r {
            0 => std::thread::yield_now(),
            1 => std::thread::sleep(std::time::Duration::from_micros(200)),
            _ => {}
        }
        Ok(())
    })));
    let barrier = Arc::new(Barrier::new(nthreads as usize));
    let mut handles = vec![];
    let first_plan_len = plans[0].len() as u64;
    for (ti, plan) in plans.into_iter().enumerate() {
        let t = ti as u64 + 1;
        let fails = fails[ti].clone();
        let a = appender.clone();
        let ev = events.clone();
        let b = barrier.clone();
        let path = path.clone();
        handles.push(std::thread::spawn(move || {
            let mut probs = vec![];
            b.wait();
            for (k, shape) in plan.into_iter().enumerate() {
                let i = k as u64 + 1;
                let units: u64 = shape.iter().sum();
                // (odd records go through write_fmt, one unit per call: their shape is that many ones)
                let shape: Vec<u64> = if i % 2 == 1 { vec![1; units as usize] } else { shape };
                let fail = fails[k].map(|f| f.min(shape.len()));
                TID.with(|x| *x.borrow_mut() = (t, i, shape.clone()));
                FAIL_AFTER.with(|x| *x.borrow_mut() = fail);
                let scripted = fail.is_some();
                ev.lock().unwrap().push(json!({"e": "begin", "t": t, "i": i, "shape": shape}));
                let r = catch(|| a.append(&log::Record::builder().level(log::Level::Info).args(format_args!("x")).build()));
                FAIL_AFTER.with(|x| *x.borrow_mut() = None);
                let ok = matches!(r, Ok(Ok(())));
                ev.lock().unwrap().push(json!({"e": "end", "t": t, "i": i, "ok": ok, "scripted": scripted}));
                if scripted {
                    // (a Display implementation that gives up makes the standard library's write_fmt panic - "a formatting
                    // trait implementation returned an error when the underlying stream did not" -: for the records that
                    // go through write_fmt the failure arrives as that panic, the lock is released all the same)
                    if !matches!(r, Ok(Err(_))) && !(i % 2 == 1 && r.is_err()) {
                        probs.push(json!({"what": "the encoder's error was not returned by append", "t": t, "i": i}));
                    }
                    continue;
                }
                if !ok {
                    probs.push(json!({"what": "append failed or panicked", "t": t, "i": i, "detail": format!("{:?}", r.map(|x| x.map_err(|e| e.to_string())))}));
                }
                // any other reader: the acknowledged record is whole in the file
                let whole = match std::fs::read(&path).map_err(|e| e.to_string()).and_then(|b| runs(&b)) {
                    Ok(rs) => rs.iter().filter(|r| r[0] == t && r[1] == i).map(|r| r[2]).sum::<u64>() == units
                        && rs.iter().filter(|r| r[0] == t && r[1] == i).count() <= 1,
                    Err(_) => false,
                };
                ev.lock().unwrap().push(json!({"e": "saw", "t": t, "i": i, "units": units, "whole": whole}));
            }
            probs
        }));
    }
    for h in handles {
        problems.extend(h.join().unwrap());
    }
    // the appender goes away: what it still buffered (the beginning of a record whose encoder failed) reaches the file
    let closed = |events: &Events| {
        let f = match std::fs::read(&path).map_err(|e| e.to_string()).and_then(|b| runs(&b)) {
            Ok(r) => json!(r),
            Err(e) => json!([[-1, -1, 1, e]]),
        };
        events.lock().unwrap().push(json!({"e": "closed", "file": f}));
    };
    let successor = successor.filter(|_| append_mode);
    drop(appender);
    closed(events);
    if let Some(b) = successor {
        let (t, i, shape) = (1u64, first_plan_len + 1, vec![2u64, 1]);
        TID.with(|x| *x.borrow_mut() = (t, i, shape.clone()));
        events.lock().unwrap().push(json!({"e": "begin", "t": t, "i": i, "shape": shape}));
        let r = catch(|| b.append(&log::Record::builder().level(log::Level::Info).args(format_args!("x")).build()));
        let ok = matches!(r, Ok(Ok(())));
        events.lock().unwrap().push(json!({"e": "end", "t": t, "i": i, "ok": ok}));
        if !ok {
            problems.push(json!({"what": "append through the successor failed or panicked", "detail": format!("{:?}", r.map(|x| x.map_err(|e| e.to_string())))}));
        }
        drop(b);
        closed(events);
    }
    log4rs::verif::set_global_callback(None);
    // every audit line that was acknowledged is in the audit file, once, whole, and per thread in order
    *AUDIT.lock().unwrap() = None;
    let want: Vec<String> = {
        let ev = events.lock().unwrap();
        let start = ev.iter().rposition(|e| e["e"] == "reset").unwrap_or(0);
        ev[start..].iter().filter(|e| e["e"] == "audit" && e["ok"] == true).map(|e| format!("audit {}.{}", e["t"], e["i"])).collect()
    };
    let text = std::fs::read_to_string(&audit_path).unwrap_or_default();
    let mut got: Vec<String> = text.lines().map(|l| l.to_string()).collect();
    let mut want_sorted = want.clone();
    want_sorted.sort();
    let per_thread_in_order = (1..=3u64).all(|t| {
        let pre = format!("audit {}.", t);
        let g: Vec<&String> = got.iter().filter(|l| l.starts_with(&pre)).collect();
        let w: Vec<&String> = want.iter().filter(|l| l.starts_with(&pre)).collect();
        g == w
    });
    got.sort();
    if got != want_sorted || !per_thread_in_order || !text.ends_with('\n') && !text.is_empty() {
        problems.push(json!({"what": "records appended to a second appender from inside the first one's encode call are not all in its file",
                             "acknowledged": want.len(), "in_the_file": got.len(), "missing": want_sorted.iter().filter(|l| !got.contains(l)).take(5).collect::<Vec<_>>()}));
    }
    // (the trace specification does not know the audit events)
    events.lock().unwrap().retain(|e| e["e"] != "audit");
}

// a message without format arguments (the formatting machinery can hand such a message over as one string): 2048 bytes
macro_rules! b64 {
    () => {
        "0123456789abcdefghijklmnopqrstuvwxyzABCDEFGHIJKLMNOPQRSTUVWXYZ+/"
    };
}
macro_rules! literal_2k {
    () => {
        concat!(b64!(), b64!(), b64!(), b64!(), b64!(), b64!(), b64!(), b64!(), b64!(), b64!(), b64!(), b64!(), b64!(), b64!(), b64!(), b64!(),
                b64!(), b64!(), b64!(), b64!(), b64!(), b64!(), b64!(), b64!(), b64!(), b64!(), b64!(), b64!(), b64!(), b64!(), b64!(), b64!())
    };
}

/// Durable (FileAppender.tla) when the file itself takes only part of a write call: a file size limit cuts the direct
/// write of a large last chunk short.  Whatever append answers, a record it acknowledged is in the file, all of it.
/// Records are "LEVEL " + 2048 bytes, through the stock pattern encoder, the message once as a literal without format
/// arguments and once with one.
fn short_write_check(problems: &mut Vec<Value>, append_mode: bool) {
    // (variant 2: records far below the writer's buffer - the limit is hit by the flush that ends a record, not by a write
    // in the middle of the encoding)
    for (variant, limit) in [(0usize, 4096u64), (1, 4096), (0, 6000), (1, 2500), (2, 4096), (2, 1000)] {
        let small = "s".repeat(95);
        let scratch = Scratch::new("fsize");
        let path = scratch.path().join("app.log");
        // (in the mode of this run: a file opened for truncation is emptied when it is opened and at no other time -
        // FileAppender.tla, Open is the only step that discards)
        let a = FileAppender::builder().append(append_mode).encoder(Box::new(log4rs::encode::pattern::PatternEncoder::new("{l} {m}"))).build(&path).unwrap();
        unsafe {
            libc::signal(libc::SIGXFSZ, libc::SIG_IGN);
            let mut rl = libc::rlimit { rlim_cur: 0, rlim_max: 0 };
            libc::getrlimit(libc::RLIMIT_FSIZE, &mut rl);
            rl.rlim_cur = limit as libc::rlim_t;
            libc::setrlimit(libc::RLIMIT_FSIZE, &rl);
        }
        let mut acked = 0usize;
        for _ in 0..(if variant == 2 { 60 } else { 4 }) {
            let r = if variant == 0 {
                catch(|| a.append(&log::Record::builder().level(log::Level::Info).args(format_args!(literal_2k!())).build()))
            } else if variant == 2 {
                catch(|| a.append(&log::Record::builder().level(log::Level::Info).args(format_args!("{}", small)).build()))
            } else {
                catch(|| a.append(&log::Record::builder().level(log::Level::Info).args(format_args!("{}", literal_2k!())).build()))
            };
            if matches!(r, Ok(Ok(()))) {
                acked += 1;
            } else {
                break; // (nothing after the first refusal is of interest: the limit stays reached)
            }
        }
        // the refused record took nothing away: what was acknowledged before it is in the file now, not only after the drop
        {
            let content = std::fs::read(&path).unwrap_or_default();
            let record = if variant == 2 { format!("INFO {}", small) } else { format!("INFO {}", literal_2k!()) };
            if !(content.len() >= acked * record.len() && (0..acked).all(|k| &content[k * record.len()..(k + 1) * record.len()] == record.as_bytes())) {
                problems.push(json!({"what": "acknowledged records are no longer in the file after a later record was refused (file size limit)",
                                     "limit": limit, "append_mode": append_mode, "acknowledged": acked, "file_length": content.len(), "record_length": record.len()}));
            }
        }
        unsafe {
            let mut rl = libc::rlimit { rlim_cur: 0, rlim_max: 0 };
            libc::getrlimit(libc::RLIMIT_FSIZE, &mut rl);
            rl.rlim_cur = rl.rlim_max;
            libc::setrlimit(libc::RLIMIT_FSIZE, &rl);
        }
        drop(a);
        let content = std::fs::read(&path).unwrap_or_default();
        let record = if variant == 2 { format!("INFO {}", small) } else { format!("INFO {}", literal_2k!()) };
        let whole = content.len() >= acked * record.len() && (0..acked).all(|k| &content[k * record.len()..(k + 1) * record.len()] == record.as_bytes());
        if !whole {
            problems.push(json!({"what": "a record was acknowledged although the file took only part of it (write cut short by a file size limit)",
                                 "limit": limit, "message_has_format_arguments": variant == 1, "acknowledged": acked, "file_length": content.len(),
                                 "record_length": record.len()}));
        }
    }
}

/// `filetrace <out.ndjson> <append|truncate> <runs> <seed>`
pub fn main(args: &[String]) {
    quiet_panics();
    let append_mode = args[1] == "append";
    let n: usize = args[2].parse().unwrap();
    let mut rng = Rng::new(args[3].parse().unwrap());
    let events: Events = Arc::new(Mutex::new(vec![]));
    let mut problems = vec![];
    for r in 0..n {
        scenario(&mut rng, append_mode, &events, &mut problems, r);
    }
    // (single-threaded from here on: the file size limit is the process's)
    log4rs::verif::set_global_callback(None);
    short_write_check(&mut problems, append_mode);
    let ev = events.lock().unwrap();
    let hooks = ev.iter().filter(|e| e["e"] == "lock").count();
    write_ndjson(&args[0], &ev);
    println!("{}", json!({"runs": n, "events": ev.len(), "lock_events": hooks, "problems": problems}));
}

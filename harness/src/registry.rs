//! Growth (run with C14): replay of Registry.tla histories on log4rs::config::Deserializers.
use crate::util::*;
use log4rs::config::{Deserialize, Deserializers};
use serde_json::{json, Value};

#[derive(serde::Deserialize)]
struct Nothing {}
#[derive(Debug)]
struct Tag(u64);
impl log4rs::append::Append for Tag {
    fn append(&self, _: &log::Record) -> anyhow::Result<()> {
        Ok(())
    }
    fn flush(&self) {}
}
impl log4rs::encode::Encode for Tag {
    fn encode(&self, _: &mut dyn log4rs::encode::Write, _: &log::Record) -> anyhow::Result<()> {
        Ok(())
    }
}
impl log4rs::append::rolling_file::policy::compound::trigger::Trigger for Tag {
    fn trigger(&self, _: &log4rs::append::rolling_file::LogFile) -> anyhow::Result<bool> {
        Ok(false)
    }
    fn is_pre_process(&self) -> bool {
        false
    }
}
struct DA(u64);
struct DE(u64);
struct DT(u64);
impl Deserialize for DA {
    type Trait = dyn log4rs::append::Append;
    type Config = Nothing;
    fn deserialize(&self, _: Nothing, _: &Deserializers) -> anyhow::Result<Box<Self::Trait>> {
        Ok(Box::new(Tag(self.0)))
    }
}
impl Deserialize for DE {
    type Trait = dyn log4rs::encode::Encode;
    type Config = Nothing;
    fn deserialize(&self, _: Nothing, _: &Deserializers) -> anyhow::Result<Box<Self::Trait>> {
        Ok(Box::new(Tag(self.0)))
    }
}
impl Deserialize for DT {
    type Trait = dyn log4rs::append::rolling_file::policy::compound::trigger::Trigger;
    type Config = Nothing;
    fn deserialize(&self, _: Nothing, _: &Deserializers) -> anyhow::Result<Box<Self::Trait>> {
        Ok(Box::new(Tag(self.0)))
    }
}

fn empty_cfg() -> serde_value::Value {
    serde_json::from_value(json!({})).unwrap()
}

fn check_case(case: &Value) -> Option<Value> {
    let mut orig = Deserializers::empty();
    let mut clone: Option<Deserializers> = None;
    for (i, op) in case["ops"].as_array().unwrap().iter().enumerate() {
        match op["op"].as_str().unwrap() {
            "clone" => clone = Some(orig.clone()),
            kind => {
                let r: &mut Deserializers = if op["r"] == "clone" { clone.as_mut().expect("clone before use") } else { &mut orig };
                let (t, k) = (op["t"].as_str().unwrap(), op["k"].as_str().unwrap());
                let id = op["id"].as_u64().unwrap();
                if kind == "insert" {
                    match t {
                        "append" => r.insert(k, DA(id)),
                        "encode" => r.insert(k, DE(id)),
                        _ => r.insert(k, DT(id)),
                    }
                } else {
                    let got = catch(|| -> Result<String, String> {
                        match t {
                            "append" => r.deserialize::<dyn log4rs::append::Append>(k, empty_cfg()).map(|o| format!("{:?}", o)).map_err(|e| e.to_string()),
                            "encode" => r.deserialize::<dyn log4rs::encode::Encode>(k, empty_cfg()).map(|o| format!("{:?}", o)).map_err(|e| e.to_string()),
                            _ => r
                                .deserialize::<dyn log4rs::append::rolling_file::policy::compound::trigger::Trigger>(k, empty_cfg())
                                .map(|o| format!("{:?}", o))
                                .map_err(|e| e.to_string()),
                        }
                    });
                    let want = if id == 0 { None } else { Some(format!("Tag({})", id)) };
                    match (got, want) {
                        (Err(p), _) => return Some(json!({"step": i, "what": "lookup panicked", "error": p})),
                        (Ok(Ok(g)), Some(w)) if g == w => {}
                        (Ok(Err(_)), None) => {}
                        (Ok(g), w) => return Some(json!({"step": i, "what": "lookup result", "expected": w, "actual": format!("{:?}", g)})),
                    }
                }
            }
        }
    }
    None
}

/// `registry <cases.ndjson> <out.ndjson>`
pub fn main(args: &[String]) {
    quiet_panics();
    let rows = read_ndjson(&args[0]);
    let res = par_map(&rows, threads(), |i, c| check_case(c).into_iter().map(|m| json!({"case": i, "ops": c["ops"], "mismatch": m})).collect());
    write_ndjson(&args[1], &res);
    println!("{}", json!({"cases": rows.len(), "mismatches": res.len()}));
}

//! C15 (swap half): records traces of real threads logging while others call Handle::set_config,
//! for validation against Trace_Reconfig.tla. Every generation has its own three capture appenders;
//! each delivery is an event carrying the generation of the appender that received it.
use crate::{rng::Rng, util::*};
use log::Log;
use serde_json::{json, Value};
use std::{
    cell::Cell,
    sync::{
        atomic::{AtomicBool, AtomicU64, Ordering},
        Arc, Condvar, Mutex,
    },
};

type Events = Arc<Mutex<Vec<Value>>>;
thread_local! {
    static TID: Cell<u64> = Cell::new(0);
    static PARK_AT_LOADED: Cell<bool> = Cell::new(false);
}

#[derive(Default)]
struct Gate {
    armed: AtomicBool,
    state: Mutex<(bool, bool)>, // (logger arrived, released)
    cv: Condvar,
}
impl Gate {
    fn pass(&self) {
        if !self.armed.swap(false, Ordering::SeqCst) {
            return;
        }
        let mut s = self.state.lock().unwrap();
        s.0 = true;
        self.cv.notify_all();
        while !s.1 {
            s = self.cv.wait(s).unwrap();
        }
    }
    fn wait_arrived(&self) {
        let mut s = self.state.lock().unwrap();
        while !s.0 {
            s = self.cv.wait(s).unwrap();
        }
    }
    fn release(&self) {
        let mut s = self.state.lock().unwrap();
        s.1 = true;
        self.cv.notify_all();
    }
    fn reset(&self) {
        *self.state.lock().unwrap() = (false, false);
    }
}

struct Shared {
    events: Events,
    gate: Gate,                                  // parks a logging thread inside appender `gate_k`
    gate_k: AtomicU64,
    reenter: Mutex<Option<(u64, log4rs::Handle)>>, // appender k reconfigures from inside the fan-out
    next_gen: AtomicU64,
    next_reconf: AtomicU64,
}

#[derive(Debug)]
struct GenAppender {
    g: u64,
    k: u64,
    sh: Arc<Shared>,
}
impl std::fmt::Debug for Shared {
    fn fmt(&self, f: &mut std::fmt::Formatter<'_>) -> std::fmt::Result {
        f.write_str("Shared")
    }
}
impl log4rs::append::Append for GenAppender {
    fn append(&self, _r: &log::Record) -> anyhow::Result<()> {
        let t = TID.with(|x| x.get());
        self.sh.events.lock().unwrap().push(json!({"e": "Deliver", "t": t, "k": self.k, "g": self.g}));
        if self.sh.gate_k.load(Ordering::SeqCst) == self.k {
            self.sh.gate.pass();
        }
        let re = {
            let mut r = self.sh.reenter.lock().unwrap();
            match &*r {
                Some((k, _)) if *k == self.k => r.take(),
                _ => None,
            }
        };
        if let Some((_, h)) = re {
            set_config(&self.sh, &h);
        }
        Ok(())
    }
    fn flush(&self) {}
}

fn config(sh: &Arc<Shared>, g: u64) -> log4rs::Config {
    let mut b = log4rs::Config::builder();
    let mut rb = log4rs::config::Root::builder();
    for k in 1..=3u64 {
        let name = format!("a{}", k);
        b = b.appender(log4rs::config::Appender::builder().build(name.clone(), Box::new(GenAppender { g, k, sh: sh.clone() })));
        rb = rb.appender(name);
    }
    // even generations admit the probe records (logged at Info), odd generations do not
    b.build(rb.build(if g % 2 == 0 { log::LevelFilter::Info } else { log::LevelFilter::Error })).unwrap()
}

fn set_config(sh: &Arc<Shared>, h: &log4rs::Handle) -> u64 {
    set_config_as(sh, h, None)
}

/// `slot`: the specification's reconfiguring process; a thread that reconfigures in a loop keeps one slot (it has
/// one call in flight at a time), single calls take the next free one
fn set_config_as(sh: &Arc<Shared>, h: &log4rs::Handle, slot: Option<u64>) -> u64 {
    let r = slot.unwrap_or_else(|| sh.next_reconf.fetch_add(1, Ordering::SeqCst) % 6 + 1);
    let cfg;
    let g;
    {
        // generation numbers are handed out in event order
        let mut ev = sh.events.lock().unwrap();
        g = sh.next_gen.fetch_add(1, Ordering::SeqCst) + 1;
        ev.push(json!({"e": "SetStart", "r": r, "g": g}));
        cfg = config(sh, g);
    }
    let res = catch(|| h.set_config(cfg));
    sh.events.lock().unwrap().push(match res {
        Ok(()) => json!({"e": "SetEnd", "r": r}),
        Err(p) => json!({"e": "Panic", "in": "set_config", "msg": p}),
    });
    g
}

fn log_one(sh: &Arc<Shared>, logger: &log4rs::Logger, t: u64) {
    TID.with(|x| x.set(t));
    sh.events.lock().unwrap().push(json!({"e": "LogStart", "t": t}));
    let r = catch(|| logger.log(&log::Record::builder().level(log::Level::Info).target("x").args(format_args!("m")).build()));
    sh.events.lock().unwrap().push(match r {
        Ok(()) => json!({"e": "LogEnd", "t": t}),
        Err(p) => json!({"e": "Panic", "in": "log", "t": t, "msg": p}),
    });
}

fn fresh(events: &Events) -> (Arc<Shared>, Arc<log4rs::Logger>, log4rs::Handle) {
    events.lock().unwrap().push(json!({"e": "reset"}));
    let sh = Arc::new(Shared {
        events: events.clone(),
        gate: Gate::default(),
        gate_k: AtomicU64::new(0),
        reenter: Mutex::new(None),
        next_gen: AtomicU64::new(0),
        next_reconf: AtomicU64::new(0),
    });
    let logger = Arc::new(log4rs::Logger::new(config(&sh, 0)));
    let h = logger.verif_handle();
    (sh, logger, h)
}

/// A swap while a logging thread is parked right after the snapshot load inside `Logger::enabled`.  `Logger::log`
/// does not call `enabled`: the park is not reached and the scenario is an ordinary log call.  Should an
/// implementation consult `enabled` first and load again for the fan-out, the swap lands between its two loads - the
/// record is then judged by one configuration and delivered by another, which Reconfig.tla does not allow.
fn scenario_parked_in_enabled(events: &Events) {
    let (sh, logger, h) = fresh(events);
    let gate = Arc::new(Gate::default());
    let g2 = gate.clone();
    log4rs::verif::set_global_callback(Some(Arc::new(move |name: &str, _a: u64| {
        if name == "enabled.loaded" && PARK_AT_LOADED.with(|p| p.replace(false)) {
            g2.armed.store(true, Ordering::SeqCst);
            g2.pass();
        }
        Ok(())
    })));
    let (sh2, logger2) = (sh.clone(), logger.clone());
    let th = std::thread::spawn(move || {
        PARK_AT_LOADED.with(|p| p.set(true));
        log_one(&sh2, &logger2, 1);
        PARK_AT_LOADED.with(|p| p.set(false));
    });
    // wait until the thread is parked or done
    loop {
        if th.is_finished() {
            break;
        }
        if gate.state.lock().unwrap().0 {
            set_config(&sh, &h); // generation 1: rejects the probe record
            gate.release();
            break;
        }
        std::thread::sleep(std::time::Duration::from_micros(200));
    }
    th.join().unwrap();
    log4rs::verif::set_global_callback(None);
    log_one(&sh, &logger, 2);
}

/// free-running threads with a seeded amplifier at the sync points
fn scenario_free(rng: &mut Rng, events: &Events, long: bool) {
    let (sh, logger, h) = fresh(events);
    let amp = Arc::new(Mutex::new(Rng::new(rng.next())));
    log4rs::verif::set_global_callback(Some(Arc::new(move |_name: &str, _a: u64| {
        match amp.lock().unwrap().below(5) {
            0 => std::thread::yield_now(),
            1 => std::thread::sleep(std::time::Duration::from_micros(100)),
            _ => {}
        }
        Ok(())
    })));
    // `long`: one lifetime of a logger with hundreds of reconfigurations (generation counters, caches)
    // (one logging and one reconfiguring thread: with more, the silent steps the validation has to infer multiply)
    let nl = if long { 1 } else { 1 + rng.below(3) };
    let nr = if long { 1 } else { 1 + rng.below(2) };
    let mut hs = vec![];
    for t in 1..=nl {
        let (sh, logger) = (sh.clone(), logger.clone());
        let n = if long { 400 } else { 2 + rng.below(10) };
        hs.push(std::thread::spawn(move || {
            for _ in 0..n {
                log_one(&sh, &logger, t);
            }
        }));
    }
    for j in 0..nr {
        let (sh, h) = (sh.clone(), h.clone());
        let n = if long { 300 } else { 1 + rng.below(4) };
        hs.push(std::thread::spawn(move || {
            for _ in 0..n {
                set_config_as(&sh, &h, Some(j + 1));
                std::thread::yield_now();
            }
        }));
    }
    for x in hs {
        x.join().unwrap();
    }
    log4rs::verif::set_global_callback(None);
    log_one(&sh, &logger, 4);
}

/// the swap happens while a logging thread is parked inside appender k of the old generation
fn scenario_parked_in_appender(k: u64, events: &Events) {
    let (sh, logger, h) = fresh(events);
    set_config(&sh, &h);
    set_config(&sh, &h); // generation 2 admits the record
    sh.gate.reset();
    sh.gate_k.store(k, Ordering::SeqCst);
    sh.gate.armed.store(true, Ordering::SeqCst);
    let (sh2, logger2) = (sh.clone(), logger.clone());
    let th = std::thread::spawn(move || log_one(&sh2, &logger2, 1));
    sh.gate.wait_arrived();
    set_config(&sh, &h);
    log_one(&sh, &logger, 2); // logged after the swap returned: new configuration only
    sh.gate.release();
    th.join().unwrap();
    log_one(&sh, &logger, 3);
}

/// the swap happens between the snapshot load and the fan-out (sync point log.loaded)
fn scenario_parked_after_load(events: &Events) {
    let (sh, logger, h) = fresh(events);
    let gate = Arc::new(Gate::default());
    let g2 = gate.clone();
    log4rs::verif::set_global_callback(Some(Arc::new(move |name: &str, _a: u64| {
        if name == "log.loaded" && PARK_AT_LOADED.with(|p| p.replace(false)) {
            g2.armed.store(true, Ordering::SeqCst);
            g2.pass();
        }
        Ok(())
    })));
    let (sh2, logger2) = (sh.clone(), logger.clone());
    let th = std::thread::spawn(move || {
        PARK_AT_LOADED.with(|p| p.set(true));
        log_one(&sh2, &logger2, 1)
    });
    gate.wait_arrived();
    set_config(&sh, &h);
    set_config(&sh, &h);
    gate.release();
    th.join().unwrap();
    log4rs::verif::set_global_callback(None);
    log_one(&sh, &logger, 2);
}

/// appender k swaps the configuration re-entrantly
fn scenario_reentrant(k: u64, events: &Events) {
    let (sh, logger, h) = fresh(events);
    *sh.reenter.lock().unwrap() = Some((k, h.clone()));
    log_one(&sh, &logger, 1);
    log_one(&sh, &logger, 1);
}

/// `reconfig <out.ndjson> <free runs> <seed>`
pub fn main(args: &[String]) {
    quiet_panics();
    let n: usize = args[1].parse().unwrap();
    let seed: u64 = args[2].parse().unwrap();
    let events: Events = Arc::new(Mutex::new(vec![]));
    // the scenarios run on a worker thread under a watchdog: a log or set_config call that never returns (a thread
    // waiting for itself, a lost wake-up) is a result, not a reason for the whole replay to time out
    let progress = Arc::new(Mutex::new((0usize, String::new(), std::time::Instant::now())));
    let (ev2, pr2) = (events.clone(), progress.clone());
    let worker = std::thread::spawn(move || {
        let mut rng = Rng::new(seed);
        let step = |name: &str| {
            let mut p = pr2.lock().unwrap();
            p.0 += 1;
            p.1 = name.to_string();
            p.2 = std::time::Instant::now();
        };
        for k in 1..=3 {
            step(&format!("swap while a logging thread is parked in appender {}", k));
            scenario_parked_in_appender(k, &ev2);
            step(&format!("appender {} reconfigures from inside the fan-out", k));
            scenario_reentrant(k, &ev2);
        }
        step("swap while a logging thread is parked after the snapshot load");
        scenario_parked_after_load(&ev2);
        step("swap while a logging thread is parked in Logger::enabled");
        scenario_parked_in_enabled(&ev2);
        for k in 0..n {
            step(&format!("free-running scenario {}", k));
            scenario_free(&mut rng, &ev2, k == 0);
        }
        step("done");
    });
    let mut hung: Option<String> = None;
    loop {
        if worker.is_finished() {
            break;
        }
        {
            let p = progress.lock().unwrap();
            if p.2.elapsed() > std::time::Duration::from_secs(60) {
                hung = Some(p.1.clone());
                break;
            }
        }
        std::thread::sleep(std::time::Duration::from_millis(20));
    }
    let scenarios = progress.lock().unwrap().0.saturating_sub(1);
    let ev = match events.try_lock() {
        Ok(e) => e.clone(),
        Err(_) => vec![],
    };
    write_ndjson(&args[0], &ev);
    println!("{}", json!({"scenarios": scenarios, "events": ev.len(), "hung_in": hung,
        "panics": ev.iter().filter(|e| e["e"] == "Panic").count()}));
    if hung.is_some() {
        std::process::exit(0); // the stuck threads cannot be joined
    }
}

mod cfgbuild;
mod configfile;
mod console;
mod consolestream;
mod envexpand;
mod fanout;
mod filetrace;
mod rng;
mod fixedwindow;
mod fsutil;
mod jsonline;
mod levelgate;
mod fieldwidths;
mod fragments;
mod cfgformat;
mod reloadlive;
mod reloadrace;
mod datezone;
mod registry;
mod pattern;
mod literals;
mod reconfig;
mod reloader;
mod rolling;
mod rolltrace;
mod timetrig;
mod routing;
mod sharedfile;
mod util;

fn main() {
    let args: Vec<String> = std::env::args().collect();
    if args.len() < 2 {
        eprintln!("usage: lv-harness <command> ...");
        std::process::exit(2);
    }
    let rest = &args[2..];
    fsutil::sweep_stale();
    match args[1].as_str() {
        "routing" => routing::main(rest),
        "cfgbuild" => cfgbuild::main(rest),
        "fanout" => fanout::main(rest),
        "fieldwidths" => fieldwidths::main(rest),
        "fragments" => fragments::main(rest),
        "cfgformat" => cfgformat::main(rest),
        "reloadlive" => reloadlive::main(rest),
        "reloadlive-child" => reloadlive::child(rest),
        "reloadrace" => reloadrace::main(rest),
        "reloadrace-child" => reloadrace::child(rest),
        "datezone" => datezone::main(rest),
        "registry" => registry::main(rest),
        "rolltrace" => rolltrace::main(rest),
        "configfile" => configfile::main(rest),
        "timetrig" => timetrig::main(rest),
        "console" => console::main(rest),
        "console-child" => console::child(rest),
        "constream" => consolestream::main(rest),
        "constream-child" => consolestream::child(rest),
        "jsonline" => jsonline::main(rest),
        "pattern" => pattern::main(rest),
        "width" => pattern::main_width(rest),
        "literals" => literals::main(rest),
        "envexpand" => envexpand::main(rest),
        "reconfig" => reconfig::main(rest),
        "reloader" => reloader::main(rest),
        "filetrace" => filetrace::main(rest),
        "sharedfile" => sharedfile::main(rest),
        "rolling" => rolling::main(rest),
        "fixedwindow" => fixedwindow::main(rest),
        "fixedwindow-cwd-child" => fixedwindow::cwd_child(rest),
        "levelgate" => levelgate::main(rest),
        other => {
            eprintln!("unknown command {}", other);
            std::process::exit(2);
        }
    }
}

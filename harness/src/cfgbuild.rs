//! C13: replay of ConfigBuild.tla cases on Config::builder() ... build / build_lossy.
use crate::util::*;
use log::Log;
use log4rs::config::runtime::ConfigError;
use serde_json::{json, Value};
use std::collections::BTreeSet;
use std::sync::Arc;

fn strs(v: &Value) -> Vec<String> {
    v.as_array().unwrap().iter().map(|x| x.as_str().unwrap().to_string()).collect()
}

thread_local! {
    /// appender names and logger names are separate namespaces (ConfigBuild.tla keeps them apart by construction);
    /// when set, the appender namespace is renamed so that its names are exactly the strings logger names are made of
    static COLLIDE: std::cell::Cell<bool> = std::cell::Cell::new(false);
    /// ... and in some cases one appender's name is the empty string (a name like any other: ConfigBuild.tla's names
    /// are opaque)
    static EMPTY_NAME: std::cell::Cell<bool> = std::cell::Cell::new(false);
}
fn app_name(n: &str) -> String {
    if EMPTY_NAME.with(|c| c.get()) && n == "A" {
        return String::new();
    }
    if !COLLIDE.with(|c| c.get()) {
        return n.to_string();
    }
    match n {
        "A" => "a",
        "B" => "a::b",
        "C" => "b",
        "Z" => "a:b",
        "Y" => "a::",
        "X" => "::a",
        "W" => "a::::b",
        other => other,
    }
    .to_string()
}
/// names of the appender namespace (declarations and references)
fn app_strs(v: &Value) -> Vec<String> {
    strs(v).iter().map(|n| app_name(n)).collect()
}

const DECL_LEVELS: [log::LevelFilter; 5] = [log::LevelFilter::Info, log::LevelFilter::Error, log::LevelFilter::Trace, log::LevelFilter::Off, log::LevelFilter::Debug];

fn builder(case: &Value, style: usize) -> (log4rs::config::runtime::ConfigBuilder, log4rs::config::Root) {
    // (a run of one declaration goes through the single-item method or through the bulk method with one item)
    let single = |len: usize, k: usize| len == 1 && (crate::util::mix(style) >> (9 + k)) & 1 == 0;
    let mut b = log4rs::Config::builder();
    let apps: Vec<log4rs::config::Appender> = app_strs(&case["apps"])
        .into_iter()
        .map(|a| log4rs::config::Appender::builder().build(a, Box::new(CountingAppender(Arc::new(Counter::default())))))
        .collect();
    for mut run in runs(apps, style) {
        b = if single(run.len(), 0) { b.appender(run.pop().unwrap()) } else { b.appenders(run) };
    }
    let loggers: Vec<log4rs::config::Logger> = case["loggers"]
        .as_array()
        .unwrap()
        .iter()
        .enumerate()
        .map(|(li, l)| {
            // (a declaration is more than a name and references: level and additive flag vary with its position)
            let mut lb = log4rs::config::Logger::builder().additive(li % 2 == 1);
            for mut run in runs(app_strs(&l["refs"]), style / 5 + li) {
                lb = if single(run.len(), 1 + li) { lb.appender(run.pop().unwrap()) } else { lb.appenders(run) };
            }
            lb.build(l["name"].as_str().unwrap(), DECL_LEVELS[li % 5])
        })
        .collect();
    for mut run in runs(loggers, style / 5) {
        b = if single(run.len(), 5) { b.logger(run.pop().unwrap()) } else { b.loggers(run) };
    }
    let mut rb = log4rs::config::Root::builder();
    for mut run in runs(app_strs(&case["root"]), style / 25 + style) {
        rb = if single(run.len(), 6) { rb.appender(run.pop().unwrap()) } else { rb.appenders(run) };
    }
    (b, rb.build(log::LevelFilter::Info))
}

fn err_set(errs: &[ConfigError]) -> BTreeSet<(String, String)> {
    errs.iter()
        .map(|e| match e {
            ConfigError::DuplicateAppenderName(n) => ("DuplicateAppenderName".to_string(), n.clone()),
            ConfigError::NonexistentAppender(n) => ("NonexistentAppender".to_string(), n.clone()),
            ConfigError::DuplicateLoggerName(n) => ("DuplicateLoggerName".to_string(), n.clone()),
            ConfigError::InvalidLoggerName(n) => ("InvalidLoggerName".to_string(), n.clone()),
            _ => ("Other".to_string(), String::new()),
        })
        .collect()
}

fn pair_set(v: &Value) -> BTreeSet<(String, String)> {
    v.as_array()
        .unwrap()
        .iter()
        .map(|p| {
            let kind = p[0].as_str().unwrap().to_string();
            let name = p[1].as_str().unwrap();
            let name = if kind.ends_with("Appender") || kind.ends_with("AppenderName") { app_name(name) } else { name.to_string() };
            (kind, name)
        })
        .collect()
}

fn check_errs(got: &BTreeSet<(String, String)>, case: &Value, which: &str) -> Option<Value> {
    let must = pair_set(&case["must"]);
    let may = pair_set(&case["may"]);
    if !must.is_subset(got) {
        return Some(json!({"what": format!("{}: offending item not named", which),
            "missing": must.difference(got).collect::<Vec<_>>(), "reported": got}));
    }
    if !got.is_subset(&may) {
        return Some(json!({"what": format!("{}: innocent item named", which),
            "extra": got.difference(&may).collect::<Vec<_>>(), "reported": got}));
    }
    None
}

fn check_case(ci: usize, case: &Value) -> Option<Value> {
    COLLIDE.with(|c| c.set((ci / 3) % 2 == 1));
    EMPTY_NAME.with(|c| c.set((ci / 7) % 3 == 1));
    // lossy
    let (b, root) = builder(case, ci);
    let (cfg, errs) = match catch(|| b.build_lossy(root)) {
        Ok(x) => x,
        Err(p) => return Some(json!({"what": "build_lossy panicked", "error": p})),
    };
    if let Some(m) = check_errs(&err_set(errs.errors()), case, "build_lossy") {
        return Some(m);
    }
    let got_apps: Vec<String> = cfg.appenders().iter().map(|a| a.name().to_string()).collect();
    if got_apps != app_strs(&case["ok_apps"]) {
        return Some(json!({"what": "lossy appenders", "expected": case["ok_apps"], "actual": got_apps}));
    }
    if cfg.root().appenders() != app_strs(&case["ok_root"]).as_slice() {
        return Some(json!({"what": "lossy root references", "expected": case["ok_root"], "actual": cfg.root().appenders()}));
    }
    let got_l: Vec<Value> = cfg.loggers().iter().map(|l| json!({"name": l.name(), "refs": l.appenders()})).collect();
    let want_l: Vec<Value> = case["ok_loggers"].as_array().unwrap().iter().map(|l| json!({"name": l["name"], "refs": app_strs(&l["refs"])})).collect();
    if got_l != want_l {
        return Some(json!({"what": "lossy loggers", "expected": case["ok_loggers"], "actual": got_l}));
    }
    // what survives is the declaration itself (the first one of its name), with only its dangling references gone:
    // level and additive flag are as declared
    {
        let decls = case["loggers"].as_array().unwrap();
        for l in cfg.loggers() {
            if let Some(li) = decls.iter().position(|d| d["name"].as_str() == Some(l.name())) {
                if l.level() != DECL_LEVELS[li % 5] || l.additive() != (li % 2 == 1) {
                    return Some(json!({"what": "a kept logger is not the logger that was declared", "name": l.name(), "declared_at": li,
                                       "declared": {"level": format!("{:?}", DECL_LEVELS[li % 5]), "additive": li % 2 == 1},
                                       "kept": {"level": format!("{:?}", l.level()), "additive": l.additive()}}));
                }
            }
        }
    }
    // the accepted configuration can be installed and logged through
    let names: Vec<String> = cfg.loggers().iter().map(|l| l.name().to_string()).collect();
    let r = catch(move || {
        let logger = log4rs::Logger::new(cfg);
        for t in names.iter().map(|s| s.as_str()).chain(["", "zzz"]) {
            logger.log(&log::Record::builder().target(t).level(log::Level::Error).args(format_args!("m")).build());
        }
    });
    if let Err(p) = r {
        return Some(json!({"what": "installing / logging through the lossy result panicked", "error": p}));
    }
    // strict
    let (b, root) = builder(case, ci / 2 + 1);
    let strict = match catch(|| b.build(root)) {
        Ok(x) => x,
        Err(p) => return Some(json!({"what": "build panicked", "error": p})),
    };
    let want_ok = case["strict_ok"].as_bool().unwrap();
    match strict {
        Ok(cfg) => {
            if !want_ok {
                return Some(json!({"what": "strict build accepted a malformed configuration"}));
            }
            let r = catch(move || {
                let logger = log4rs::Logger::new(cfg);
                logger.log(&log::Record::builder().target("a::b").level(log::Level::Error).args(format_args!("m")).build());
            });
            if let Err(p) = r {
                return Some(json!({"what": "installing the strict result panicked", "error": p}));
            }
        }
        Err(e) => {
            if want_ok {
                return Some(json!({"what": "strict build refused a well-formed configuration", "errors": format!("{}", e)}));
            }
            if let Some(m) = check_errs(&err_set(e.errors()), case, "build") {
                return Some(m);
            }
        }
    }
    None
}

fn check_name(case: &Value) -> Option<Value> {
    let name = &case["name"].as_str().unwrap().replace('~', "\u{e9}");
    let valid = case["valid"].as_bool().unwrap();
    let mk = || {
        log4rs::Config::builder()
            .logger(log4rs::config::Logger::builder().build(name, log::LevelFilter::Info))
    };
    let strict = match catch(|| mk().build(log4rs::config::Root::builder().build(log::LevelFilter::Info))) {
        Ok(r) => r,
        Err(p) => return Some(json!({"what": "strict build panicked on a logger name", "error": p})),
    };
    if strict.is_ok() != valid {
        return Some(json!({"what": "logger name validity (strict)", "expected_valid": valid}));
    }
    if let Err(e) = &strict {
        let want: BTreeSet<(String, String)> = [("InvalidLoggerName".to_string(), name.to_string())].into_iter().collect();
        if err_set(e.errors()) != want {
            return Some(json!({"what": "invalid name not reported exactly", "reported": err_set(e.errors())}));
        }
    }
    let (cfg, _) = match catch(|| mk().build_lossy(log4rs::config::Root::builder().build(log::LevelFilter::Info))) {
        Ok(r) => r,
        Err(p) => return Some(json!({"what": "lossy build panicked on a logger name", "error": p})),
    };
    if (cfg.loggers().len() == 1) != valid {
        return Some(json!({"what": "logger name validity (lossy)", "expected_valid": valid}));
    }
    let name2 = name.to_string();
    if let Err(p) = catch(move || {
        let logger = log4rs::Logger::new(cfg);
        logger.log(&log::Record::builder().target(&name2).level(log::Level::Error).args(format_args!("m")).build());
    }) {
        return Some(json!({"what": "installing panicked", "error": p}));
    }
    None
}

/// Beyond the enumeration bound (ConfigBuild.tla is about sequences of declarations of any length): 21 .. 300 loggers
/// with one name declared three times, at the edges and in the middle of the sequence.  The first declaration is the
/// one that survives a lossy build - with its level, its additive flag and its references -, the two later ones are
/// reported, everything else is kept.
fn check_scale() -> Vec<Value> {
    let mut out = vec![];
    let levels = [log::LevelFilter::Error, log::LevelFilter::Warn, log::LevelFilter::Info, log::LevelFilter::Debug, log::LevelFilter::Trace];
    for &n in &[21usize, 22, 34, 65, 300] {
        for variant in 0..5 {
            let pos: Vec<usize> = match variant {
                0 => vec![0, n / 2, n - 1],
                1 => vec![n - 3, n - 2, n - 1],
                2 => vec![1, 2, n / 3],
                3 => vec![n / 4, n / 2, 3 * n / 4],
                _ => vec![0, 1, 2],
            };
            let mut b = log4rs::Config::builder().appender(log4rs::config::Appender::builder().build("A", Box::new(CountingAppender(Arc::new(Counter::default())))));
            let mut all = vec![];
            for i in 0..n {
                let k = pos.iter().position(|p| *p == i);
                let name = if k.is_some() { "dup".to_string() } else { format!("l{:03}", (i * 7919) % 1000 + i * 1000) };
                let mut lb = log4rs::config::Logger::builder().additive(k.map(|k| k == 0).unwrap_or(i % 2 == 0));
                if k == Some(0) {
                    lb = lb.appender("A");
                }
                all.push(lb.build(name, match k { Some(k) => levels[k], None => levels[i % 5] }));
            }
            for mut run in runs(all, variant + n) {
                b = if run.len() == 1 { b.logger(run.pop().unwrap()) } else { b.loggers(run) };
            }
            let (cfg, errs) = match catch(move || b.build_lossy(log4rs::config::Root::builder().build(log::LevelFilter::Off))) {
                Ok(x) => x,
                Err(p) => {
                    out.push(json!({"case": -1, "input": {"loggers": n, "same_name_at": pos}, "mismatch": {"what": "lossy build panicked", "error": p}}));
                    continue;
                }
            };
            let dups: Vec<&log4rs::config::Logger> = cfg.loggers().iter().filter(|l| l.name() == "dup").collect();
            let reported = errs.errors().iter().filter(|e| matches!(e, ConfigError::DuplicateLoggerName(x) if x == "dup")).count();
            let ok = dups.len() == 1 && dups[0].level() == levels[0] && dups[0].additive() && dups[0].appenders() == ["A".to_string()]
                && reported == 2 && errs.errors().len() == 2 && cfg.loggers().len() == n - 2;
            if !ok {
                out.push(json!({"case": -1, "input": {"loggers": n, "same_name_at": pos},
                                "mismatch": {"what": "first declaration of a repeated logger name does not win (many loggers)",
                                             "kept": dups.iter().map(|l| format!("{:?}", l)).collect::<Vec<_>>(), "reported_duplicates": reported,
                                             "errors": errs.errors().len(), "loggers_kept": cfg.loggers().len()}}));
            }
        }
    }
    out
}

/// `cfgbuild <cases.ndjson> <out.ndjson>`
pub fn main(args: &[String]) {
    quiet_panics();
    let rows = read_ndjson(&args[0]);
    let res = par_map(&rows, threads(), |i, c| {
        let m = if c.get("valid").is_some() { check_name(c) } else { check_case(mix(i), c) };
        m.into_iter().map(|m| json!({"case": i, "input": c, "mismatch": m})).collect()
    });
    let mut res = res;
    res.extend(check_scale());
    write_ndjson(&args[1], &res);
    println!("{}", json!({"cases": rows.len(), "mismatches": res.len()}));
}

//! C03: replay of Fanout.tla cases: scripted filters / appenders on the real Logger.
use crate::util::*;
use log::Log;
use log4rs::filter::{Filter, Response};
use serde_json::{json, Value};
use std::sync::{
    atomic::{AtomicUsize, Ordering},
    Arc, Mutex,
};

#[derive(Debug)]
struct ScriptedFilter {
    app: usize,
    idx: usize,
    resp: char,
    calls: Arc<Mutex<Vec<(usize, usize)>>>,
}

impl Filter for ScriptedFilter {
    fn filter(&self, _r: &log::Record) -> Response {
        self.calls.lock().unwrap().push((self.app, self.idx));
        match self.resp {
            'A' => Response::Accept,
            'R' => Response::Reject,
            _ => Response::Neutral,
        }
    }
}

#[derive(Debug)]
struct ScriptedAppender {
    n: Arc<AtomicUsize>,
    fail: bool,
    flushes: Arc<AtomicUsize>,
}

impl log4rs::append::Append for ScriptedAppender {
    fn append(&self, _r: &log::Record) -> anyhow::Result<()> {
        self.n.fetch_add(1, Ordering::SeqCst);
        if self.fail {
            // what kind of error an appender returns is its own business - a message, or an I/O error of whatever kind
            // ("interrupted" and "would block" among them) -: it is one error, handed to the handler once (Fanout.tla)
            static KIND: AtomicUsize = AtomicUsize::new(0);
            return match KIND.fetch_add(1, Ordering::Relaxed) % 4 {
                0 => Err(anyhow::anyhow!("scripted failure")),
                1 => Err(std::io::Error::from(std::io::ErrorKind::Interrupted).into()),
                2 => Err(std::io::Error::from(std::io::ErrorKind::WouldBlock).into()),
                _ => Err(anyhow::Error::from(std::io::Error::from(std::io::ErrorKind::Interrupted)).context("while appending")),
            };
        }
        Ok(())
    }
    fn flush(&self) {
        self.flushes.fetch_add(1, Ordering::SeqCst);
    }
}

/// A `log::Log` implementor attached through the blanket `impl<T: Log> Append for T`.  Its own `enabled()` says no:
/// whether a record is delivered is the filter chain's decision alone (Fanout.tla: Delivered has no sink argument).
#[derive(Debug)]
struct LogSink {
    n: Arc<AtomicUsize>,
    flushes: Arc<AtomicUsize>,
}

impl log::Log for LogSink {
    fn enabled(&self, _m: &log::Metadata) -> bool {
        false
    }
    fn log(&self, _r: &log::Record) {
        self.n.fetch_add(1, Ordering::SeqCst);
    }
    fn flush(&self) {
        self.flushes.fetch_add(1, Ordering::SeqCst);
    }
}

// ---- the same components from a configuration document (RawConfig + appenders_lossy, the path of the file loaders)
#[derive(serde::Deserialize)]
struct ScriptedFilterConfig {
    app: usize,
    idx: usize,
    resp: String,
}
struct ScriptedFilterDeserializer {
    calls: Arc<Mutex<Vec<(usize, usize)>>>,
}
impl log4rs::config::Deserialize for ScriptedFilterDeserializer {
    type Trait = dyn Filter;
    type Config = ScriptedFilterConfig;
    fn deserialize(&self, c: ScriptedFilterConfig, _: &log4rs::config::Deserializers) -> anyhow::Result<Box<dyn Filter>> {
        Ok(Box::new(ScriptedFilter { app: c.app, idx: c.idx, resp: c.resp.chars().next().unwrap_or('N'), calls: self.calls.clone() }))
    }
}
#[derive(serde::Deserialize)]
struct ScriptedAppenderConfig {
    id: usize,
    fail: bool,
    log_sink: bool,
    nested: bool,
}
struct ScriptedAppenderDeserializer {
    slots: std::collections::HashMap<usize, (Arc<AtomicUsize>, Arc<AtomicUsize>)>,
}
impl log4rs::config::Deserialize for ScriptedAppenderDeserializer {
    type Trait = dyn log4rs::append::Append;
    type Config = ScriptedAppenderConfig;
    fn deserialize(&self, c: ScriptedAppenderConfig, _: &log4rs::config::Deserializers) -> anyhow::Result<Box<dyn log4rs::append::Append>> {
        let (n, fl) = self.slots[&c.id].clone();
        Ok(if c.nested { nested(n, fl) } else if c.log_sink { Box::new(LogSink { n, flushes: fl }) } else { Box::new(ScriptedAppender { n, fail: c.fail, flushes: fl }) })
    }
}
/// entries of a declared chain that cannot be built (Fanout.tla, Effective): each is reported and dropped, the rest
/// keep their order
fn unbuildable(k: usize) -> Value {
    match k % 5 {
        0 => json!({"kind": "no_such_filter"}),
        1 => json!({"kind": "threshold", "level": "loud"}),
        2 => json!({"kind": "threshold"}),
        3 => json!({"kind": "scripted", "app": "one", "idx": 1, "resp": "R"}),
        _ => json!({"kind": "scripted", "app": 1, "idx": 1}),
    }
}

/// A logger of its own as the sink: a `log4rs::Logger` is a `log::Log`, so it can be attached to another logger
/// through the blanket adapter; its single appender (at Trace, no filters) counts what arrives
fn nested(n: Arc<AtomicUsize>, fl: Arc<AtomicUsize>) -> Box<dyn log4rs::append::Append> {
    let cfg = log4rs::Config::builder()
        .appender(log4rs::config::Appender::builder().build("inner", Box::new(ScriptedAppender { n, fail: false, flushes: fl })))
        .build(log4rs::config::Root::builder().appender("inner").build(log::LevelFilter::Trace))
        .unwrap();
    Box::new(log4rs::Logger::new(cfg))
}

fn obj_keys_sorted(v: &Value) -> Vec<(usize, &Value)> {
    if let Some(a) = v.as_array() {
        return a.iter().enumerate().map(|(i, x)| (i + 1, x)).collect();
    }
    let mut ks: Vec<(usize, &Value)> = v.as_object().unwrap().iter().map(|(k, v)| (k.parse().unwrap(), v)).collect();
    ks.sort_by_key(|x| x.0);
    ks
}

fn at<'a>(v: &'a Value, k: usize) -> &'a Value {
    if v.is_array() {
        &v[k - 1]
    } else {
        &v[k.to_string()]
    }
}

fn check_case(case: &Value, style: usize) -> Option<Value> {
    let chains = obj_keys_sorted(&case["chains"]);
    let calls = Arc::new(Mutex::new(vec![]));
    let handled = Arc::new(AtomicUsize::new(0));
    let mut counters = vec![];
    let mut flushes = vec![];
    let mut real: Vec<(usize, usize)> = vec![];
    let via_document = style % 5 == 3;
    let cfg = if via_document {
        let mut slots = std::collections::HashMap::new();
        let mut apps = serde_json::Map::new();
        let mut broken = 0;
        for (a, chain) in &chains {
            let n = Arc::new(AtomicUsize::new(0));
            let fl = Arc::new(AtomicUsize::new(0));
            counters.push((*a, n.clone()));
            flushes.push((*a, fl.clone()));
            slots.insert(*a, (n, fl));
            let chain = chain.as_array().unwrap();
            let mut decl: Vec<Value> = vec![];
            // where the unbuildable entries sit: before one position of the chain, and (every other time) at its end
            let at_pos = (style / 5 + *a) % (chain.len() + 1);
            for (i, r) in chain.iter().enumerate() {
                if i == at_pos && (style / 10) % 3 != 0 {
                    decl.push(unbuildable(style / 30 + *a));
                    broken += 1;
                }
                let resp = r.as_str().unwrap().chars().next().unwrap();
                if resp != 'A' && (style / 12 + *a + i) % 3 == 0 {
                    real.push((*a, i + 1));
                    let lvl = match (resp, (style + i) % 2) {
                        ('N', 0) => "info",
                        ('N', _) => "trace",
                        (_, 0) => "error",
                        _ => "warn",
                    };
                    decl.push(json!({"kind": "threshold", "level": lvl}));
                } else {
                    decl.push(json!({"kind": "scripted", "app": a, "idx": i + 1, "resp": resp.to_string()}));
                }
            }
            if (style / 15) % 2 == 0 {
                decl.push(unbuildable(style / 60 + *a + 1));
                broken += 1;
            }
            let fail = at(&case["outc"], *a) == "Err";
            apps.insert(a.to_string(), json!({"kind": "scripted_appender", "id": a, "fail": fail, "log_sink": !fail && (style / 4 + *a) % 3 == 1, "nested": !fail && (style / 4 + *a) % 3 == 2, "filters": decl}));
        }
        let atts: Vec<String> = case["att"].as_array().unwrap().iter().map(|a| a.as_u64().unwrap().to_string()).collect();
        let doc = json!({"appenders": apps, "root": {"level": "trace", "appenders": atts}});
        let raw: log4rs::config::RawConfig = match serde_json::from_value(doc.clone()) {
            Ok(r) => r,
            Err(e) => return Some(json!({"what": "configuration document refused", "error": e.to_string(), "document": doc})),
        };
        let mut d = log4rs::config::Deserializers::default();
        d.insert("scripted", ScriptedFilterDeserializer { calls: calls.clone() });
        d.insert("scripted_appender", ScriptedAppenderDeserializer { slots });
        let (built, errs) = match catch(|| raw.appenders_lossy(&d)) {
            Ok(x) => x,
            Err(p) => return Some(json!({"what": "appenders_lossy panicked", "error": p, "document": doc})),
        };
        if errs.is_empty() != (broken == 0) {
            return Some(json!({"what": "unbuildable filter entries reported", "expected_any": broken > 0, "document": doc}));
        }
        match log4rs::Config::builder().appenders(built).loggers(raw.loggers()).build(raw.root()) {
            Ok(c) => c,
            Err(e) => return Some(json!({"what": "build failed", "error": e.to_string(), "document": doc})),
        }
    } else {
        let mut b = log4rs::Config::builder();
        for (a, chain) in &chains {
            let n = Arc::new(AtomicUsize::new(0));
            let fl = Arc::new(AtomicUsize::new(0));
            counters.push((*a, n.clone()));
            flushes.push((*a, fl.clone()));
            // the chain is declared through the builder in varying styles: filter() one by one, filters() at
            // once, or a mixture - the declaration order is what counts
            let mut ab = log4rs::config::Appender::builder();
            // some Neutral / Reject positions are the real ThresholdFilter (neutral at Info: threshold info or trace;
            // rejecting: threshold error or warn) - they record no call, so those positions are left out of the
            // consultation comparison; what they answer still decides the deliveries
            let fs: Vec<Box<dyn Filter>> = chain
                .as_array()
                .unwrap()
                .iter()
                .enumerate()
                .map(|(i, r)| {
                    let resp = r.as_str().unwrap().chars().next().unwrap();
                    if resp != 'A' && (style / 12 + *a + i) % 3 == 0 {
                        real.push((*a, i + 1));
                        let lvl = match (resp, (style + i) % 2) {
                            ('N', 0) => log::LevelFilter::Info,
                            ('N', _) => log::LevelFilter::Trace,
                            (_, 0) => log::LevelFilter::Error,
                            _ => log::LevelFilter::Warn,
                        };
                        return Box::new(log4rs::filter::threshold::ThresholdFilter::new(lvl)) as Box<dyn Filter>;
                    }
                    Box::new(ScriptedFilter { app: *a, idx: i + 1, resp, calls: calls.clone() }) as Box<dyn Filter>
                })
                .collect();
            match (style + *a) % 4 {
                0 => {
                    for f in fs {
                        ab = ab.filter(f);
                    }
                }
                1 => ab = ab.filters(fs),
                2 => {
                    let mut it = fs.into_iter();
                    if let Some(first) = it.next() {
                        ab = ab.filter(first);
                    }
                    ab = ab.filters(it.collect::<Vec<_>>());
                }
                _ => {
                    let mut fs = fs;
                    let last = fs.pop();
                    ab = ab.filters(fs);
                    if let Some(l) = last {
                        ab = ab.filter(l);
                    }
                }
            }
            let fail = at(&case["outc"], *a) == "Err";
            let sink: Box<dyn log4rs::append::Append> = if !fail && (style / 4 + *a) % 3 == 1 {
                Box::new(LogSink { n, flushes: fl })
            } else if !fail && (style / 4 + *a) % 3 == 2 {
                nested(n, fl)
            } else {
                Box::new(ScriptedAppender { n, fail, flushes: fl })
            };
            b = b.appender(ab.build(a.to_string(), sink));
        }
        let mut rb = log4rs::config::Root::builder();
        for a in case["att"].as_array().unwrap() {
            rb = rb.appender(a.as_u64().unwrap().to_string());
        }
        match b.build(rb.build(log::LevelFilter::Trace)) {
            Ok(c) => c,
            Err(e) => return Some(json!({"what": "build failed", "error": e.to_string()})),
        }
    };
    let h2 = handled.clone();
    let logger = log4rs::Logger::new_with_err_handler(
        cfg,
        Box::new(move |_e| {
            h2.fetch_add(1, Ordering::SeqCst);
        }),
    );
    if let Err(p) = catch(|| {
        logger.log(&log::Record::builder().target("x::y").level(log::Level::Info).args(format_args!("m")).build())
    }) {
        return Some(json!({"what": "log panicked", "error": p}));
    }
    for (a, n) in &counters {
        let want = at(&case["delivered"], *a).as_u64().unwrap() as usize;
        let got = n.load(Ordering::SeqCst);
        if got != want {
            return Some(json!({"what": "deliveries", "appender": a, "expected": want, "actual": got}));
        }
    }
    let calls = calls.lock().unwrap();
    for (a, _) in &chains {
        let got: Vec<usize> = calls.iter().filter(|c| c.0 == *a).map(|c| c.1).collect();
        let want: Vec<usize> = at(&case["consulted"], *a)
            .as_array()
            .unwrap()
            .iter()
            .map(|v| v.as_u64().unwrap() as usize)
            .filter(|i| !real.contains(&(*a, *i)))
            .collect();
        if got != want {
            return Some(json!({"what": "filters consulted", "appender": a, "expected": want, "actual": got}));
        }
    }
    // Log::flush reaches every appender of the configuration exactly once
    logger.flush();
    if case.get("flushed").is_some() {
        for (a, fl) in &flushes {
            let want = at(&case["flushed"], *a).as_u64().unwrap() as usize;
            let got = fl.load(Ordering::SeqCst);
            if got != want {
                return Some(json!({"what": "flush calls", "appender": a, "expected": want, "actual": got}));
            }
        }
    }
    let want_h = case["handled"].as_u64().unwrap() as usize;
    let got_h = handled.load(Ordering::SeqCst);
    if got_h != want_h {
        return Some(json!({"what": "error handler calls", "expected": want_h, "actual": got_h}));
    }
    None
}

fn check_threshold(meta: &Value) -> Vec<Value> {
    let mut out = vec![];
    for (t, row) in obj_keys_sorted(&meta["table"]) {
        for (li, want) in row.as_array().unwrap().iter().enumerate() {
            let l = li as i64 + 1;
            let f = log4rs::filter::threshold::ThresholdFilter::new(level_filter(t as i64));
            let rec = log::Record::builder().level(level(l)).args(format_args!("m")).build();
            let got = match f.filter(&rec) {
                Response::Accept => "A",
                Response::Neutral => "N",
                Response::Reject => "R",
            };
            if got != want.as_str().unwrap() {
                out.push(json!({"case": -1, "input": {"threshold": t, "level": l},
                    "mismatch": {"what": "threshold filter", "expected": want, "actual": got}}));
            }
            // and through the fan-out: delivered iff not rejected
            let n = Arc::new(AtomicUsize::new(0));
            let cfg = log4rs::Config::builder()
                .appender(log4rs::config::Appender::builder().filter(Box::new(f)).build("t", Box::new(ScriptedAppender { n: n.clone(), fail: false, flushes: Arc::new(AtomicUsize::new(0)) })))
                .build(log4rs::config::Root::builder().appender("t").build(log::LevelFilter::Trace))
                .unwrap();
            log4rs::Logger::new(cfg).log(&rec);
            let want_n = if want == "R" { 0 } else { 1 };
            if n.load(Ordering::SeqCst) != want_n {
                out.push(json!({"case": -1, "input": {"threshold": t, "level": l},
                    "mismatch": {"what": "threshold filter through logger", "expected": want_n, "actual": n.load(Ordering::SeqCst)}}));
            }
        }
    }
    out
}

/// Scale: the attachment of an appender is by name; how many appenders are declared, and at which position the
/// attached ones were declared, plays no part (Fanout.tla).  Declarations around 2^8 and 2^16 appenders.
fn check_scale() -> Vec<Value> {
    let mut out = vec![];
    for n in [255usize, 256, 257, 65535, 65536, 65537, 70001] {
        let calls = Arc::new(Mutex::new(vec![]));
        let mut counters = Vec::with_capacity(n);
        let mut b = log4rs::Config::builder();
        for j in 0..n {
            let c = Arc::new(AtomicUsize::new(0));
            counters.push(c.clone());
            let mut ab = log4rs::config::Appender::builder();
            if j % 2 == 0 {
                ab = ab.filter(Box::new(ScriptedFilter { app: j, idx: 1, resp: 'R', calls: calls.clone() }));
            }
            b = b.appender(ab.build(format!("a{}", j), Box::new(ScriptedAppender { n: c, fail: false, flushes: Arc::new(AtomicUsize::new(0)) })));
        }
        // attached: positions at the ends and around the powers of two; even positions carry a rejecting filter
        let mut attached: Vec<usize> = [0, 1, 254, 255, 256, 257, 65534, 65535, 65536, 65537, n - 2, n - 1].into_iter().filter(|j| *j < n).collect();
        attached.sort();
        attached.dedup();
        let mut rb = log4rs::config::Root::builder();
        for j in &attached {
            rb = rb.appender(format!("a{}", j));
        }
        let cfg = match b.build(rb.build(log::LevelFilter::Trace)) {
            Ok(c) => c,
            Err(e) => {
                out.push(json!({"case": "scale", "input": {"appenders": n}, "mismatch": {"what": "build failed", "error": e.to_string()}}));
                continue;
            }
        };
        let logger = log4rs::Logger::new(cfg);
        if let Err(p) = catch(|| logger.log(&log::Record::builder().target("x").level(log::Level::Info).args(format_args!("m")).build())) {
            out.push(json!({"case": "scale", "input": {"appenders": n}, "mismatch": {"what": "log panicked", "error": p}}));
            continue;
        }
        let got: Vec<usize> = (0..n).filter(|j| counters[*j].load(Ordering::SeqCst) > 0).collect();
        let want: Vec<usize> = attached.iter().copied().filter(|j| j % 2 == 1).collect();
        let mut consulted: Vec<usize> = calls.lock().unwrap().iter().map(|c: &(usize, usize)| c.0).collect();
        consulted.sort();
        let want_consulted: Vec<usize> = attached.iter().copied().filter(|j| j % 2 == 0).collect();
        if got != want || consulted != want_consulted || want.iter().any(|j| counters[*j].load(Ordering::SeqCst) != 1) {
            out.push(json!({"case": "scale", "input": {"appenders": n, "attached": attached},
                            "mismatch": {"what": "deliveries with many declared appenders", "delivered_to": got, "expected": want,
                                         "filters_consulted_of": consulted, "expected_consulted": want_consulted}}));
        }
    }
    // many failing attachments on one record (Fanout.tla, HandleErr: one handler call per collected error, however many
    // there are): 17, 33, 300 attachments - some appenders attached twice -, every other one failing
    for n in [16usize, 17, 33, 300] {
        let handled = Arc::new(AtomicUsize::new(0));
        let mut b = log4rs::Config::builder();
        let mut counters = vec![];
        for j in 0..n {
            let c = Arc::new(AtomicUsize::new(0));
            counters.push(c.clone());
            b = b.appender(log4rs::config::Appender::builder().build(format!("f{}", j), Box::new(ScriptedAppender { n: c, fail: j % 2 == 0 || n <= 33, flushes: Arc::new(AtomicUsize::new(0)) })));
        }
        let mut rb = log4rs::config::Root::builder();
        let mut attachments = 0usize;
        let mut failing = 0usize;
        for j in 0..n {
            for _ in 0..(if j % 5 == 0 { 2 } else { 1 }) {
                rb = rb.appender(format!("f{}", j));
                attachments += 1;
                if j % 2 == 0 || n <= 33 {
                    failing += 1;
                }
            }
        }
        let cfg = match b.build(rb.build(log::LevelFilter::Trace)) {
            Ok(c) => c,
            Err(e) => {
                out.push(json!({"case": "scale", "input": {"failing_appenders": n}, "mismatch": {"what": "build failed", "error": e.to_string()}}));
                continue;
            }
        };
        let h2 = handled.clone();
        let logger = log4rs::Logger::new_with_err_handler(cfg, Box::new(move |_e| {
            h2.fetch_add(1, Ordering::SeqCst);
        }));
        if let Err(p) = catch(|| logger.log(&log::Record::builder().target("x").level(log::Level::Info).args(format_args!("m")).build())) {
            out.push(json!({"case": "scale", "input": {"failing_appenders": n}, "mismatch": {"what": "log panicked", "error": p}}));
            continue;
        }
        let calls: usize = counters.iter().map(|c| c.load(Ordering::SeqCst)).sum();
        let got = handled.load(Ordering::SeqCst);
        if got != failing || calls != attachments {
            out.push(json!({"case": "scale", "input": {"appenders": n, "attachments": attachments, "failing_attachments": failing},
                            "mismatch": {"what": "error handler calls with many failing appenders", "expected": failing, "actual": got, "append_calls": calls}}));
        }
    }
    out
}

/// Chains declared in configuration files: every appender gets exactly its own filters, also when a
/// neighbouring appender (with filters of its own) fails to build and is dropped by lossy loading.
fn check_config_chains() -> Vec<Value> {
    use crate::reloader::CaptureDeserializer;
    let mut out = vec![];
    for round in 0..40usize {
        let scratch = crate::fsutil::Scratch::new("fan");
        let sink = Arc::new(Mutex::new(vec![]));
        let built = Arc::new(AtomicUsize::new(0));
        let mut d = log4rs::config::Deserializers::default();
        d.insert("capture", CaptureDeserializer { sink: sink.clone(), built: built.clone(), slow_v3: std::time::Duration::ZERO });
        // names vary so that the map iteration order varies too
        let (good, bad, filtered) = (format!("g{}", round), format!("b{}", round * 7 % 13), format!("f{}", round * 5 % 11));
        let doc = json!({
            "appenders": {
                good.clone(): {"kind": "capture", "tag": "good"},
                bad.clone(): {"kind": "no_such_kind", "filters": [{"kind": "threshold", "level": "off"}]},
                filtered.clone(): {"kind": "capture", "tag": "filtered", "filters": [{"kind": "threshold", "level": "warn"}]},
            },
            "root": {"level": "trace", "appenders": [good, filtered]},
        });
        let path = scratch.path().join("c.yaml");
        std::fs::write(&path, serde_yaml::to_string(&doc).unwrap()).unwrap();
        let cfg = match catch(|| log4rs::config::load_config_file(&path, d)) {
            Ok(Ok(c)) => c,
            other => {
                out.push(json!({"case": -2, "input": doc, "mismatch": {"what": "lossy loading failed or panicked", "detail": format!("{:?}", other.map(|r| r.map(|_| ()).map_err(|e| e.to_string())))}}));
                continue;
            }
        };
        let logger = log4rs::Logger::new(cfg);
        for l in 1..=5i64 {
            sink.lock().unwrap().clear();
            logger.log(&log::Record::builder().level(level(l)).target("t").args(format_args!("m")).build());
            let got: Vec<String> = sink.lock().unwrap().iter().map(|(t, _): &(String, usize)| t.clone()).collect();
            let mut want = vec!["good".to_string()];
            if l <= 2 {
                want.push("filtered".to_string());
            }
            let mut g = got.clone();
            g.sort();
            want.sort();
            if g != want {
                out.push(json!({"case": -2, "input": doc, "mismatch": {"what": "deliveries with filters from a configuration file", "level": l, "expected": want, "actual": got}}));
                break;
            }
        }
    }
    out
}

/// `fanout <cases.ndjson> <out.ndjson>`
pub fn main(args: &[String]) {
    quiet_panics();
    let rows = read_ndjson(&args[0]);
    let meta = rows.iter().find(|r| r["meta"] == "threshold").expect("no threshold table");
    let cases: Vec<&Value> = rows.iter().filter(|r| r.get("meta").is_none()).collect();
    let mut res = par_map(&cases, threads(), |i, c| {
        check_case(c, mix(i)).into_iter().map(|m| json!({"case": i, "input": c, "mismatch": m})).collect()
    });
    res.extend(check_threshold(meta));
    res.extend(check_config_chains());
    res.extend(check_scale());
    write_ndjson(&args[1], &res);
    println!("{}", json!({"cases": cases.len(), "mismatches": res.len(), "threshold_pairs": 30}));
}

//! Directory snapshots and scratch directories.
use std::{collections::BTreeMap, fs, io::Read, path::{Path, PathBuf}};

fn disk_root() -> PathBuf {
    PathBuf::from(std::env::var("LV_SCRATCH_DISK").unwrap_or_else(|_| "/verif/work/scratch".to_string()))
}
fn shm_root() -> PathBuf {
    PathBuf::from("/dev/shm/lv-scratch")
}

/// Scratch directories live on tmpfs when there is one (directory-heavy replays are 10x faster there than on the
/// disk image); LV_SCRATCH overrides.
pub fn scratch_root() -> PathBuf {
    static ROOT: std::sync::OnceLock<PathBuf> = std::sync::OnceLock::new();
    ROOT.get_or_init(|| {
        if let Ok(b) = std::env::var("LV_SCRATCH") {
            let p = PathBuf::from(b);
            fs::create_dir_all(&p).unwrap();
            return p;
        }
        let shm = shm_root();
        if fs::create_dir_all(&shm).is_ok() && fs::write(shm.join(".probe"), b"x").is_ok() {
            let _ = fs::remove_file(shm.join(".probe"));
            return shm;
        }
        let p = disk_root();
        fs::create_dir_all(&p).unwrap();
        p
    })
    .clone()
}

/// Removes scratch directories left behind by harness processes that no longer exist.
pub fn sweep_stale() {
    for root in [disk_root(), shm_root()] {
        for e in fs::read_dir(&root).into_iter().flatten().flatten() {
            let name = e.file_name().to_string_lossy().to_string();
            let pid = name.split('_').rev().nth(1).and_then(|x| x.parse::<u32>().ok());
            if let Some(pid) = pid {
                if !Path::new(&format!("/proc/{}", pid)).exists() {
                    let _ = fs::remove_dir_all(e.path());
                }
            }
        }
    }
}

pub struct Scratch(pub PathBuf);

impl Scratch {
    pub fn new(tag: &str) -> Scratch {
        use std::sync::atomic::{AtomicUsize, Ordering};
        static N: AtomicUsize = AtomicUsize::new(0);
        let p = scratch_root().join(format!("{}_{}_{}", tag, std::process::id(), N.fetch_add(1, Ordering::Relaxed)));
        let _ = fs::remove_dir_all(&p);
        fs::create_dir_all(&p).unwrap();
        Scratch(p)
    }
    /// a scratch directory on another filesystem than the scratch root, if there is one
    pub fn other_mount(tag: &str) -> Option<Scratch> {
        use std::os::unix::fs::MetadataExt;
        use std::sync::atomic::{AtomicUsize, Ordering};
        static N: AtomicUsize = AtomicUsize::new(0);
        let here = fs::metadata(scratch_root()).ok()?.dev();
        let other = [disk_root(), shm_root()].into_iter().find(|r| fs::create_dir_all(r).is_ok() && fs::metadata(r).map(|m| m.dev() != here).unwrap_or(false))?;
        let p = other.join(format!("x{}_{}_{}", tag, std::process::id(), N.fetch_add(1, Ordering::Relaxed)));
        let _ = fs::remove_dir_all(&p);
        fs::create_dir_all(&p).ok()?;
        Some(Scratch(p))
    }
    pub fn path(&self) -> &Path {
        &self.0
    }
}

impl Drop for Scratch {
    fn drop(&mut self) {
        let _ = fs::remove_dir_all(&self.0);
    }
}

/// relative path -> bytes for every regular file below `root` (gz files are decompressed when
/// `gunzip` is set and the name ends in .gz); directories appear as "<rel>/" -> empty when
/// `dirs` is set.
pub fn snapshot(root: &Path, gunzip: bool, dirs: bool) -> BTreeMap<String, Vec<u8>> {
    fn walk(root: &Path, p: &Path, gunzip: bool, dirs: bool, out: &mut BTreeMap<String, Vec<u8>>) {
        let rd = match fs::read_dir(p) {
            Ok(r) => r,
            Err(_) => return,
        };
        for e in rd.flatten() {
            let path = e.path();
            let rel = path.strip_prefix(root).unwrap().to_string_lossy().to_string();
            if path.is_dir() {
                if dirs {
                    out.insert(format!("{}/", rel), vec![]);
                }
                walk(root, &path, gunzip, dirs, out);
            } else {
                let mut bytes = fs::read(&path).unwrap_or_default();
                if gunzip && rel.ends_with(".gz") {
                    // strict: the file is exactly one gzip member - bytes after it (a stale tail of an archive
                    // that was overwritten in place) are corruption, too
                    let mut d = flate2::bufread::GzDecoder::new(&bytes[..]);
                    let mut o = vec![];
                    if d.read_to_end(&mut o).is_ok() {
                        let rest = d.into_inner().len();
                        bytes = if rest == 0 { o } else { format!("<<{} bytes after the gzip member>>", rest).into_bytes() };
                    } else {
                        bytes = b"<<corrupt gzip>>".to_vec();
                    }
                }
                out.insert(rel, bytes);
            }
        }
    }
    let mut out = BTreeMap::new();
    walk(root, root, gunzip, dirs, &mut out);
    out
}

pub fn gzip(bytes: &[u8]) -> Vec<u8> {
    use std::io::Write;
    let mut e = flate2::write::GzEncoder::new(vec![], flate2::Compression::default());
    e.write_all(bytes).unwrap();
    e.finish().unwrap()
}

pub fn copy_tree(src: &Path, dst: &Path) {
    fs::create_dir_all(dst).unwrap();
    for e in fs::read_dir(src).unwrap().flatten() {
        let p = e.path();
        let d = dst.join(e.file_name());
        if let Ok(target) = fs::read_link(&p) {
            if target == Path::new("/dev/full") {
                // the obstacle that cannot be written is copied as a link
                let _ = std::os::unix::fs::symlink(target, &d);
            } else {
                // any other link is copied as what it points to: the image must not share a file with the original
                fs::copy(&p, &d).unwrap();
            }
        } else if p.is_dir() {
            copy_tree(&p, &d);
        } else {
            fs::copy(&p, &d).unwrap();
        }
    }
}

pub fn show(b: &[u8]) -> String {
    let s = String::from_utf8_lossy(b);
    if s.len() > 60 {
        let head: String = s.chars().take(40).collect();
        format!("{}..({} bytes)", head, b.len())
    } else {
        s.to_string()
    }
}

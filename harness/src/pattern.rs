//! C09 / C10 / C11: replay of Pattern.tla / WidthWriters.tla cases on the real PatternEncoder.
//! The capturing encode::Write records bytes and style requests in line and can accept bytes in a
//! scripted way (partial writes), and the message can be a Display that writes in scripted pieces.
use crate::util::*;
use log4rs::encode::{Encode, Style, Write as EncWrite};
use serde_json::{json, Value};
use std::{fmt, io};

#[derive(Debug, Clone, PartialEq)]
pub enum Out {
    Bytes(Vec<u8>),
    Style(bool), // true = reset (Style::new())
}

pub struct Cap {
    pub out: Vec<Out>,
    pub accept: Vec<usize>, // bytes accepted per write call, cycled; empty = everything
    pub calls: usize,
    pub fail_after: Option<usize>, // the sink fails once this many bytes were accepted
    pub total: usize,
}
impl Cap {
    pub fn new(accept: Vec<usize>) -> Cap {
        Cap { out: vec![], accept, calls: 0, fail_after: None, total: 0 }
    }
}
impl io::Write for Cap {
    fn write(&mut self, buf: &[u8]) -> io::Result<usize> {
        if buf.is_empty() {
            return Ok(0);
        }
        let want = if self.accept.is_empty() { buf.len() } else { self.accept[self.calls % self.accept.len()] };
        self.calls += 1;
        if want == 0 {
            // the call is interrupted: nothing accepted, the caller (write_all) repeats it
            return Err(io::Error::new(io::ErrorKind::Interrupted, "interrupted"));
        }
        let mut n = want.min(buf.len());
        if let Some(limit) = self.fail_after {
            if self.total >= limit {
                return Err(io::Error::new(io::ErrorKind::Other, "sink failure"));
            }
            n = n.min(limit - self.total).max(1);
        }
        self.total += n;
        match self.out.last_mut() {
            Some(Out::Bytes(b)) => b.extend_from_slice(&buf[..n]),
            _ => self.out.push(Out::Bytes(buf[..n].to_vec())),
        }
        Ok(n)
    }
    fn flush(&mut self) -> io::Result<()> {
        Ok(())
    }
}
impl EncWrite for Cap {
    fn set_style(&mut self, style: &Style) -> io::Result<()> {
        self.out.push(Out::Style(*style == Style::new()));
        Ok(())
    }
}

/// a message that reaches the writer in the given pieces (one write_str each)
pub struct Pieces<'a>(pub &'a [String]);
impl<'a> fmt::Display for Pieces<'a> {
    fn fmt(&self, f: &mut fmt::Formatter<'_>) -> fmt::Result {
        for p in self.0 {
            f.write_str(p)?;
        }
        Ok(())
    }
}

/// The same message, but while it is being rendered the thread logs something else through the same encoder into
/// another sink (a Display implementation that logs - "reading the value" - before it answers): what the outer record
/// renders is its own message, whole, whatever was rendered on the thread in between (Pattern.tla: Render is a
/// function of pattern and record).
pub struct NestingPieces<'a> {
    pub pieces: &'a [String],
    pub enc: &'a dyn Encode,
}
impl<'a> fmt::Display for NestingPieces<'a> {
    fn fmt(&self, f: &mut fmt::Formatter<'_>) -> fmt::Result {
        for (k, p) in self.pieces.iter().enumerate() {
            f.write_str(p)?;
            if k == 0 {
                let mut other = Cap::new(vec![]);
                let _ = self.enc.encode(&mut other, &log::Record::builder().level(log::Level::Debug).target("nested").args(format_args!("reading the value")).build());
            }
        }
        Ok(())
    }
}

thread_local! {
    /// which representatives the placeholders stand for in the case at hand (a non-ASCII letter and a non-ASCII digit
    /// of 2 or 3 bytes each)
    static SUB_VARIANT: std::cell::Cell<usize> = std::cell::Cell::new(0);
}
pub fn set_sub_variant(v: usize) {
    SUB_VARIANT.with(|x| x.set(v));
}
pub fn sub(s: &str) -> String {
    let v = SUB_VARIANT.with(|x| x.get());
    // é / 世 are letters (alphabetic, not alphanumeric digits), U+0663 / U+0966 are decimal digits outside ASCII
    s.replace('~', ["\u{e9}", "\u{4e16}"][v % 2]).replace('^', ["\u{663}", "\u{966}"][(v / 2) % 2])
}
fn seq_str(v: &Value) -> Option<String> {
    let a = v.as_array()?;
    if a.len() == 1 && a[0] == "-" {
        return None;
    }
    Some(sub(&a.iter().map(|x| x.as_str().unwrap()).collect::<String>()))
}

pub struct RecSpec {
    pub level: log::Level,
    pub msg: Vec<String>,
    pub target: String,
    pub module: Option<String>,
    pub file: Option<String>,
    pub line: Option<u32>,
    pub thread: Option<String>,
    pub mdc: Vec<(String, String)>,
}

pub fn rec_from(v: &Value) -> RecSpec {
    let lvl = seq_str(&v["lvl"]).unwrap();
    let level = match lvl.as_str() {
        "ERROR" => log::Level::Error,
        "WARN" => log::Level::Warn,
        "INFO" => log::Level::Info,
        "DEBUG" => log::Level::Debug,
        _ => log::Level::Trace,
    };
    let mut mdc = vec![];
    if let Some(o) = v["mdc"].as_object() {
        for (k, val) in o {
            mdc.push((sub(k), seq_str(val).unwrap_or_default()));
        }
    } else if let Some(a) = v["mdc"].as_array() {
        // ToJson renders a function with sequence keys as an array of [key, value]? handle pairs
        for p in a {
            if let (Some(k), Some(val)) = (seq_str(&p[0]), seq_str(&p[1])) {
                mdc.push((k, val));
            }
        }
    }
    RecSpec {
        level,
        msg: vec![seq_str(&v["msg"]).unwrap()],
        target: seq_str(&v["target"]).unwrap(),
        module: seq_str(&v["module"]),
        file: seq_str(&v["file"]),
        line: seq_str(&v["line"]).and_then(|s| s.parse().ok()),
        thread: seq_str(&v["thread"]),
        mdc,
    }
}

pub enum Outcome {
    PanicNew(String),
    PanicEncode(String),
    EncodeErr(String),
    Done(Vec<Out>, chrono::DateTime<chrono::Utc>, chrono::DateTime<chrono::Utc>, (String, String)),
    Constructed,
}

/// Runs construction + encode in a fresh (named) thread so that {T} is under control.
pub fn run_pattern(pattern: &str, rec: &RecSpec, accept: Vec<usize>, construct_only: bool, via_config: bool) -> Outcome {
    let body = move || -> Outcome {
        // a third of the cases build the encoder from a configuration value, as a config file would
        let enc: Box<dyn Encode> = if via_config {
            let v: serde_value::Value = serde_json::from_value(json!({"pattern": pattern})).unwrap();
            match catch(|| log4rs::config::Deserializers::default().deserialize::<dyn Encode>("pattern", v)) {
                Ok(Ok(e)) => e,
                Ok(Err(e)) => return Outcome::PanicNew(format!("deserializer refused a pattern: {}", e)),
                Err(p) => return Outcome::PanicNew(p),
            }
        } else {
            match catch(|| log4rs::encode::pattern::PatternEncoder::new(pattern)) {
                Ok(e) => Box::new(e),
                Err(p) => return Outcome::PanicNew(p),
            }
        };
        if construct_only {
            return Outcome::Constructed;
        }
        log_mdc::clear();
        for (k, v) in &rec.mdc {
            log_mdc::insert(k.clone(), v.clone());
        }
        let mut cap = Cap::new(accept);
        let msg = Pieces(&rec.msg);
        // (every other pattern: the message's Display logs on the way)
        let nesting = NestingPieces { pieces: &rec.msg, enc: enc.as_ref() };
        let nest = pattern.len() % 2 == 0;
        let t0 = chrono::Utc::now();
        let r = catch(|| {
            let b = log::Record::builder();
            let mut b = b;
            b.level(rec.level).target(&rec.target).module_path(rec.module.as_deref()).file(rec.file.as_deref()).line(rec.line);
            if nest {
                enc.encode(&mut cap, &b.args(format_args!("{}", nesting)).build())
            } else {
                enc.encode(&mut cap, &b.args(format_args!("{}", msg)).build())
            }
        });
        match r {
            Err(p) => Outcome::PanicEncode(p),
            Ok(Err(e)) => Outcome::EncodeErr(e.to_string()),
            Ok(Ok(())) => {
                // the opaque numbers of this very thread, obtained independently of log4rs
                let tid = unsafe { libc::syscall(libc::SYS_gettid) }.to_string();
                Outcome::Done(cap.out, t0, chrono::Utc::now(), (thread_id::get().to_string(), tid))
            }
        }
    };
    std::thread::scope(|s| {
        let b = std::thread::Builder::new();
        let b = match &rec.thread {
            Some(n) => b.name(n.clone()),
            None => b,
        };
        b.spawn_scoped(s, body).unwrap().join().unwrap()
    })
}

fn flatten(out: &[Out]) -> (String, bool) {
    // styles become \u{1}S (set) / \u{1}0 (reset) in line; returns (text, valid utf8)
    let mut bytes: Vec<u8> = vec![];
    let mut valid = true;
    for o in out {
        match o {
            Out::Bytes(b) => {
                if std::str::from_utf8(b).is_err() {
                    valid = false;
                }
                bytes.extend_from_slice(b)
            }
            Out::Style(reset) => bytes.extend_from_slice(if *reset { "\u{1}0".as_bytes() } else { "\u{1}S".as_bytes() }),
        }
    }
    (String::from_utf8_lossy(&bytes).to_string(), valid)
}

/// Compares captured output with the specification's token sequence.
/// the text a date token may render to: the format applied to the clock readings around the call
fn date_candidates(fmt: &str, utc: bool, t0: chrono::DateTime<chrono::Utc>, t1: chrono::DateTime<chrono::Utc>) -> Vec<String> {
    use chrono::TimeZone;
    let mut v = vec![];
    for t in [t0, t1] {
        let s = if utc { t.format(fmt).to_string() } else { chrono::Local.from_utc_datetime(&t.naive_utc()).format(fmt).to_string() };
        if !v.contains(&s) {
            v.push(s);
        }
    }
    v
}

pub fn compare(expected: &Value, out: &[Out], window: Option<(chrono::DateTime<chrono::Utc>, chrono::DateTime<chrono::Utc>)>, ids: Option<&(String, String)>) -> Option<Value> {
    let (text, valid) = flatten(out);
    if !valid {
        return Some(json!({"what": "output is not valid UTF-8 (per write segment)", "actual": text}));
    }
    let mut rest: &str = &text;
    let mut shown = String::new();
    let toks: Vec<&str> = expected.as_array().unwrap().iter().map(|t| t.as_str().unwrap()).collect();
    let numeric = |t: &str| t == "<tid>" || t == "<thread_id>" || t == "<pid>";
    let mut i = 0;
    while i < toks.len() {
        let t = toks[i];
        if numeric(t) {
            if let Some((thread_id, tid)) = ids {
                // the values are known exactly: process id, thread_id::get(), gettid of the encoding thread
                let w = match t {
                    "<pid>" => std::process::id().to_string(),
                    // both {I}/{thread_id} and {i}/{tid} print thread_id::get() in this code base (the crate's own
                    // tests pin that); the OS thread id is kept only for the record
                    "<thread_id>" => thread_id.clone(),
                    _ => {
                        let _ = tid;
                        thread_id.clone()
                    }
                };
                if !rest.starts_with(&w) {
                    return Some(json!({"what": "process / thread id differs", "token": t, "expected": w, "matched": shown, "rest": rest}));
                }
                shown.push_str(&w);
                rest = &rest[w.len()..];
                i += 1;
                continue;
            }
            let mut j = i;
            while j < toks.len() && numeric(toks[j]) {
                j += 1;
            }
            let n = rest.chars().take_while(|c| c.is_ascii_digit()).count();
            if n < j - i {
                return Some(json!({"what": "numeric atom missing", "matched": shown, "rest": rest}));
            }
            shown.push_str(&rest[..n]);
            rest = &rest[n..];
            i = j;
            continue;
        }
        i += 1;
        let want: Option<String> = match t {
            "<S:ERROR>" | "<S:WARN>" | "<S:INFO>" | "<S:TRACE>" => Some("\u{1}S".to_string()),
            "<S:0>" => Some("\u{1}0".to_string()),
            "<ERR>" => {
                if !rest.starts_with("{ERROR: ") {
                    return Some(json!({"what": "error marker missing where the specification has one", "matched": shown, "rest": rest}));
                }
                return None; // wording and extent of the marker are not compared
            }
            "<date>" => {
                if rest.starts_with("{ERROR: ") && !(i < toks.len() && toks[i] == "<fmt>" && toks[i..].iter().take_while(|t| **t != "</fmt>").any(|t| *t == "<ERR>")) {
                    return Some(json!({"what": "error marker where the specification renders a date", "matched": shown, "rest": rest}));
                }
                // the format and the zone follow as tokens: <fmt> chars </fmt> <utc>|<local>
                let mut j = i;
                let mut fmt = String::new();
                if j < toks.len() && toks[j] == "<fmt>" {
                    j += 1;
                    let mut has_err = false;
                    while j < toks.len() && toks[j] != "</fmt>" {
                        has_err |= toks[j] == "<ERR>";
                        fmt.push_str(&sub(toks[j]));
                        j += 1;
                    }
                    if has_err {
                        // the format itself contains an error marker (a syntax error inside the argument): the
                        // marker must be visible somewhere in the date's text; its wording is not compared
                        return if rest.contains("{ERROR: ") { None } else {
                            Some(json!({"what": "error inside a date format is not surfaced", "matched": shown, "rest": rest}))
                        };
                    }
                    let utc = toks.get(j + 1) == Some(&"<utc>");
                    i = j + 2;
                    if let Some((t0, t1)) = window {
                        if fmt == "%+" {
                            // RFC 3339 with sub-second digits: parse it back and place it in the window
                            // extent of the timestamp: date T time [.fraction] (Z | +hh:mm | -hh:mm)
                            let b = rest.as_bytes();
                            let mut n = 19.min(b.len());
                            if n < b.len() && b[n] == b'.' {
                                n += 1;
                                while n < b.len() && b[n].is_ascii_digit() {
                                    n += 1;
                                }
                            }
                            if n < b.len() && b[n] == b'Z' {
                                n += 1;
                            } else if n < b.len() && (b[n] == b'+' || b[n] == b'-') {
                                n = (n + 6).min(b.len());
                            }
                            match chrono::DateTime::parse_from_rfc3339(&rest[..n]) {
                                Ok(t) => {
                                    let off_ok = if utc { t.offset().local_minus_utc() == 0 } else {
                                        use chrono::{Offset, TimeZone};
                                        t.offset().local_minus_utc() == chrono::Local.from_utc_datetime(&t0.naive_utc()).offset().fix().local_minus_utc()
                                    };
                                    if t.with_timezone(&chrono::Utc) < t0 - chrono::Duration::seconds(1) || t.with_timezone(&chrono::Utc) > t1 + chrono::Duration::seconds(1) || !off_ok {
                                        return Some(json!({"what": "date differs (instant or zone)", "matched": shown, "rest": rest, "utc": utc}));
                                    }
                                    shown.push_str(&rest[..n]);
                                    rest = &rest[n..];
                                    continue;
                                }
                                Err(_) => return Some(json!({"what": "default date format is not RFC 3339", "matched": shown, "rest": rest})),
                            }
                        }
                        let cands = date_candidates(&fmt, utc, t0, t1);
                        match cands.iter().find(|c| rest.starts_with(c.as_str())) {
                            Some(c) => {
                                shown.push_str(c);
                                rest = &rest[c.len()..];
                                continue;
                            }
                            None => return Some(json!({"what": "date differs (format or zone)", "matched": shown, "format": fmt, "utc": utc, "expected_one_of": cands, "rest": rest})),
                        }
                    }
                }
                return None;
            }
            "<APPROX>" | "<HUGE>" | "<date?>" => return None,
            c => Some(sub(c)),
        };
        let w = want.unwrap();
        if !rest.starts_with(&w) {
            return Some(json!({"what": "output differs", "matched": shown, "expected_next": w, "rest": rest, "actual": text}));
        }
        shown.push_str(&w);
        rest = &rest[w.len()..];
    }
    if !rest.is_empty() {
        return Some(json!({"what": "output has extra text", "matched": shown, "extra": rest}));
    }
    None
}

fn check_case(case: &Value, rec: &RecSpec, idx: usize) -> Option<Value> {
    let pattern = sub(case["input"].as_str().unwrap());
    // a highlight group consults the record's level: every level must be safe (the comparison below is for the case's
    // own record)
    // (patterns with absurd widths are constructed only, never encoded)
    let absurd = case["out"].as_array().map(|a| a.iter().any(|t| t == "<HUGE>")).unwrap_or(false);
    if !absurd && (pattern.contains("{h") || pattern.contains("highlight")) {
        for l in [log::Level::Error, log::Level::Warn, log::Level::Info, log::Level::Debug, log::Level::Trace] {
            let r = catch(|| {
                let enc = log4rs::encode::pattern::PatternEncoder::new(&pattern);
                let mut cap = Cap::new(vec![]);
                let _ = enc.encode(&mut cap, &log::Record::builder().level(l).target("t").args(format_args!("m")).build());
            });
            if let Err(p) = r {
                return Some(json!({"what": "a pattern with a highlight group panicked for a record level", "level": l.to_string(), "error": p}));
            }
        }
    }
    let exp = &case["out"];
    let toks: Vec<&str> = exp.as_array().unwrap().iter().map(|t| t.as_str().unwrap()).collect();
    let huge = toks.contains(&"<HUGE>");
    let expects_error = toks.contains(&"<ERR>");
    // the sink accepts a prefix per write call for every fourth case
    let accept = if idx % 4 == 3 { vec![1, 0, 5, 2] } else { vec![] }; // 0: the call is interrupted and repeated
    match run_pattern(&pattern, rec, accept, huge, idx % 3 == 1) {
        Outcome::PanicNew(p) => Some(json!({"what": "PatternEncoder::new panicked", "error": p})),
        Outcome::PanicEncode(p) => Some(json!({"what": "encode panicked", "error": p})),
        Outcome::Constructed => None,
        Outcome::EncodeErr(e) => {
            if expects_error { None } else { Some(json!({"what": "encode returned an error for a pattern the specification renders", "error": e})) }
        }
        Outcome::Done(out, t0, t1, ids) => compare(exp, &out, Some((t0, t1)), Some(&ids)),
    }
}

/// `pattern <cases.ndjson> <out.ndjson>`; the first line may be {"meta":"rec","rec":{..}}
pub fn main(args: &[String]) {
    quiet_panics();
    let rows = read_ndjson(&args[0]);
    let meta = rows.iter().find(|r| r["meta"] == "rec").expect("rec meta");
    let rec = rec_from(&meta["rec"]);
    let cases: Vec<&Value> = rows.iter().filter(|r| r.get("meta").is_none()).collect();
    let _ = &rec;
    let res = par_map(&cases, threads(), |i, c| {
        // the record is rebuilt for every case with the representatives of that case
        set_sub_variant(mix(i) / 7);
        let r = match c.get("rec") {
            Some(v) if !v.is_null() => rec_from(v),
            _ => rec_from(&meta["rec"]),
        };
        check_case(c, &r, mix(i)).into_iter().map(|m| json!({"case": i, "input": c["input"], "expected": c["out"], "mismatch": m})).collect()
    });
    let mut res = res;
    res.extend(check_teardown());
    write_ndjson(&args[1], &res);
    println!("{}", json!({"cases": cases.len(), "mismatches": res.len()}));
}

/// A record encoded while its thread is going away: a thread-local scope guard, created before the thread's first
/// record, logs "worker finished" from its destructor.  The formatters that describe the thread and the record (name,
/// ids, level, message, target, location) need nothing that the thread has already given up at that point, and encode
/// does not panic (Pattern.tla: the value of a formatter is a function of the record and the thread).  Left out on
/// purpose: the date (chrono keeps the local zone in a thread-local of its own) and the MDC (log-mdc's map is a
/// thread-local with a destructor) - what those crates do after their thread-locals are gone is theirs.
fn check_teardown() -> Vec<Value> {
    use std::sync::{Arc, Mutex};
    struct Finisher {
        enc: Arc<log4rs::encode::pattern::PatternEncoder>,
        out: Arc<Mutex<Option<Result<String, String>>>>,
    }
    impl Drop for Finisher {
        fn drop(&mut self) {
            // (a panic that left a thread-local destructor would take the process down: it is caught here and reported)
            let enc = self.enc.clone();
            let r = catch(move || {
                let mut cap = Cap::new(vec![]);
                let r = enc.encode(&mut cap, &log::Record::builder().level(log::Level::Info).target("worker").module_path(Some("w::m")).file(Some("w.rs"))
                    .line(Some(7)).args(format_args!("finished")).build());
                let mut bytes = vec![];
                for o in &cap.out {
                    if let Out::Bytes(b) = o {
                        bytes.extend_from_slice(b);
                    }
                }
                r.map(|_| String::from_utf8_lossy(&bytes).to_string()).map_err(|e| e.to_string())
            });
            *self.out.lock().unwrap() = Some(match r {
                Ok(Ok(s)) => Ok(s),
                Ok(Err(e)) => Err(format!("error: {}", e)),
                Err(p) => Err(format!("panic: {}", p)),
            });
        }
    }
    thread_local! {
        static FINISHER: std::cell::RefCell<Option<Finisher>> = const { std::cell::RefCell::new(None) };
    }
    let mut out = vec![];
    for (pattern, named) in [("{T}|{m}", true), ("{thread}|{m}", false), ("{I}{i}|{m}", true), ("{P}{pid}|{l}", false), ("{h({l})} {t} {M} {f}:{L} {m}{n}", true),
                             ("{T:>12.12}|{I:<8}|{m}", true), ("{({T} {m}):30}", false)] {
        let enc = Arc::new(log4rs::encode::pattern::PatternEncoder::new(pattern));
        let slot: Arc<Mutex<Option<Result<String, String>>>> = Arc::new(Mutex::new(None));
        let (enc2, slot2) = (enc.clone(), slot.clone());
        let b = std::thread::Builder::new();
        let b = if named { b.name("worker-7".to_string()) } else { b };
        let first = b.spawn(move || {
            // the guard first, the thread's first record second: the guard goes last
            FINISHER.with(|f| *f.borrow_mut() = Some(Finisher { enc: enc2.clone(), out: slot2 }));
            let mut cap = Cap::new(vec![]);
            let _ = catch(|| enc2.encode(&mut cap, &log::Record::builder().level(log::Level::Info).target("worker").args(format_args!("started")).build()));
        }).unwrap().join();
        let got = slot.lock().unwrap().take();
        match (first, got) {
            (Ok(()), Some(Ok(text))) if text.contains("finished") || !pattern.contains("{m}") => {}
            (f, g) => out.push(json!({"case": "teardown", "input": pattern, "expected": Value::Null,
                                      "mismatch": {"what": "a record encoded from a thread-local destructor while the thread ends", "pattern": pattern,
                                                   "thread_joined": f.is_ok(), "result": format!("{:?}", g)}})),
        }
    }
    out
}

// ---------------------------------------------------------------- C10: width writers
// every class is instantiated by code points at the edges of its encoding range (first / last lead byte, first /
// last continuation byte) as well as ordinary members
const C1: [char; 7] = ['a', 'b', 'Z', '7', '\u{7f}', ' ', '\u{1}'];
const C2: [char; 7] = ['\u{e9}', '\u{fc}', '\u{301}', '\u{a9}', '\u{80}', '\u{bf}', '\u{7ff}']; // incl. a combining mark
const C3: [char; 7] = ['\u{4e16}', '\u{754c}', '\u{2713}', '\u{800}', '\u{d7ff}', '\u{e000}', '\u{ffff}'];
const C4: [char; 7] = ['\u{1F600}', '\u{1F389}', '\u{1D11E}', '\u{10000}', '\u{10ffff}', '\u{3ffff}', '\u{10348}'];

fn ch(class: u64, i: usize) -> char {
    match class {
        1 => C1[i % 7],
        2 => C2[i % 7],
        3 => C3[i % 7],
        _ => C4[i % 7],
    }
}

/// a message whose Display writes two characters and then panics
struct Exploding;
impl fmt::Display for Exploding {
    fn fmt(&self, f: &mut fmt::Formatter<'_>) -> fmt::Result {
        f.write_str("zz")?;
        panic!("Display of the message panicked");
    }
}

fn check_width(idx: usize, case: &Value) -> Option<Value> {
    let classes: Vec<u64> = case["text"].as_array().unwrap().iter().map(|v| v.as_u64().unwrap()).collect();
    let chars: Vec<char> = classes.iter().enumerate().map(|(i, c)| ch(*c, i + idx)).collect();
    let cuts: Vec<usize> = case["cuts"].as_array().unwrap().iter().map(|v| v.as_u64().unwrap() as usize).collect();
    let prm = &case["prm"];
    let (mn, mx) = (prm["min"].as_i64().unwrap(), prm["max"].as_i64().unwrap());
    let fill: char = match prm["fill"].as_u64().unwrap() {
        3 => ['\u{4e16}', '\u{2713}', '\u{800}', '\u{ffff}'][idx % 4],
        2 => ['\u{b7}', '\u{e9}', '\u{80}', '\u{7ff}', '\u{bf}'][idx % 5],
        _ => ['*', '}', ':', '0'][idx % 4],
    };
    let right = prm["align"] == "R";
    // every third case puts literal text with multi-byte characters in front of the spec (positions inside the pattern
    // are byte offsets for some parts of a parser and character counts for others)
    let prefix = if idx % 3 == 1 { "\u{e9}\u{4e16}|" } else { "" };
    // what the spec is attached to (WidthWriters.tla: the producer): the message formatter itself, a group around it, the
    // conditional group that is active in this build (its body is the text), a group around the text as literal characters of
    // the pattern - and, for the empty text, the conditional
    // group that is inactive in this build around a body that is not empty (its text is nothing: all padding)
    let (active, inactive) = if cfg!(debug_assertions) { ("D", "R") } else { ("R", "D") };
    let (open, close) = match (idx / 3) % 4 {
        _ if chars.is_empty() && idx % 2 == 0 => (format!("{{{}(zz{{m}}", inactive), ")"),
        1 => ("{({m}".to_string(), ")"),
        2 => (format!("{{{}({{m}}", active), ")"),
        // (every eighth case of the remaining kind: a group with an empty highlight group in front of the message - the
        // style requests travel through the width writers, the text is the message's)
        0 | 3 if idx % 8 == 5 => ("{({h()}{m}".to_string(), ")"),
        // the text as literal characters of the pattern inside a group (none of them is a syntax character)
        3 if !chars.is_empty() => (format!("{{({}", chars.iter().collect::<String>()), ")"),
        _ => ("{m".to_string(), ""),
    };
    let mut pattern = format!("{}{}{}", prefix, open, close);
    if mn >= 0 || mx >= 0 {
        pattern.push(':');
        if mn >= 0 {
            pattern.push(fill);
            pattern.push(if right { '>' } else { '<' });
            pattern.push_str(&mn.to_string());
        }
        if mx >= 0 {
            pattern.push('.');
            pattern.push_str(&mx.to_string());
        }
    }
    pattern.push('}');
    // the message arrives in pieces cut at the given character positions
    let mut pieces: Vec<String> = vec![];
    let mut cur = String::new();
    for (i, c) in chars.iter().enumerate() {
        cur.push(*c);
        if cuts.contains(&(i + 1)) {
            pieces.push(std::mem::take(&mut cur));
        }
    }
    if !cur.is_empty() || pieces.is_empty() {
        pieces.push(cur);
    }
    let script: Vec<usize> = case["script"].as_array().unwrap().iter().map(|v| v.as_u64().unwrap() as usize).collect();
    // every third case builds the encoder from a configuration value
    let enc: Box<dyn log4rs::encode::Encode> = match catch(|| -> Result<Box<dyn log4rs::encode::Encode>, String> {
        if idx % 3 == 2 {
            let v: serde_value::Value = serde_json::from_value(json!({"pattern": pattern})).unwrap();
            log4rs::config::Deserializers::default().deserialize::<dyn log4rs::encode::Encode>("pattern", v).map_err(|e| e.to_string())
        } else {
            Ok(Box::new(log4rs::encode::pattern::PatternEncoder::new(&pattern)))
        }
    }) {
        Ok(Ok(e)) => e,
        Ok(Err(e)) => return Some(json!({"what": "encoder from configuration failed", "pattern": pattern, "error": e})),
        Err(p) => return Some(json!({"what": "PatternEncoder::new panicked", "pattern": pattern, "error": p})),
    };
    // an earlier record of this thread that went wrong half-way - its sink failed after a few bytes, or its message's
    // Display implementation panicked - must leave nothing behind in the width writers
    {
        let mut broken = Cap::new(vec![]);
        broken.fail_after = Some((idx % 5) * 3);
        let earlier = Pieces(&pieces);
        let _ = catch(|| enc.encode(&mut broken, &log::Record::builder().level(log::Level::Info).args(format_args!("{}", earlier)).build()));
        if idx % 2 == 1 {
            let mut sink = Cap::new(vec![]);
            let _ = catch(|| enc.encode(&mut sink, &log::Record::builder().level(log::Level::Info).args(format_args!("{}", Exploding)).build()));
        }
    }
    let mut cap = Cap::new(script);
    let msg = Pieces(&pieces);
    let r = catch(|| enc.encode(&mut cap, &log::Record::builder().level(log::Level::Info).args(format_args!("{}", msg)).build()));
    match r {
        Err(p) => return Some(json!({"what": "encode panicked", "pattern": pattern, "error": p})),
        Ok(Err(e)) => return Some(json!({"what": "encode failed", "pattern": pattern, "error": e.to_string()})),
        Ok(Ok(())) => {}
    }
    let mut bytes = vec![];
    for o in &cap.out {
        if let Out::Bytes(b) = o {
            bytes.extend_from_slice(b);
        }
    }
    let got = match String::from_utf8(bytes) {
        Ok(s) => s,
        Err(e) => return Some(json!({"what": "output is not valid UTF-8", "pattern": pattern, "pieces": pieces, "bytes": format!("{:?}", e.as_bytes())})),
    };
    let got = match got.strip_prefix(prefix) {
        Some(g) => g.to_string(),
        None => return Some(json!({"what": "literal text before the spec is not rendered", "pattern": pattern, "actual": got})),
    };
    if mx >= 0 && got.chars().count() as i64 > mx {
        return Some(json!({"what": "more than max characters emitted", "pattern": pattern, "pieces": pieces, "actual": got}));
    }
    if case["exact"].as_bool().unwrap() {
        let keep = case["keep"].as_u64().unwrap() as usize;
        let pad = case["pad"].as_u64().unwrap() as usize;
        let body: String = chars[..keep].iter().collect();
        let padding: String = std::iter::repeat(fill).take(pad).collect();
        let want = if right { format!("{}{}", padding, body) } else { format!("{}{}", body, padding) };
        if got != want {
            return Some(json!({"what": "width law", "pattern": pattern, "pieces": pieces, "accept_script": case["script"], "expected": want, "actual": got}));
        }
        // the law composes through nested groups: a quarter of the cases wrap the whole spec'd item into a group with a
        // spec of its own.  The group's text is what the inner law gave (WidthWriters.tla, Expected), and the outer law -
        // cut to the first M, then pad to m - applies to that text: minimum beyond the inner text, maximum below it, both
        // at once, and a minimum that is larger than the INNER maximum
        if idx % 4 == 2 {
            let inner: Vec<char> = want.chars().collect();
            let n = inner.len();
            let (omin, omax): (Option<usize>, Option<usize>) = match (idx / 4) % 4 {
                0 => (Some(n + 1 + idx % 3), None),
                1 => (None, Some(n.saturating_sub(1 + idx % 2))),
                2 => (Some(n + 2), Some(n + 2)),
                _ => (Some(if mx >= 0 { mx as usize + 2 + idx % 2 } else { n + 3 }), None),
            };
            let oright = (idx / 16) % 2 == 1;
            let ofill = ['#', ' '][(idx / 32) % 2];
            let inner_pattern = &pattern[prefix.len()..];
            let mut outer = format!("{}{{({})", prefix, inner_pattern);
            outer.push(':');
            if let Some(m) = omin {
                outer.push(ofill);
                outer.push(if oright { '>' } else { '<' });
                outer.push_str(&m.to_string());
            }
            if let Some(m) = omax {
                outer.push('.');
                outer.push_str(&m.to_string());
            }
            outer.push('}');
            let cut: String = inner.iter().take(omax.unwrap_or(usize::MAX)).collect();
            let padn = omin.map(|m| m.saturating_sub(cut.chars().count())).unwrap_or(0);
            let padding: String = std::iter::repeat(ofill).take(padn).collect();
            let want2 = format!("{}{}", prefix, if oright { format!("{}{}", padding, cut) } else { format!("{}{}", cut, padding) });
            let enc2 = match catch(|| log4rs::encode::pattern::PatternEncoder::new(&outer)) {
                Ok(e) => e,
                Err(p) => return Some(json!({"what": "PatternEncoder::new panicked", "pattern": outer, "error": p})),
            };
            let mut cap2 = Cap::new(vec![]);
            let msg2 = Pieces(&pieces);
            match catch(|| enc2.encode(&mut cap2, &log::Record::builder().level(log::Level::Info).args(format_args!("{}", msg2)).build())) {
                Err(p) => return Some(json!({"what": "encode panicked", "pattern": outer, "error": p})),
                Ok(Err(e)) => return Some(json!({"what": "encode failed", "pattern": outer, "error": e.to_string()})),
                Ok(Ok(())) => {}
            }
            let mut b2 = vec![];
            for o in &cap2.out {
                if let Out::Bytes(b) = o {
                    b2.extend_from_slice(b);
                }
            }
            let got2 = String::from_utf8_lossy(&b2).to_string();
            if got2 != want2 {
                return Some(json!({"what": "width law through a nested group", "pattern": outer, "pieces": pieces, "expected": want2, "actual": got2}));
            }
        }
    }
    None
}

/// `width <cases.ndjson> <out.ndjson>`
/// Beyond the enumeration bound (WidthWriters.tla has no largest width): minimum and maximum widths around 2^16 and
/// 2^20 and at 2^21 + 1 - the field has exactly that many characters, the text at the right end; a text longer than
/// the maximum is cut to exactly its first M characters.
fn check_big_widths() -> Vec<Value> {
    let mut out = vec![];
    for w in [65_535usize, 65_536, 65_537, 1_048_575, 1_048_576, 1_048_577, 2_097_153] {
        for (kind, pattern, msg) in [("min", format!("{{m:\u{e9}>{}}}", w), "ab".to_string()),
                                     ("max", format!("{{m:.{}}}", w), "\u{4e16}".repeat(w + 3)),
                                     ("group", format!("{{({{m}}|):>{}.{}}}", w, w + 1), "ab".to_string())] {
            let enc = log4rs::encode::pattern::PatternEncoder::new(&pattern);
            let mut cap = Cap::new(vec![]);
            let r = catch(|| enc.encode(&mut cap, &log::Record::builder().level(log::Level::Info).args(format_args!("{}", msg)).build()));
            let mut bytes = vec![];
            for o in &cap.out {
                if let Out::Bytes(b) = o {
                    bytes.extend_from_slice(b);
                }
            }
            let text = String::from_utf8_lossy(&bytes).to_string();
            let chars = text.chars().count();
            let ok = matches!(r, Ok(Ok(()))) && chars == w && match kind {
                "min" => text.ends_with("ab") && text.starts_with('\u{e9}'),
                "max" => text.chars().all(|c| c == '\u{4e16}'),
                _ => text.ends_with("ab|"),
            };
            if !ok {
                out.push(json!({"case": -1, "input": {"kind": kind, "width": w, "pattern": pattern},
                                "mismatch": {"what": "width law far beyond the enumeration bound", "expected_characters": w, "actual_characters": chars,
                                             "result": format!("{:?}", r.map(|x| x.map_err(|e| e.to_string()))), "tail": text.chars().rev().take(8).collect::<String>()}}));
            }
        }
    }
    out
}

pub fn main_width(args: &[String]) {
    quiet_panics();
    let rows = read_ndjson(&args[0]);
    let res = par_map(&rows, threads(), |i, c| {
        check_width(mix(i), c).into_iter().map(|m| json!({"case": i, "input": c, "mismatch": m})).collect()
    });
    let mut res = res;
    res.extend(check_big_widths());
    write_ndjson(&args[1], &res);
    println!("{}", json!({"cases": rows.len(), "mismatches": res.len()}));
}

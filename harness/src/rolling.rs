//! C05 / C06 / C08 / C17: replay of Rolling.tla behaviours on the real RollingFileAppender,
//! CompoundPolicy, SizeTrigger / OnStartUpTrigger / scripted triggers, FixedWindowRoller /
//! DeleteRoller. After every operation the directory is parsed back into record ids and
//! compared with the specification's disk; results are compared with ok / err.
use crate::{fsutil::*, util::*};
use log4rs::append::rolling_file::{
    policy::{
        compound::{
            roll::{delete::DeleteRoller, fixed_window::FixedWindowRoller, Roll},
            trigger::{onstartup::OnStartUpTrigger, size::SizeTrigger, Trigger},
            CompoundPolicy,
        },
        Policy,
    },
    LogFile, RollingFileAppender,
};
use log4rs::append::Append;
use log4rs::encode::{Encode, Write as EncWrite};
use serde_json::{json, Value};
use std::{
    cell::RefCell,
    collections::VecDeque,
    fs, io,
    path::{Path, PathBuf},
    sync::{Arc, Mutex},
};

// ---------------------------------------------------------------- record format
pub fn payload(id: i64, sz: i64, unit: usize) -> String {
    if sz == 0 {
        return String::new(); // a record that encodes to nothing
    }
    let total = sz as usize * unit;
    let head = format!("#{},{},", id, sz);
    let fill = (b'a' + (id.rem_euclid(26)) as u8) as char;
    let mut s = head;
    if unit >= 10_000 {
        // large units are filled with text that does not compress: an archive of a few of them is larger than any
        // buffer a compressing roller keeps
        let mut r = crate::rng::Rng::new(id.rem_euclid(1 << 20) as u64 * 977 + sz as u64);
        const ALNUM: &[u8] = b"0123456789abcdefghijklmnopqrstuvwxyzABCDEFGHIJKLMNOPQRSTUVWXYZ+/";
        while s.len() < total - 1 {
            s.push(ALNUM[(r.next() % 64) as usize] as char);
        }
        s.push('\n');
        return s;
    }
    // every third record is filled with a two-byte character: bytes and characters differ
    let wide = id.rem_euclid(3) == 1;
    while s.len() < total - 1 {
        if wide && s.len() + 2 <= total - 1 {
            s.push('\u{e9}');
        } else {
            s.push(fill);
        }
    }
    s.push('\n');
    assert_eq!(s.len(), total, "unit too small for header");
    s
}

/// Parses file bytes into record ids; Err describes the first malformed record.
pub fn parse_ids(bytes: &[u8], unit: usize) -> Result<Vec<i64>, String> {
    let mut ids = vec![];
    let mut rest = bytes;
    while !rest.is_empty() {
        let nl = match rest.iter().position(|b| *b == b'\n') {
            Some(p) => p,
            None => {
                // a torn record at the very end of the file
                let text = String::from_utf8_lossy(rest).to_string();
                let mut parts = text.trim_start_matches('#').splitn(3, ',');
                if let (Some(id), Some(sz)) = (parts.next().and_then(|x| x.parse::<i64>().ok()), parts.next().and_then(|x| x.parse::<i64>().ok())) {
                    if text.starts_with('#') && sz >= 2 && rest.len() % unit == 0 && rest.len() < sz as usize * unit
                        && payload(id, sz, unit).as_bytes().starts_with(rest) {
                        ids.push(id + 100000);
                        break;
                    }
                }
                return Err(format!("truncated record at the end: {}", show(rest)));
            }
        };
        let line = &rest[..=nl];
        let text = String::from_utf8_lossy(line).to_string();
        let mut parts = text.trim_start_matches('#').splitn(3, ',');
        let id: i64 = parts.next().and_then(|x| x.parse().ok()).ok_or_else(|| format!("bad record {}", show(line)))?;
        let sz: i64 = parts.next().and_then(|x| x.parse().ok()).ok_or_else(|| format!("bad record {}", show(line)))?;
        if !text.starts_with('#') || text != payload(id, sz, unit) {
            // a torn record: the first k units of payload(id, sz) with the next record (or the end) right behind
            // them - what a write call that the operating system cut short leaves (Rolling.tla, EncFail with os)
            if text.starts_with('#') && sz >= 2 {
                let full = payload(id, sz, unit).into_bytes();
                if let Some(k) = (1..sz as usize).rev().find(|k| rest.len() >= k * unit && rest[..k * unit] == full[..k * unit]
                    && (rest.len() == k * unit || rest[k * unit] == b'#')) {
                    ids.push(id + 100000);
                    rest = &rest[k * unit..];
                    continue;
                }
            }
            return Err(format!("corrupt record {}", show(line)));
        }
        ids.push(id);
        rest = &rest[nl + 1..];
    }
    Ok(ids)
}

// ---------------------------------------------------------------- components
#[derive(Debug)]
struct ChunkedEncoder;
impl Encode for ChunkedEncoder {
    fn encode(&self, w: &mut dyn EncWrite, record: &log::Record) -> anyhow::Result<()> {
        let s = record.args().to_string();
        // two pieces, cut at a byte position (it may fall inside a character), handed over through every entry
        // point of io::Write in turn: what the writer accepted is what counts, whichever way it came in
        let b = s.as_bytes();
        let cut = b.len() / 3;
        // (the second byte of a payload is the last digit of the record id)
        match b.get(1).map(|d| (*d as usize) % 4).unwrap_or(0) {
            0 => {
                w.write_all(&b[..cut])?;
                w.write_all(&b[cut..])?;
            }
            1 => {
                // vectored, repeating until both pieces are taken
                let (mut a, mut c) = (&b[..cut], &b[cut..]);
                while !a.is_empty() || !c.is_empty() {
                    let n = w.write_vectored(&[io::IoSlice::new(a), io::IoSlice::new(c)])?;
                    if n == 0 {
                        anyhow::bail!("write_vectored accepted nothing");
                    }
                    let na = n.min(a.len());
                    a = &a[na..];
                    c = &c[n - na..];
                }
            }
            2 => {
                // plain write calls, looping over short counts
                let mut rest = b;
                while !rest.is_empty() {
                    let n = w.write(rest)?;
                    rest = &rest[n..];
                }
            }
            _ => {
                // through the formatting machinery (write_fmt), piece by piece on character boundaries
                let mut cut = cut;
                while !s.is_char_boundary(cut) {
                    cut += 1;
                }
                write!(w, "{}", &s[..cut])?;
                write!(w, "{}", &s[cut..])?;
            }
        }
        Ok(())
    }
}

/// Rolling.tla EncFail: when armed, writes the given text (a well-formed shorter record, or nothing) and fails.
struct FaultyEncoder {
    inner: Box<dyn Encode>,
    script: Arc<Mutex<Option<String>>>,
}
impl std::fmt::Debug for FaultyEncoder {
    fn fmt(&self, f: &mut std::fmt::Formatter<'_>) -> std::fmt::Result {
        f.write_str("FaultyEncoder")
    }
}
impl Encode for FaultyEncoder {
    fn encode(&self, w: &mut dyn EncWrite, record: &log::Record) -> anyhow::Result<()> {
        if let Some(part) = self.script.lock().unwrap().take() {
            w.write_all(part.as_bytes())?;
            anyhow::bail!("scripted encoder failure");
        }
        self.inner.encode(w, record)
    }
}
#[derive(serde::Deserialize)]
struct FaultyConfig {
    pattern: String,
}
struct FaultyDeserializer {
    script: Arc<Mutex<Option<String>>>,
}
impl log4rs::config::Deserialize for FaultyDeserializer {
    type Trait = dyn Encode;
    type Config = FaultyConfig;
    fn deserialize(&self, c: FaultyConfig, _: &log4rs::config::Deserializers) -> anyhow::Result<Box<dyn Encode>> {
        Ok(Box::new(FaultyEncoder { inner: Box::new(log4rs::encode::pattern::PatternEncoder::new(&c.pattern)), script: self.script.clone() }))
    }
}

/// Rolling.tla Roller = "noop": a user-defined roller that returns Ok without touching the file
#[derive(Debug)]
struct NoopRoller;
impl Roll for NoopRoller {
    fn roll(&self, _file: &Path) -> anyhow::Result<()> {
        log4rs::verif::fault_point("rotate.final", 0)?; // the scripted faults of the "remove" step apply here
        Ok(())
    }
}
#[derive(serde::Deserialize)]
struct NoopConfig {}
struct NoopRollerDeserializer;
impl log4rs::config::Deserialize for NoopRollerDeserializer {
    type Trait = dyn Roll;
    type Config = NoopConfig;
    fn deserialize(&self, _: NoopConfig, _: &log4rs::config::Deserializers) -> anyhow::Result<Box<dyn Roll>> {
        Ok(Box::new(NoopRoller))
    }
}

#[derive(Debug)]
struct ScriptedTrigger {
    pre: bool,
    decisions: Arc<Mutex<VecDeque<bool>>>,
    consulted: Arc<Mutex<usize>>,
}
impl Trigger for ScriptedTrigger {
    fn trigger(&self, _file: &LogFile) -> anyhow::Result<bool> {
        *self.consulted.lock().unwrap() += 1;
        Ok(self.decisions.lock().unwrap().pop_front().unwrap_or(false))
    }
    fn is_pre_process(&self) -> bool {
        self.pre
    }
}

/// C06 observation point: at every policy consultation the size shown to the policy must equal
/// the size on disk.
#[derive(Debug)]
struct CheckedPolicy {
    inner: PolicyKind,
    bad: Arc<Mutex<Vec<(u64, u64)>>>,
    calls: Arc<Mutex<usize>>,
    /// bytes a failed encoder left in the appender's buffer (Rolling.tla writer.buf): a pre-processing policy is
    /// consulted before they are flushed
    buffered: Arc<std::sync::atomic::AtomicU64>,
}
/// the library's compound policy, or a policy of the harness's own that does what the compound policy does and looks
/// at the size again between `roll()` and the roller: the file is still at its path with all its bytes then, and the
/// size shown is still that size (Rolling.tla, BeginRoll)
#[derive(Debug)]
enum PolicyKind {
    Compound(CompoundPolicy),
    Own(Box<dyn Trigger>, Box<dyn Roll>),
}
impl PolicyKind {
    fn is_pre_process(&self) -> bool {
        match self {
            PolicyKind::Compound(p) => p.is_pre_process(),
            PolicyKind::Own(t, _) => t.is_pre_process(),
        }
    }
}
impl Policy for CheckedPolicy {
    fn process(&self, log: &mut LogFile) -> anyhow::Result<()> {
        *self.calls.lock().unwrap() += 1;
        let shown = log.len_estimate();
        let mut real = fs::metadata(log.path()).map(|m| m.len()).unwrap_or(u64::MAX);
        if self.inner.is_pre_process() {
            real = real.saturating_add(self.buffered.load(std::sync::atomic::Ordering::SeqCst));
        }
        if shown != real {
            self.bad.lock().unwrap().push((shown, real));
        }
        match &self.inner {
            PolicyKind::Compound(p) => p.process(log),
            PolicyKind::Own(trigger, roller) => {
                if trigger.trigger(log)? {
                    log.roll();
                    let shown = log.len_estimate();
                    let real = fs::metadata(log.path()).map(|m| m.len()).unwrap_or(u64::MAX);
                    if shown != real {
                        self.bad.lock().unwrap().push((shown, real));
                    }
                    roller.roll(log.path())?;
                }
                Ok(())
            }
        }
    }
    fn is_pre_process(&self) -> bool {
        self.inner.is_pre_process()
    }
}

// ---------------------------------------------------------------- hook state (per thread)
#[derive(Default)]
struct HookState {
    fault: Option<(String, u64)>,       // armed step fault: (point, index)
    crash: Option<(String, Option<u64>)>, // take the crash image at this point
    image_src: PathBuf,
    image_dst: PathBuf,
    image_taken: bool,
    fault_fired: usize,
}
thread_local! {
    static HOOK: RefCell<HookState> = RefCell::new(HookState::default());
}

fn install_hook() {
    log4rs::verif::set_thread_callback(Some(Arc::new(|name: &str, arg: u64| -> io::Result<()> {
        HOOK.with(|h| {
            let mut h = h.borrow_mut();
            if let Some((p, a)) = h.crash.clone() {
                if p == name && a.map(|x| x == arg).unwrap_or(true) && !h.image_taken {
                    copy_tree(&h.image_src, &h.image_dst);
                    h.image_taken = true;
                }
            }
            if let Some((p, a)) = h.fault.clone() {
                if p == name && a == arg {
                    h.fault = None;
                    h.fault_fired += 1;
                    return Err(io::Error::new(io::ErrorKind::Other, "injected fault"));
                }
            }
            Ok(())
        })
    })));
}

/// RLIMIT_FSIZE for the whole process (SIGXFSZ ignored, so that a write beyond the limit fails with EFBIG after
/// the part that still fits was written)
fn set_fsize_limit(limit: Option<u64>) {
    unsafe {
        libc::signal(libc::SIGXFSZ, libc::SIG_IGN);
        let mut rl = libc::rlimit { rlim_cur: 0, rlim_max: 0 };
        libc::getrlimit(libc::RLIMIT_FSIZE, &mut rl);
        rl.rlim_cur = match limit {
            Some(l) => l as libc::rlim_t,
            None => rl.rlim_max,
        };
        libc::setrlimit(libc::RLIMIT_FSIZE, &rl);
    }
}

// ---------------------------------------------------------------- one materialisation of a case
#[derive(Clone, Copy, Debug)]
pub struct Mat {
    pub unit: usize,
    pub gz: bool,
    pub chunked: bool,
    pub delete_roller: bool, // use DeleteRoller (true) or FixedWindowRoller with count 0 (false) when Roller=delete/count=0
    pub via_config: bool,    // build the appender through the configuration deserializers instead of the builders
    pub dir_pattern: bool,   // the index is in a directory component of the archive pattern (<dir>/w{}/arch.log)
    pub cross_mount: bool,   // the active file lives on another filesystem than the archives (rename fails, copy fallback)
}

/// harness trigger kind `scripted` for configuration-built appenders
#[derive(serde::Deserialize)]
struct ScriptedConfig {
    pre: bool,
}
struct ScriptedDeserializer {
    decisions: Arc<Mutex<VecDeque<bool>>>,
    consulted: Arc<Mutex<usize>>,
}
impl log4rs::config::Deserialize for ScriptedDeserializer {
    type Trait = dyn Trigger;
    type Config = ScriptedConfig;
    fn deserialize(&self, c: ScriptedConfig, _: &log4rs::config::Deserializers) -> anyhow::Result<Box<dyn Trigger>> {
        Ok(Box::new(ScriptedTrigger { pre: c.pre, decisions: self.decisions.clone(), consulted: self.consulted.clone() }))
    }
}

/// how often the end of a history found a rotation still running (shows that the build really rotates in the background)
pub static BG_WAITS: std::sync::atomic::AtomicUsize = std::sync::atomic::AtomicUsize::new(0);

struct World {
    act_dir: Option<PathBuf>,
    /// where the archives are reached by the appender, when that is not `dir` itself: a symbolic link to it (its
    /// target can be moved away: Rolling.tla, the obstacle "nodir")
    link: Option<PathBuf>,
    dir: PathBuf,
    mat: Mat,
    base: i64,
    count: i64,
    window: bool,
}

impl World {
    fn act(&self) -> PathBuf {
        self.act_dir.as_ref().unwrap_or(&self.dir).join("active.log")
    }
    /// the active path as it is spelled for the appender: in two materialisations its last component is a reference
    /// to an environment variable (the appender expands it; Rolling.tla's active file is the file at the expanded path)
    fn act_spelled(&self) -> PathBuf {
        if self.mat.unit == 12 || self.mat.unit == 14 {
            self.act().parent().unwrap().join("$ENV{LV_ROLL_LEAF}")
        } else {
            self.act()
        }
    }
    fn arch(&self, i: i64) -> PathBuf {
        PathBuf::from(self.pattern_at(&self.dir).replace("{}", &i.to_string()))
    }
    fn pattern(&self) -> String {
        self.pattern_at(self.link.as_ref().unwrap_or(&self.dir))
    }
    fn pattern_at(&self, d: &Path) -> String {
        let leaf = if self.mat.gz { "arch.{}.log.gz" } else { "arch.{}.log" };
        if self.mat.dir_pattern {
            d.join("w{}").join(leaf.replace(".{}", "")).to_string_lossy().to_string()
        } else {
            d.join(leaf).to_string_lossy().to_string()
        }
    }
    /// background rotation (harness feature `bgrot`): roll() renames the active file to `active.<seconds>` and a
    /// thread rotates it into the window; the directory is the specification's at quiescence, i.e. once no such
    /// temporary file is left (BackgroundRotation.tla, QuiescentWindow)
    fn settle(&self) -> Result<(), String> {
        if !cfg!(feature = "bgrot") {
            return Ok(());
        }
        let act_dir = self.act().parent().unwrap().to_path_buf();
        let t0 = std::time::Instant::now();
        loop {
            let pending: Vec<String> = fs::read_dir(&act_dir)
                .into_iter()
                .flatten()
                .flatten()
                .map(|e| e.file_name().to_string_lossy().to_string())
                .filter(|n| n.strip_prefix("active.").map(|x| !x.is_empty() && x.chars().all(|c| c.is_ascii_digit())).unwrap_or(false))
                .collect();
            if !pending.is_empty() {
                BG_WAITS.fetch_add(1, std::sync::atomic::Ordering::Relaxed);
            }
            if pending.is_empty() {
                // the rotation thread sets `ready` right after its last move; give it the moment to do so
                std::thread::sleep(std::time::Duration::from_micros(200));
                return Ok(());
            }
            if t0.elapsed() > std::time::Duration::from_secs(10) {
                return Err(format!("temporary files never archived: {:?}", pending));
            }
            std::thread::sleep(std::time::Duration::from_micros(300));
        }
    }
    /// the projection compared with the specification's `disk`
    fn observe(&self) -> Value {
        let entry = |p: &Path, gz: bool| -> Value {
            if fs::read_link(p).map(|t| t == Path::new("/dev/full")).unwrap_or(false) {
                return json!({"k": "full", "d": []}); // the obstacle that cannot be written (never read through it)
            }
            if p.is_dir() {
                return json!({"k": "dir", "d": []});
            }
            match fs::read(p) {
                Err(_) => json!({"k": "absent", "d": []}),
                Ok(mut bytes) => {
                    if gz {
                        use std::io::Read;
                        let mut o = vec![];
                        let mut d = flate2::bufread::GzDecoder::new(&bytes[..]);
                        if d.read_to_end(&mut o).is_err() {
                            return json!({"k": "file", "corrupt": "bad gzip stream"});
                        }
                        if !d.into_inner().is_empty() {
                            return json!({"k": "file", "corrupt": "bytes after the gzip member"});
                        }
                        bytes = o;
                    }
                    match parse_ids(&bytes, self.mat.unit) {
                        Ok(ids) => json!({"k": "file", "d": ids}),
                        Err(e) => json!({"k": "file", "corrupt": e}),
                    }
                }
            }
        };
        let mut arch = serde_json::Map::new();
        for i in self.base..=self.base + self.count {
            arch.insert(i.to_string(), entry(&self.arch(i), self.mat.gz));
        }
        // anything else in the directory is a file outside the managed names
        let mut strays = vec![];
        let managed: Vec<PathBuf> = (self.base..=self.base + self.count).map(|i| self.arch(i)).chain([self.act()]).collect();
        if let Ok(rd) = fs::read_dir(&self.dir) {
            for e in rd.flatten() {
                if managed.contains(&e.path()) {
                    continue;
                }
                // with the index in a directory component the per-index directories themselves are managed (empty
                // or not); whatever else is inside them is a stray
                if self.mat.dir_pattern && managed.iter().any(|m| m.parent() == Some(&e.path())) {
                    for inner in fs::read_dir(e.path()).into_iter().flatten().flatten() {
                        if !managed.contains(&inner.path()) {
                            strays.push(format!("{}/{}", e.file_name().to_string_lossy(), inner.file_name().to_string_lossy()));
                        }
                    }
                    continue;
                }
                strays.push(e.file_name().to_string_lossy().to_string());
            }
        }
        if let Some(ad) = &self.act_dir {
            for e in fs::read_dir(ad).into_iter().flatten().flatten() {
                if e.path() != self.act() {
                    strays.push(format!("<active dir>/{}", e.file_name().to_string_lossy()));
                }
            }
        }
        json!({"act": entry(&self.act(), false), "arch": arch, "strays": strays})
    }
}

fn norm_expected(disk: &Value, base: i64) -> Value {
    // arch may be rendered as an array (domain 1..n) or as an object
    let mut arch = serde_json::Map::new();
    if let Some(a) = disk["arch"].as_array() {
        for (j, e) in a.iter().enumerate() {
            arch.insert((base + j as i64).to_string(), e.clone());
        }
    } else {
        for (k, e) in disk["arch"].as_object().unwrap() {
            arch.insert(k.clone(), e.clone());
        }
    }
    json!({"act": disk["act"], "arch": arch, "strays": []})
}

pub fn replay_case(case: &Value, mat: Mat) -> Option<Value> {
    let p = &case["params"];
    let base = p["base"].as_i64().unwrap();
    let count = p["count"].as_i64().unwrap();
    let window = p["roller"] == "window" && count > 0;
    let append_mode = p["append"].as_bool().unwrap();
    let trig = p["trig"].as_str().unwrap().to_string();
    let limit = p["limit"].as_u64().unwrap();
    // histories with encoder failures depend on how many units fit into the 1 KiB BufWriter: each instance names
    // the class of units it speaks about (0 = no encoder failure, any unit)
    let buf_floor = p["buf"].as_u64().unwrap_or(0);
    if buf_floor != 0 && (if 1024 / mat.unit >= 50 { 99 } else { 1024 / mat.unit as u64 }) != buf_floor {
        return None;
    }
    if p["full"].as_bool().unwrap_or(false) && mat.chunked {
        return None; // (a record handed over in several write calls is accepted in part when the buffer overflows: not modelled)
    }
    if mat.unit == 600 && buf_floor != 1 {
        return None; // (this materialisation exists for the instances about its class of units)
    }
    // (bgrot build) histories with a directory in the way of an archive: the rotation fails on its own thread and nobody is
    // told.  What the window then looks like is not Rolling.tla's subject (it has the roller's error returned), but one
    // thing holds whatever the roller did: the newest acknowledged record is in a file - retention discards whole OLDEST
    // files only.  These histories run with that one check.
    let mut bg_lenient = false;
    if cfg!(feature = "bgrot") {
        // fault hooks are per thread and would not reach the rotation thread; errors of a background rotation are
        // not returned to the appender: only unperturbed histories are replayed step by step in this build
        let ops = case["ops"].as_array().unwrap();
        if ops.iter().any(|o| matches!(o["op"].as_str(), Some("arm")) || matches!(o["res"].as_str(), Some("crash") | Some("encfail"))
                              || (o["op"] == "obstruct" && o["kind"] != "dir")) {
            return None;
        }
        bg_lenient = ops.iter().any(|o| o["op"] == "obstruct");
    }
    let mut last_acked: Option<String> = None;
    // instances whose final rotation step compresses speak about .gz patterns only
    if p["gz"].as_bool().unwrap_or(false) && !mat.gz {
        return None;
    }
    // a limit of 10^9 units and more stands for "larger than anything a file will ever be": the top of the u64 range
    let limit_bytes: u64 = if limit >= 1_000_000_000 {
        [u64::MAX, 1 << 63, (1 << 63) + 5, u64::MAX / 2 + 1][(mat.unit + case["ops"].as_array().unwrap().len()) % 4]
    } else {
        limit * mat.unit as u64
    };
    let scratch = Scratch::new("roll");
    let other = if mat.cross_mount {
        // crash images are single-directory copies: histories with process death are left to the other materialisations
        if case["ops"].as_array().unwrap().iter().any(|o| o["res"] == "crash") {
            return None;
        }
        match Scratch::other_mount("roll") {
            Some(s) => Some(s),
            None => return None,
        }
    } else {
        None
    };
    let nodir = case["ops"].as_array().unwrap().iter().any(|o| o["op"] == "obstruct" && o["kind"] == "nodir");
    if nodir && !mat.cross_mount {
        return None; // (one materialisation reaches its archives through a symbolic link)
    }
    let mut world = World { act_dir: other.as_ref().map(|s| s.path().to_path_buf()), link: None, dir: scratch.path().join("d0"), mat, base, count, window };
    fs::create_dir_all(&world.dir).unwrap();
    if nodir {
        let l = scratch.path().join("archives-link");
        std::os::unix::fs::symlink(&world.dir, &l).unwrap();
        world.link = Some(l);
    }
    let mut generation = 0;
    install_hook();
    HOOK.with(|h| *h.borrow_mut() = HookState::default());
    let decisions = Arc::new(Mutex::new(VecDeque::new()));
    let consulted = Arc::new(Mutex::new(0usize));
    let bad_len = Arc::new(Mutex::new(vec![]));
    let policy_calls = Arc::new(Mutex::new(0usize));
    let enc_script: Arc<Mutex<Option<String>>> = Arc::new(Mutex::new(None));
    let buffered = Arc::new(std::sync::atomic::AtomicU64::new(0));
    let mut appender: Option<Box<dyn Append>> = None;
    let ops = case["ops"].as_array().unwrap();
    let has_overlap = ops.iter().any(|o| o["op"] == "overlap");
    let fail = |step: usize, what: &str, detail: Value| Some(json!({"step": step, "op": ops[step], "what": what, "detail": detail}));
    for (si, op) in ops.iter().enumerate() {
        match op["op"].as_str().unwrap() {
            "pre" => {
                // archives found at first build: index i holds the old record -(i - base + 1)
                if let Some(arch) = op.get("arch") {
                    let present: Vec<(i64, bool)> = if let Some(a) = arch.as_array() {
                        a.iter().enumerate().map(|(j, v)| (base + j as i64, v.as_bool().unwrap_or(false))).collect()
                    } else if let Some(o) = arch.as_object() {
                        o.iter().map(|(k, v)| (k.parse().unwrap(), v.as_bool().unwrap_or(false))).collect()
                    } else {
                        vec![]
                    };
                    for (i, there) in present {
                        if there {
                            let p = world.arch(i);
                            fs::create_dir_all(p.parent().unwrap()).unwrap();
                            let bytes = payload(-(i - base + 1), 1, mat.unit).into_bytes();
                            fs::write(&p, if mat.gz { gzip(&bytes) } else { bytes }).unwrap();
                        }
                    }
                }
                let sz = op["sz"].as_i64().unwrap();
                if op["full"].as_bool().unwrap_or(false) {
                    // Rolling.tla, ActFull: the configured path is a name that opens and takes no byte
                    std::os::unix::fs::symlink("/dev/full", world.act()).unwrap();
                } else if sz >= 0 && mat.dir_pattern {
                    // in this materialisation the configured path is a symbolic link to the file found at start-up
                    // (its size is the file's, not the link's)
                    let real = scratch.path().join("real");
                    fs::create_dir_all(&real).unwrap();
                    let target = real.join("the-log-file-that-the-configured-path-points-to.log");
                    fs::write(&target, if sz == 0 { String::new() } else { payload(0, sz, mat.unit) }).unwrap();
                    std::os::unix::fs::symlink(&target, world.act()).unwrap();
                } else if sz == 0 {
                    fs::write(world.act(), b"").unwrap();
                } else if sz > 0 {
                    fs::write(world.act(), payload(0, sz, mat.unit)).unwrap();
                }
            }
            "build" | "overlap" => {
                let overlap = op["op"] == "overlap";
                // overlap: the successor is built while its predecessor is alive; the predecessor acknowledges one
                // more record and is dropped (Rolling.tla, Overlap)
                let predecessor = if overlap { appender.take() } else { drop(appender.take()); None };
                let trigger: Box<dyn Trigger> = match trig.as_str() {
                    "size" => Box::new(SizeTrigger::new(limit_bytes)),
                    "startup" => Box::new(OnStartUpTrigger::new(limit_bytes)),
                    t => Box::new(ScriptedTrigger { pre: t == "pre", decisions: decisions.clone(), consulted: consulted.clone() }),
                };
                let roller: Box<dyn Roll> = if window {
                    match FixedWindowRoller::builder().base(base as u32).build(&world.pattern(), count as u32) {
                        Ok(r) => Box::new(r),
                        Err(e) => return fail(si, "roller build failed", json!(e.to_string())),
                    }
                } else if p["roller"] == "noop" {
                    Box::new(NoopRoller)
                } else if mat.delete_roller {
                    Box::new(DeleteRoller::new())
                } else {
                    Box::new(FixedWindowRoller::builder().base(base as u32).build(&world.pattern(), 0).unwrap())
                };
                if mat.via_config {
                    // the same appender described as a configuration value: optional keys are left out where
                    // the documented default is what the behaviour asks for
                    let mut d = log4rs::config::Deserializers::default();
                    d.insert("scripted", ScriptedDeserializer { decisions: decisions.clone(), consulted: consulted.clone() });
                    d.insert("faulty", FaultyDeserializer { script: enc_script.clone() });
                    d.insert("noop", NoopRollerDeserializer);
                    let trig_cfg = match trig.as_str() {
                        "size" => json!({"kind": "size", "limit": limit_bytes}),
                        // a limit of one unit: the documented default of one byte says the same about files made of
                        // whole units (not empty = at least one unit), so the key is left out
                        "startup" if limit == 1 => json!({"kind": "onstartup"}),
                        "startup" => json!({"kind": "onstartup", "min_size": limit_bytes}),
                        t => json!({"kind": "scripted", "pre": t == "pre"}),
                    };
                    let roller_cfg = if window {
                        let mut r = json!({"kind": "fixed_window", "pattern": world.pattern(), "count": count});
                        if base != 0 {
                            r["base"] = json!(base);
                        }
                        r
                    } else if p["roller"] == "noop" {
                        json!({"kind": "noop"})
                    } else if mat.delete_roller {
                        json!({"kind": "delete"})
                    } else {
                        json!({"kind": "fixed_window", "pattern": world.pattern(), "count": 0})
                    };
                    let enc_cfg = if mix(si + ops.len()) % 2 == 0 { json!({"pattern": "{m}"}) } else { json!({"kind": "faulty", "pattern": "{m}"}) };
                    let enc_cfg = if ops.iter().any(|o| o["res"] == "encfail") { json!({"kind": "faulty", "pattern": "{m}"}) } else { enc_cfg };
                    let mut doc = json!({"path": world.act_spelled().to_string_lossy(), "encoder": enc_cfg,
                                         "policy": {"trigger": trig_cfg, "roller": roller_cfg}});
                    if !append_mode {
                        doc["append"] = json!(false);
                    }
                    drop(trigger);
                    drop(roller);
                    let value: serde_value::Value = serde_json::from_value(doc).unwrap();
                    match catch(|| d.deserialize::<dyn Append>("rolling_file", value)) {
                        Ok(Ok(a)) => appender = Some(a),
                        Ok(Err(e)) => return fail(si, "appender build (from configuration) failed", json!(e.to_string())),
                        Err(pn) => return fail(si, "appender build (from configuration) panicked", json!(pn)),
                    }
                } else {
                // (the materialisation with the active file on another filesystem uses the harness's own policy)
                let kind = if mat.cross_mount { PolicyKind::Own(trigger, roller) } else { PolicyKind::Compound(CompoundPolicy::new(trigger, roller)) };
                let policy = CheckedPolicy { inner: kind, bad: bad_len.clone(), calls: policy_calls.clone(),
                                             buffered: buffered.clone() };
                let enc: Box<dyn Encode> = if mat.chunked {
                    Box::new(ChunkedEncoder)
                } else {
                    Box::new(log4rs::encode::pattern::PatternEncoder::new("{m}"))
                };
                let enc: Box<dyn Encode> = Box::new(FaultyEncoder { inner: enc, script: enc_script.clone() });
                match catch(|| RollingFileAppender::builder().append(append_mode).encoder(enc).build(world.act_spelled(), Box::new(policy))) {
                    Ok(Ok(a)) => appender = Some(Box::new(a)),
                    Ok(Err(e)) => return fail(si, "appender build failed", json!(e.to_string())),
                    Err(pn) => return fail(si, "appender build panicked", json!(pn)),
                }
                }
                if let Some(old) = predecessor {
                    let (id, sz) = (op["id"].as_i64().unwrap(), op["sz"].as_i64().unwrap());
                    let msg = payload(id, sz, mat.unit);
                    match catch(|| old.append(&log::Record::builder().level(log::Level::Info).args(format_args!("{}", msg)).build())) {
                        Ok(Ok(())) => {}
                        Ok(Err(e)) => return fail(si, "append through the predecessor failed", json!(e.to_string())),
                        Err(pn) => return fail(si, "append through the predecessor panicked", json!(pn)),
                    }
                    drop(old);
                    if !decisions.lock().unwrap().is_empty() {
                        return fail(si, "scripted trigger was not consulted as often as the specification says", Value::Null);
                    }
                }
                // Append::flush is no step of Rolling.tla: a flush that arrives before the first record (or at any other
                // time) consults no trigger, rolls nothing and changes nothing that was acknowledged
                if let Some(a) = &appender {
                    if let Err(pn) = catch(|| a.flush()) {
                        return fail(si, "flush panicked", json!(pn));
                    }
                }
                // (with background rotation the directory is compared at the end of the history only: appends and
                // restarts overlap the rotation thread)
                if !cfg!(feature = "bgrot") || si + 1 == ops.len() {
                    if let Err(e) = world.settle() {
                        return fail(si, "background rotation did not finish", json!(e));
                    }
                    let got = world.observe();
                    let want = norm_expected(&op["disk"], base);
                    if got != want {
                        return fail(si, if overlap { "directory after the hand-over to a successor appender" } else { "directory after build" },
                                    json!({"expected": want, "actual": got}));
                    }
                }
            }
            "decide" => decisions.lock().unwrap().push_back(op["fire"].as_bool().unwrap()),
            "arm" => {
                let point = if op["k"] == "shift" { "rotate.shift" } else { "rotate.final" };
                HOOK.with(|h| h.borrow_mut().fault = Some((point.to_string(), op["i"].as_u64().unwrap())));
            }
            "obstruct" if op["kind"] == "nodir" => {
                // the target of the link goes away (the archives go with it, untouched)
                let away = scratch.path().join("d0.away");
                fs::rename(&world.dir, &away).unwrap();
                world.dir = away;
            }
            "unobstruct" if op["kind"] == "nodir" => {
                let back = scratch.path().join("d0");
                fs::rename(&world.dir, &back).unwrap();
                world.dir = back;
            }
            "obstruct" => {
                let d = world.arch(op["i"].as_i64().unwrap());
                if op["kind"] == "full" {
                    fs::create_dir_all(d.parent().unwrap()).unwrap();
                    std::os::unix::fs::symlink("/dev/full", &d).unwrap();
                } else {
                    fs::create_dir_all(&d).unwrap();
                    fs::write(d.join("keep"), b"obstacle").unwrap();
                }
            }
            "unobstruct" => {
                let d = world.arch(op["i"].as_i64().unwrap());
                if fs::symlink_metadata(&d).map(|m| m.file_type().is_symlink()).unwrap_or(false) {
                    let _ = fs::remove_file(&d);
                } else {
                    let _ = fs::remove_dir_all(&d);
                }
            }
            "stop" => {
                drop(appender.take());
                buffered.store(0, std::sync::atomic::Ordering::SeqCst);
            }
            "append" => {
                let id = op["id"].as_i64().unwrap();
                let sz = op["sz"].as_i64().unwrap();
                let res = op["res"].as_str().unwrap();
                let msg = payload(id, sz, mat.unit);
                let a = match &appender {
                    Some(a) => a,
                    None => return fail(si, "harness: append without appender", Value::Null),
                };
                if res == "crash" {
                    let at = &op["at"];
                    let pcv = at["pc"].as_str().unwrap();
                    let pre = at["pre"].as_bool().unwrap();
                    let (point, arg): (&str, Option<u64>) = match pcv {
                        "rot" => {
                            let i = at["i"].as_i64().unwrap();
                            if i >= base { ("rotate.shift", Some(i as u64)) } else { ("rotate.final", None) }
                        }
                        "gw2" => ("rolling.pre_processed", None),
                        "posttrig" => ("rolling.flushed", Some(1)),
                        _ => if pre { ("rolling.flushed", Some(0)) } else { ("rolling.post_processed", None) },
                    };
                    generation += 1;
                    let image = scratch.path().join(format!("d{}", generation));
                    HOOK.with(|h| {
                        let mut h = h.borrow_mut();
                        h.crash = Some((point.to_string(), arg));
                        h.image_src = world.dir.clone();
                        h.image_dst = image.clone();
                        h.image_taken = false;
                    });
                    let r = catch(|| a.append(&log::Record::builder().level(log::Level::Info).args(format_args!("{}", msg)).build()));
                    let taken = HOOK.with(|h| {
                        let mut h = h.borrow_mut();
                        h.crash = None;
                        // the process is dead: an armed fault dies with it (Rolling.tla, Crash: fault' = NoFault)
                        h.fault = None;
                        h.image_taken
                    });
                    if let Err(pn) = r {
                        return fail(si, "append panicked", json!(pn));
                    }
                    if !taken {
                        return fail(si, "crash point never reached (instrumentation or control flow differs)", json!({"point": point, "arg": arg}));
                    }
                    // the process is dead: forget the appender, continue on the crash image
                    drop(appender.take());
                    buffered.store(0, std::sync::atomic::Ordering::SeqCst);
                    decisions.lock().unwrap().clear();
                    // the image was taken with absolute paths of the old directory inside nothing: files only
                    world.dir = image;
                    let got = world.observe();
                    let want = norm_expected(&op["disk"], base);
                    if got != want {
                        return fail(si, "crash image", json!({"expected": want, "actual": got, "point": point}));
                    }
                    continue;
                }
                let encfail = res == "encfail";
                let os_fail = encfail && op["os"].as_bool().unwrap_or(false);
                if os_fail {
                    // the file itself takes only k units of the record: a file size limit just above the current size
                    // (the caller runs these histories one at a time, on the only thread that writes files)
                    let k = op["part"].as_u64().unwrap();
                    let cur = fs::metadata(world.act()).map(|m| m.len()).unwrap_or(0);
                    set_fsize_limit(Some(cur + k * mat.unit as u64));
                } else if encfail {
                    let k = op["part"].as_i64().unwrap();
                    *enc_script.lock().unwrap() = Some(payload(id, k, mat.unit));
                }
                let res = if encfail || res == "nospace" { "err" } else { res };
                let r = catch(|| a.append(&log::Record::builder().level(log::Level::Info).args(format_args!("{}", msg)).build()));
                if os_fail {
                    set_fsize_limit(None);
                    buffered.store(0, std::sync::atomic::Ordering::SeqCst);
                } else if encfail {
                    if enc_script.lock().unwrap().take().is_some() {
                        return fail(si, "the encoder was not called where the specification has it fail", Value::Null);
                    }
                    buffered.store(op["buffered"].as_u64().unwrap() * mat.unit as u64, std::sync::atomic::Ordering::SeqCst);
                } else {
                    // every other append flushed the buffer (with the record, or when the writer was closed for a rotation)
                    buffered.store(0, std::sync::atomic::Ordering::SeqCst);
                }
                let got_res = match &r {
                    Ok(Ok(())) => "ok",
                    Ok(Err(_)) => "err",
                    Err(_) => "panic",
                };
                if bg_lenient {
                    if got_res == "panic" {
                        return fail(si, "append panicked", json!(r.err()));
                    }
                    if got_res == "ok" && sz > 0 {
                        last_acked = Some(msg.clone());
                    }
                    decisions.lock().unwrap().clear();
                    continue;
                }
                if got_res != res {
                    let detail = match r {
                        Ok(Err(e)) => e.to_string(),
                        Err(pn) => pn,
                        _ => String::new(),
                    };
                    return fail(si, "append result", json!({"expected": res, "actual": got_res, "detail": detail}));
                }
                if !cfg!(feature = "bgrot") || si + 1 == ops.len() {
                    if let Err(e) = world.settle() {
                        return fail(si, "background rotation did not finish", json!(e));
                    }
                    let got = world.observe();
                    let want = norm_expected(&op["disk"], base);
                    if got != want {
                        return fail(si, "directory after append", json!({"expected": want, "actual": got}));
                    }
                }
                if !decisions.lock().unwrap().is_empty() {
                    return fail(si, "scripted trigger was not consulted as often as the specification says", Value::Null);
                }
            }
            other => return fail(si, "harness: unknown op", json!(other)),
        }
        let bad = bad_len.lock().unwrap();
        if has_overlap {
            continue; // (a successor's estimate starts from the size it saw when it opened: exactness is not claimed)
        }
        if let Some((shown, real)) = bad.first() {
            return fail(si, "size shown to the policy differs from the size on disk", json!({"len_estimate": shown, "metadata_len": real}));
        }
    }
    drop(appender.take());
    log4rs::verif::set_thread_callback(None);
    if let (true, Some(m)) = (bg_lenient, last_acked) {
        // (a rotation thread that is about to fail has done so long before this)
        std::thread::sleep(std::time::Duration::from_millis(20));
        let mut files = snapshot(scratch.path(), true, false);
        // (in one materialisation the active file lives on another file system, outside the scratch directory)
        if let Some(d) = world.act().parent() {
            if !d.starts_with(scratch.path()) {
                for (k, v) in snapshot(d, true, false) {
                    files.insert(format!("<active dir>/{}", k), v);
                }
            }
        }
        let needle = m.as_bytes();
        if !files.values().any(|b| b.windows(needle.len()).any(|w| w == needle)) {
            return fail(ops.len() - 1, "the newest acknowledged record is in no file (a background rotation failed)",
                        json!({"record": m, "files": files.iter().map(|(k, v)| (k.clone(), v.len())).collect::<Vec<_>>()}));
        }
    }
    None
}

/// `rolling <cases.ndjson> <out.ndjson>`
pub fn main(args: &[String]) {
    quiet_panics();
    std::env::set_var("LV_ROLL_LEAF", "active.log");
    let rows = read_ndjson(&args[0]);
    let mats = [
        Mat { unit: 10, gz: false, chunked: false, delete_roller: true, via_config: false, dir_pattern: false, cross_mount: false },
        Mat { unit: 400, gz: false, chunked: true, delete_roller: false, via_config: false, dir_pattern: false, cross_mount: false },
        Mat { unit: 16, gz: true, chunked: false, delete_roller: true, via_config: true, dir_pattern: false, cross_mount: false },
        Mat { unit: 12, gz: false, chunked: false, delete_roller: false, via_config: true, dir_pattern: true, cross_mount: false },
        Mat { unit: 14, gz: false, chunked: false, delete_roller: false, via_config: false, dir_pattern: false, cross_mount: true },
        // 600-byte units: one unit fits the BufWriter, a record of two goes to the file in one write call
        Mat { unit: 600, gz: false, chunked: false, delete_roller: true, via_config: false, dir_pattern: false, cross_mount: false },
        // 40 000-byte units of text that does not compress, archived through gzip: a rolled file of two or three units
        // is several times what the encoder buffers (every eighth history)
        Mat { unit: 40_000, gz: true, chunked: false, delete_roller: false, via_config: false, dir_pattern: false, cross_mount: false },
    ];
    // histories in which the operating system cuts a write short need a process-wide file size limit: they run one
    // at a time after the others
    let is_os = |c: &Value| c["ops"].as_array().unwrap().iter().any(|o| o["os"].as_bool().unwrap_or(false));
    let res = par_map(&rows, threads(), |i, c| {
        let mut out = vec![];
        if is_os(c) {
            return out;
        }
        for m in mats.iter() {
            if m.unit >= 10_000 && i % 8 != 0 {
                continue;
            }
            if let Some(mm) = replay_case(c, *m) {
                out.push(json!({"case": i, "params": c["params"], "mat": format!("{:?}", m), "mismatch": mm,
                                "ops": c["ops"].as_array().unwrap().iter().map(|o| {
                                    let mut o = o.clone();
                                    if let Some(m) = o.as_object_mut() { m.remove("disk"); }
                                    o
                                }).collect::<Vec<_>>()}));
                break;
            }
        }
        out
    });
    let mut res = res;
    let mut os_cases = 0;
    for (i, c) in rows.iter().enumerate() {
        if !is_os(c) {
            continue;
        }
        os_cases += 1;
        for m in mats.iter() {
            if let Some(mm) = replay_case(c, *m) {
                res.push(json!({"case": i, "params": c["params"], "mat": format!("{:?}", m), "mismatch": mm, "ops": c["ops"]}));
                break;
            }
        }
    }
    write_ndjson(&args[1], &res);
    println!("{}", json!({"cases": rows.len(), "materialisations": mats.len(), "mismatches": res.len(), "os_write_failures": os_cases,
                          "cross_mount_available": Scratch::other_mount("probe").is_some(),
                          "background_rotation": cfg!(feature = "bgrot"), "waited_for_background_rotation": BG_WAITS.load(std::sync::atomic::Ordering::Relaxed)}));
}

//! Growth (run with C14): replay of ConfigFormat.tla - which reader a configuration file gets.
use crate::{fsutil::*, util::*};
use serde_json::{json, Value};

fn check_case(case: &Value) -> Option<Value> {
    let stem = case["stem"].as_str().unwrap();
    let parts: Vec<&str> = case["parts"].as_array().unwrap().iter().map(|p| p.as_str().unwrap()).collect();
    let mut name = stem.to_string();
    for p in &parts {
        name.push('.');
        name.push_str(p);
    }
    if name.is_empty() || name == "." || name == ".." {
        return None; // not a file name
    }
    let scratch = Scratch::new("fmt");
    let path = scratch.path().join(&name);
    let text = match case["content"].as_str().unwrap() {
        "yaml" => "root:\n  level: info\n  appenders: []\n",
        "json" => "{\"root\": {\"level\": \"info\", \"appenders\": []}}",
        _ => "[root]\nlevel = \"info\"\nappenders = []\n",
    };
    std::fs::write(&path, text).unwrap();
    let got = match catch(|| log4rs::config::load_config_file(&path, log4rs::config::Deserializers::default())) {
        Err(p) => return Some(json!({"what": "load_config_file panicked", "file": name, "error": p})),
        Ok(Ok(_)) => "loaded".to_string(),
        Ok(Err(e)) => {
            let m = e.to_string();
            if m.contains("unsupported file format") {
                "unsupported-format".to_string()
            } else if m.contains("unable to determine the file format") {
                "unknown-format".to_string()
            } else {
                "parse-error".to_string()
            }
        }
    };
    let want = case["outcome"].as_str().unwrap();
    if got != want {
        return Some(json!({"what": "outcome of loading", "file": name, "content": case["content"], "expected": want, "actual": got}));
    }
    None
}

/// `cfgformat <cases.ndjson> <out.ndjson>`
pub fn main(args: &[String]) {
    quiet_panics();
    let rows = read_ndjson(&args[0]);
    let res = par_map(&rows, threads(), |i, c| check_case(c).into_iter().map(|m| json!({"case": i, "input": c, "mismatch": m})).collect());
    write_ndjson(&args[1], &res);
    println!("{}", json!({"cases": rows.len(), "mismatches": res.len()}));
}

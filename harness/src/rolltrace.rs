//! C05 / C17 (concurrent writers): records traces of several threads appending through one
//! RollingFileAppender for validation against Trace_Rolling.tla. Both events of an append are
//! emitted inside hook callbacks, i.e. while the appender's mutex is held; the record id is
//! assigned at the rolling.locked hook (= order of lock acquisition) and the directory is parsed
//! back into record ids at the last hook of the append.
use crate::{fsutil::*, rng::Rng, rolling::{parse_ids, payload}, util::*};
use log4rs::append::rolling_file::{
    policy::compound::{
        roll::fixed_window::FixedWindowRoller,
        trigger::{onstartup::OnStartUpTrigger, size::SizeTrigger, Trigger},
        CompoundPolicy,
    },
    RollingFileAppender,
};
use log4rs::append::Append;
use log4rs::encode::{Encode, Write as EncWrite};
use serde_json::{json, Value};
use std::{
    cell::Cell,
    path::{Path, PathBuf},
    sync::{Arc, Barrier, Mutex},
};

const UNIT: usize = 16;
thread_local! {
    static SZ: Cell<i64> = Cell::new(1);
    static ID: Cell<i64> = Cell::new(0);
}

#[derive(Debug)]
struct IdEncoder;
impl Encode for IdEncoder {
    fn encode(&self, w: &mut dyn EncWrite, _r: &log::Record) -> anyhow::Result<()> {
        let s = payload(ID.with(|x| x.get()), SZ.with(|x| x.get()), UNIT);
        w.write_all(s.as_bytes())?;
        Ok(())
    }
}

fn observe(dir: &Path) -> Value {
    let entry = |p: PathBuf| match std::fs::read(&p) {
        Err(_) => json!({"k": "absent", "d": []}),
        Ok(b) => match parse_ids(&b, UNIT) {
            Ok(ids) => json!({"k": "file", "d": ids}),
            Err(e) => json!({"k": "file", "d": [-1], "corrupt": e}),
        },
    };
    json!({"act": entry(dir.join("active.log")),
           "arch": {"0": entry(dir.join("arch.0.log")), "1": entry(dir.join("arch.1.log")), "2": entry(dir.join("arch.2.log"))}})
}

fn scenario(rng: &mut Rng, trig: &str, limit: u64, events: &Arc<Mutex<Vec<Value>>>, problems: &mut Vec<Value>, long: usize) {
    let scratch = Scratch::new("rtrace");
    let dir = scratch.path().to_path_buf();
    let pre = [-1i64, 0, 1, 2, 3][rng.below(5) as usize];
    if pre == 0 {
        std::fs::write(dir.join("active.log"), b"").unwrap();
    } else if pre > 0 {
        std::fs::write(dir.join("active.log"), payload(0, pre, UNIT)).unwrap();
    }
    events.lock().unwrap().push(json!({"e": "reset", "pre": pre}));
    let trigger: Box<dyn Trigger> = if trig == "startup" {
        Box::new(OnStartUpTrigger::new(limit * UNIT as u64))
    } else {
        Box::new(SizeTrigger::new(limit * UNIT as u64))
    };
    let roller = FixedWindowRoller::builder().build(&dir.join("arch.{}.log").to_string_lossy(), 2).unwrap();
    let post = trig == "size";
    let appender = Arc::new(
        RollingFileAppender::builder().encoder(Box::new(IdEncoder)).build(dir.join("active.log"), Box::new(CompoundPolicy::new(trigger, Box::new(roller)))).unwrap(),
    );
    events.lock().unwrap().push(json!({"e": "build", "disk": observe(&dir)}));
    let next_id = Arc::new(Mutex::new(0i64));
    let (ev, d2, nid) = (events.clone(), dir.clone(), next_id.clone());
    let amp = Arc::new(Mutex::new(Rng::new(rng.next())));
    log4rs::verif::set_global_callback(Some(Arc::new(move |name: &str, arg: u64| {
        match (name, arg) {
            ("rolling.locked", _) => {
                let mut n = nid.lock().unwrap();
                *n += 1;
                ID.with(|x| x.set(*n));
                ev.lock().unwrap().push(json!({"e": "start", "id": *n, "sz": SZ.with(|x| x.get())}));
            }
            ("rolling.flushed", 0) if !post => ev.lock().unwrap().push(json!({"e": "end", "id": ID.with(|x| x.get()), "disk": observe(&d2)})),
            ("rolling.post_processed", _) if post => ev.lock().unwrap().push(json!({"e": "end", "id": ID.with(|x| x.get()), "disk": observe(&d2)})),
            _ => {}
        }
        if amp.lock().unwrap().below(4) == 0 {
            std::thread::yield_now();
        }
        Ok(())
    })));
    // a long lifetime: `long` records per thread from four threads (counters, once-flags and caches that only
    // misbehave after hundreds of records)
    let nthreads = if long > 0 { 4 } else { 2 + rng.below(3) as usize };
    let barrier = Arc::new(Barrier::new(nthreads));
    let mut hs = vec![];
    for _ in 0..nthreads {
        let a = appender.clone();
        let b = barrier.clone();
        let sizes: Vec<i64> = (0..if long > 0 { long as u64 } else { 1 + rng.below(3) }).map(|_| 1 + rng.below(3) as i64).collect();
        hs.push(std::thread::spawn(move || {
            let mut probs = vec![];
            b.wait(); // the first records arrive together
            for sz in sizes {
                SZ.with(|x| x.set(sz));
                match catch(|| a.append(&log::Record::builder().level(log::Level::Info).args(format_args!("x")).build())) {
                    Ok(Ok(())) => {}
                    other => probs.push(json!({"what": "append failed or panicked", "detail": format!("{:?}", other.map(|r| r.map_err(|e| e.to_string())))})),
                }
            }
            probs
        }));
    }
    for h in hs {
        problems.extend(h.join().unwrap());
    }
    log4rs::verif::set_global_callback(None);
}

/// `rolltrace <out.ndjson> <startup|size> <limit units> <runs> <seed> [records per thread of the long first scenario]`
pub fn main(args: &[String]) {
    quiet_panics();
    let events = Arc::new(Mutex::new(vec![]));
    let mut problems = vec![];
    let mut rng = Rng::new(args[4].parse().unwrap());
    let runs: usize = args[3].parse().unwrap();
    let long: usize = args.get(5).map(|s| s.parse().unwrap()).unwrap_or(0);
    for k in 0..runs {
        scenario(&mut rng, &args[1], args[2].parse().unwrap(), &events, &mut problems, if k == 0 { long } else { 0 });
    }
    let ev = events.lock().unwrap();
    write_ndjson(&args[0], &ev);
    println!("{}", json!({"runs": runs, "events": ev.len(), "start_events": ev.iter().filter(|e| e["e"] == "start").count(), "problems": problems}));
}

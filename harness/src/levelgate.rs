//! C02: a child process installs the global logger and walks a history of reconfigurations;
//! after every step log::max_level(), Log::enabled and the deliveries of the log macros are
//! compared with the specification's expectation for the configuration now installed.
use crate::util::*;
use serde_json::{json, Value};
use std::sync::{atomic::Ordering, Arc};

const APPENDERS: [&str; 2] = ["A", "B"];

fn build_cfg(c: &Value, counters: &[Arc<Counter>]) -> log4rs::Config {
    let mut b = log4rs::Config::builder();
    for (i, a) in APPENDERS.iter().enumerate() {
        b = b.appender(log4rs::config::Appender::builder().build(*a, Box::new(CountingAppender(counters[i].clone()))));
    }
    // the order in which loggers are declared is no part of a configuration (Routing.tla builds the tree from the set):
    // every other build declares them the other way round - deeper names before their ancestors
    static BUILDS: std::sync::atomic::AtomicUsize = std::sync::atomic::AtomicUsize::new(0);
    let mut declared: Vec<&Value> = c["loggers"].as_array().unwrap().iter().collect();
    if BUILDS.fetch_add(1, std::sync::atomic::Ordering::Relaxed) % 2 == 1 {
        declared.reverse();
    }
    for l in declared {
        let mut lb = log4rs::config::Logger::builder().additive(l["add"].as_bool().unwrap());
        for a in l["apps"].as_array().unwrap() {
            lb = lb.appender(a.as_str().unwrap());
        }
        b = b.logger(lb.build(l["name"].as_str().unwrap(), level_filter(l["lvl"].as_i64().unwrap())));
    }
    let mut rb = log4rs::config::Root::builder();
    for a in c["root"]["apps"].as_array().unwrap() {
        rb = rb.appender(a.as_str().unwrap());
    }
    let lvl = c["root"]["lvl"].as_i64().unwrap();
    if (lvl + c["loggers"].as_array().unwrap().len() as i64) % 2 == 0 {
        return b.build(rb.build(level_filter(lvl))).expect("valid configuration refused");
    }
    // the same configuration reached differently: built with another root level, which is then set through
    // Config::root_mut()
    let mut cfg = b.build(rb.build(level_filter((lvl + 3) % 6))).expect("valid configuration refused");
    cfg.root_mut().set_level(level_filter(lvl));
    cfg
}

fn raw_cfg(c: &Value, dir: &str) -> log4rs::config::RawConfig {
    let lv = |n: i64| format!("{}", level_filter(n)).to_lowercase();
    let mut loggers = serde_json::Map::new();
    for l in c["loggers"].as_array().unwrap() {
        loggers.insert(
            l["name"].as_str().unwrap().to_string(),
            json!({"level": lv(l["lvl"].as_i64().unwrap()), "additive": l["add"], "appenders": l["apps"]}),
        );
    }
    let doc = json!({
        "appenders": {
            "A": {"kind": "file", "path": format!("{}/A.log", dir), "encoder": {"pattern": "{m}{n}"}},
            "B": {"kind": "file", "path": format!("{}/B.log", dir), "encoder": {"pattern": "{m}{n}"}},
        },
        "root": {"level": lv(c["root"]["lvl"].as_i64().unwrap()), "appenders": c["root"]["apps"]},
        "loggers": loggers,
    });
    serde_yaml::from_str(&serde_json::to_string(&doc).unwrap()).expect("raw config")
}

/// expectation accessors: either explicit per-target lists (`thr`, `att`) or the compact
/// class table of the Routing emission (`cls`, `idx`)
fn expect(c: &Value, ti: usize) -> (i64, [usize; 2]) {
    let (thr, apps) = if c.get("thr").is_some() {
        (c["thr"][ti].as_i64().unwrap(), &c["att"][ti])
    } else {
        let k = c["idx"][ti].as_u64().unwrap() as usize - 1;
        (c["cls"][k]["thr"].as_i64().unwrap(), &c["cls"][k]["apps"])
    };
    let mut n = [0usize; 2];
    for a in apps.as_array().unwrap() {
        n[APPENDERS.iter().position(|x| *x == a.as_str().unwrap()).unwrap()] += 1;
    }
    (thr, n)
}

fn observe(step: usize, c: &Value, targets: &[String], counters: &[Arc<Counter>], file_dir: Option<&str>) -> Option<Value> {
    let want_max = c["max"].as_i64().unwrap();
    let got_max = filter_num(log::max_level());
    if got_max != want_max {
        return Some(json!({"step": step, "what": "log::max_level()", "expected": want_max, "actual": got_max}));
    }
    for (ti, t) in targets.iter().enumerate() {
        let (thr, att) = expect(c, ti);
        for l in 1..=5i64 {
            let admitted = thr >= l;
            let md = log::Metadata::builder().target(t).level(level(l)).build();
            if log::logger().enabled(&md) != admitted {
                return Some(json!({"step": step, "what": "enabled", "target": t, "level": l, "expected": admitted}));
            }
            let before: Vec<usize> = match file_dir {
                None => {
                    for c in counters {
                        c.n.store(0, Ordering::SeqCst);
                    }
                    vec![0, 0]
                }
                Some(d) => APPENDERS.iter().map(|a| lines(&format!("{}/{}.log", d, a))).collect(),
            };
            let handled_before = HANDLED.load(Ordering::SeqCst);
            // every other record goes the way the macro goes, but with a module path that names a configured logger:
            // gating and routing are by target alone (LevelGate.tla), whatever module the call sits in
            let names: Vec<&str> = c["loggers"].as_array().unwrap().iter().filter_map(|x| x["name"].as_str()).collect();
            if (ti + l as usize) % 2 == 0 || names.is_empty() {
                log::log!(target: t.as_str(), level(l), "m");
            } else if level(l) <= log::max_level() {
                let decoy = names[(ti + l as usize) / 2 % names.len()];
                log::logger().log(&log::Record::builder().target(t).level(level(l)).module_path(Some(decoy)).file(Some(decoy)).args(format_args!("m")).build());
            }
            // with init_config_with_err_handler the first appender fails: the handler given there hears of every failed
            // delivery exactly once
            if counters[0].fail.load(Ordering::SeqCst) {
                let failed = counters[0].n.load(Ordering::SeqCst);
                let handled = HANDLED.load(Ordering::SeqCst) - handled_before;
                if failed != handled {
                    return Some(json!({"step": step, "what": "calls of the error handler given to init_config_with_err_handler", "target": t, "level": l,
                                       "expected": failed, "actual": handled}));
                }
            }
            let got: Vec<usize> = match file_dir {
                None => counters.iter().map(|c| c.n.load(Ordering::SeqCst)).collect(),
                Some(d) => APPENDERS.iter().enumerate().map(|(i, a)| lines(&format!("{}/{}.log", d, a)) - before[i]).collect(),
            };
            let want: Vec<usize> = if admitted { att.to_vec() } else { vec![0, 0] };
            if got != want {
                return Some(json!({"step": step, "what": "macro deliveries", "target": t, "level": l,
                                   "expected": want, "actual": got, "global_max": got_max}));
            }
        }
    }
    None
}

static HANDLED: std::sync::atomic::AtomicUsize = std::sync::atomic::AtomicUsize::new(0);

fn lines(p: &str) -> usize {
    std::fs::read(p).map(|b| b.iter().filter(|x| **x == b'\n').count()).unwrap_or(0)
}

/// `levelgate <steps.ndjson> <out.ndjson> <init_config|init_with_handler|init_raw> [dir]`
pub fn main(args: &[String]) {
    let rows = read_ndjson(&args[0]);
    let targets: Vec<String> = rows.iter().find(|r| r["meta"] == "targets").expect("targets")["targets"]
        .as_array().unwrap().iter().map(|v| v.as_str().unwrap().to_string()).collect();
    let steps: Vec<&Value> = rows.iter().filter(|r| r.get("meta").is_none()).collect();
    let counters: Vec<Arc<Counter>> = (0..2).map(|_| Arc::new(Counter::default())).collect();
    let mut out = vec![];
    let mut handle = None;
    let mut file_dir: Option<String> = None;
    match args[2].as_str() {
        "init_config" => handle = Some(log4rs::init_config(build_cfg(steps[0], &counters)).expect("init")),
        "init_with_handler" => {
            handle = Some(
                {
                    counters[0].fail.store(true, Ordering::SeqCst);
                    log4rs::config::init_config_with_err_handler(
                        build_cfg(steps[0], &counters),
                        Box::new(|_| {
                            HANDLED.fetch_add(1, Ordering::SeqCst);
                        }),
                    )
                    .expect("init")
                },
            )
        }
        "init_raw" => {
            let d = args[3].clone();
            std::fs::create_dir_all(&d).unwrap();
            log4rs::init_raw_config(raw_cfg(steps[0], &d)).expect("init_raw_config");
            file_dir = Some(d);
        }
        _ => panic!("bad init fn"),
    }
    let mut done = 0;
    for (i, c) in steps.iter().enumerate() {
        if i > 0 {
            // the environment moved the facade's maximum since the last reconfiguration
            if let Some(d) = c.get("drift").and_then(|d| d.as_i64()) {
                if d >= 0 {
                    log::set_max_level(level_filter(d));
                }
            }
            match &handle {
                // every other reconfiguration lands inside a log call of this thread (between the call's entry and its
                // deliveries, at whichever load of the shared state comes first): that record is gated and delivered by
                // one configuration - the old one or the new one -, never gated by one and delivered by the other
                Some(h) if i % 2 == 1 => {
                    let prev = steps[i - 1];
                    let mut probe = (0usize, 1i64);
                    'find: for ti in 0..targets.len() {
                        for l in 1..=5i64 {
                            let (to, ao) = expect(prev, ti);
                            let (tn, an) = expect(c, ti);
                            let wo = if to >= l { ao } else { [0, 0] };
                            let wn = if tn >= l { an } else { [0, 0] };
                            if wo != wn && (wo == [0, 0] || wn == [0, 0]) {
                                probe = (ti, l);
                                break 'find;
                            }
                        }
                    }
                    for k in &counters {
                        k.n.store(0, Ordering::SeqCst);
                    }
                    let slot = Arc::new(std::sync::Mutex::new(Some(build_cfg(c, &counters))));
                    let (s2, h2) = (slot.clone(), h.clone());
                    log4rs::verif::set_thread_callback(Some(Arc::new(move |name: &str, _arg: u64| -> std::io::Result<()> {
                        if name == "log.loaded" || name == "enabled.loaded" {
                            if let Some(cfg) = s2.lock().unwrap().take() {
                                h2.set_config(cfg);
                            }
                        }
                        Ok(())
                    })));
                    let t = &targets[probe.0];
                    log::logger().log(&log::Record::builder().target(t).level(level(probe.1)).args(format_args!("m")).build());
                    log4rs::verif::set_thread_callback(None);
                    if let Some(cfg) = slot.lock().unwrap().take() {
                        h.set_config(cfg); // (the call never loaded the shared state)
                    }
                    let got: Vec<usize> = counters.iter().map(|k| k.n.load(Ordering::SeqCst)).collect();
                    let (to, ao) = expect(prev, probe.0);
                    let (tn, an) = expect(c, probe.0);
                    let wo = if to >= probe.1 { ao.to_vec() } else { vec![0, 0] };
                    let wn = if tn >= probe.1 { an.to_vec() } else { vec![0, 0] };
                    if got != wo && got != wn {
                        out.push(json!({"step": i, "init": args[2], "config": {"root": c["root"], "loggers": c["loggers"]},
                                        "previous": {"root": prev["root"], "loggers": prev["loggers"]},
                                        "mismatch": {"what": "a record in flight during a reconfiguration is delivered as neither configuration says", "target": t,
                                                     "level": probe.1, "old_configuration_says": wo, "new_configuration_says": wn, "actual": got}}));
                        break;
                    }
                }
                Some(h) => h.set_config(build_cfg(c, &counters)),
                None => break, // init_raw_config returns no handle
            }
        }
        done += 1;
        if let Some(m) = observe(i, c, &targets, &counters, file_dir.as_deref()) {
            let prev = if i > 0 { json!({"root": steps[i - 1]["root"], "loggers": steps[i - 1]["loggers"]}) } else { Value::Null };
            out.push(json!({"step": i, "init": args[2], "config": {"root": c["root"], "loggers": c["loggers"]},
                            "previous": prev, "mismatch": m}));
            break;
        }
    }
    write_ndjson(&args[1], &out);
    println!("{}", json!({"steps": done, "targets": targets.len(), "mismatches": out.len()}));
}

//! C09 (date zone): replay of DateZone.tla histories - the local zone changes while the process runs.
//! Sequential: the zone (TZ) is process-wide state.
use crate::util::*;
use chrono::{FixedOffset, TimeZone, Utc};
use log4rs::encode::Encode;
use serde_json::{json, Value};
use std::collections::HashMap;

fn offset_minutes(z: &str) -> i32 {
    match z {
        "UTC0" => 0,
        "JST-9" => 540,
        "IST-5:30" => 330,
        "NST3:30" => -210,
        _ => panic!("unknown zone {}", z),
    }
}

const FMT: &str = "%z|%Y-%m-%dT%H:%M";

fn pattern(kind: &str) -> String {
    match kind {
        "plain" => "{d}".to_string(),
        "default" => format!("{{d({})}}", FMT),
        "local" => format!("{{date({})(local)}}", FMT),
        "pid" => "{P}|{pid}".to_string(),
        // seconds since the epoch with a fraction: the instant of the encode call itself, to the last digit
        "ns" => "{d(%s.%9f)(utc)}".to_string(),
        "us" => "{d(%s.%6f)}".to_string(),
        "ms" => "{d(%s.%3f)(local)}".to_string(),
        "msdot" => "{d(%s%.3f)}".to_string(),
        _ => format!("{{d({})(utc)}}", FMT),
    }
}

fn build(kind: &str, via_config: bool) -> Result<Box<dyn Encode>, String> {
    if via_config {
        let v: serde_value::Value = serde_json::from_value(json!({"pattern": pattern(kind)})).unwrap();
        log4rs::config::Deserializers::default().deserialize::<dyn Encode>("pattern", v).map_err(|e| e.to_string())
    } else {
        Ok(Box::new(log4rs::encode::pattern::PatternEncoder::new(&pattern(kind))))
    }
}

fn render(enc: &dyn Encode) -> Result<String, String> {
    let mut out = vec![];
    let mut w = log4rs::encode::writer::simple::SimpleWriter(&mut out);
    enc.encode(&mut w, &log::Record::builder().level(log::Level::Info).args(format_args!("m")).build()).map_err(|e| e.to_string())?;
    String::from_utf8(out).map_err(|e| e.to_string())
}

/// what a date of this kind looks like at instant `t` in the zone `z`: (offset text, minute text)
fn expect(kind: &str, z: &str, t: chrono::DateTime<Utc>) -> String {
    let off = FixedOffset::east_opt(offset_minutes(z) * 60).unwrap();
    let lt = off.from_utc_datetime(&t.naive_utc());
    if kind == "plain" {
        // ISO 8601 with the offset at the end; the sub-second digits are cut out before the comparison
        format!("{}{}", lt.format("%Y-%m-%dT%H:%M"), lt.format("%:z"))
    } else {
        lt.format(FMT).to_string()
    }
}

fn normalise(kind: &str, got: &str) -> String {
    if kind != "plain" || got.len() < 22 {
        return got.to_string();
    }
    // 2026-10-04T01:05:39.123456789+09:00 -> 2026-10-04T01:05+09:00
    format!("{}{}", &got[..16], &got[got.len() - 6..])
}

/// chrono keeps the local zone in a per-thread cache that re-reads the environment at most once per second: a
/// zone change is seen at once by a thread that has not rendered a local date before, and after a second by one
/// that has.  `same_thread` replays the history on one thread, waiting out that second after each change; otherwise
/// every encode runs on a thread of its own.
fn check_case(ci: usize, case: &Value, same_thread: bool) -> Option<Value> {
    let mut encs: HashMap<String, Box<dyn Encode>> = HashMap::new();
    let mut last_instant: HashMap<String, i128> = HashMap::new();
    let mut in_child: Option<i32> = None; // write end of the pipe to the process that forked us
    let finish = |in_child: Option<i32>, r: Option<Value>| -> Option<Value> {
        if let Some(fd) = in_child {
            // a forked child reports through the pipe and ends here, without running the parent's exit paths
            let text = serde_json::to_string(&r).unwrap();
            unsafe {
                libc::write(fd, text.as_ptr() as *const libc::c_void, text.len());
                libc::_exit(0);
            }
        }
        r
    };
    for (i, op) in case["ops"].as_array().unwrap().iter().enumerate() {
        match op["op"].as_str().unwrap() {
            "fork" => {
                // the history continues in the child (DateZone.tla, Fork); the parent waits for its verdict
                let mut fds = [0i32; 2];
                unsafe {
                    if libc::pipe(fds.as_mut_ptr()) != 0 {
                        return finish(in_child, Some(json!({"step": i, "what": "harness: pipe failed"})));
                    }
                    let pid = libc::fork();
                    if pid < 0 {
                        return finish(in_child, Some(json!({"step": i, "what": "harness: fork failed"})));
                    }
                    if pid == 0 {
                        libc::close(fds[0]);
                        if let Some(up) = in_child {
                            libc::close(up);
                        }
                        in_child = Some(fds[1]);
                        continue;
                    }
                    libc::close(fds[1]);
                    let mut buf = vec![];
                    let mut chunk = [0u8; 4096];
                    loop {
                        let n = libc::read(fds[0], chunk.as_mut_ptr() as *mut libc::c_void, chunk.len());
                        if n <= 0 {
                            break;
                        }
                        buf.extend_from_slice(&chunk[..n as usize]);
                    }
                    libc::close(fds[0]);
                    let mut status = 0;
                    libc::waitpid(pid, &mut status, 0);
                    let r: Option<Value> = serde_json::from_slice(&buf).unwrap_or_else(|_| Some(json!({"step": i, "what": "forked child died without a verdict", "status": status})));
                    return finish(in_child, r);
                }
            }
            "zone" => {
                std::env::set_var("TZ", op["z"].as_str().unwrap());
                if same_thread {
                    // (also after the first one: this thread rendered under another zone a moment ago, in an earlier history)
                    std::thread::sleep(std::time::Duration::from_millis(1100));
                }
            }
            "build" => {
                let k = op["k"].as_str().unwrap();
                match catch(|| build(k, mix(ci + i) % 2 == 1)) {
                    Ok(Ok(e)) => {
                        encs.insert(k.to_string(), e);
                    }
                    Ok(Err(e)) => return finish(in_child, Some(json!({"step": i, "what": "encoder build failed", "error": e}))),
                    Err(p) => return finish(in_child, Some(json!({"step": i, "what": "encoder build panicked", "error": p}))),
                }
            }
            _ => {
                let k = op["k"].as_str().unwrap();
                let z = op["z"].as_str().unwrap();
                let fractional = matches!(k, "ns" | "us" | "ms" | "msdot");
                if matches!(k, "ms" | "msdot") {
                    std::thread::sleep(std::time::Duration::from_millis(2)); // so that two encodes differ in the milliseconds
                }
                let before = Utc::now();
                let enc = encs[k].as_ref();
                // (the fractional kinds always render on this thread: successive encodes of one thread are the point)
                let rendered = if same_thread || fractional {
                    catch(|| render(enc))
                } else {
                    std::thread::scope(|s| s.spawn(|| catch(|| render(enc))).join().unwrap())
                };
                let got = match rendered {
                    Ok(Ok(s)) => s,
                    Ok(Err(e)) => return finish(in_child, Some(json!({"step": i, "what": "encode failed", "error": e}))),
                    Err(p) => return finish(in_child, Some(json!({"step": i, "what": "encode panicked", "error": p}))),
                };
                let after = Utc::now();
                if fractional {
                    // parse seconds.fraction back; it must lie within the clock readings around the call (cut to the
                    // precision of the format) and after the previous encode of this kind
                    let digits = if k == "ns" { 9 } else if k == "us" { 6 } else { 3 };
                    let parsed: Option<i128> = got.split_once('.').and_then(|(a, b)| {
                        if b.len() != digits { return None; }
                        Some(a.parse::<i128>().ok()? * 1_000_000_000 + b.parse::<i128>().ok()? * 10i128.pow(9 - digits as u32))
                    });
                    let unit = 10i128.pow(9 - digits as u32);
                    let lo = (before.timestamp_nanos_opt().unwrap() as i128 / unit) * unit;
                    let hi = after.timestamp_nanos_opt().unwrap() as i128;
                    let prev = last_instant.get(k).copied();
                    match parsed {
                        Some(v) if v >= lo && v <= hi && prev.map(|p| v >= p).unwrap_or(true) => {
                            last_instant.insert(k.to_string(), v);
                            continue;
                        }
                        _ => return finish(in_child, Some(json!({"step": i, "what": "date is not the instant of the encode call", "kind": k, "pattern": pattern(k),
                                                             "actual": got, "window_ns": [lo.to_string(), hi.to_string()], "previous_of_this_kind": prev.map(|p| p.to_string())}))),
                    }
                }
                if k == "pid" {
                    let me = std::process::id();
                    if got != format!("{}|{}", me, me) {
                        return finish(in_child, Some(json!({"step": i, "what": "process id of another process", "pattern": pattern(k), "forks_before": op["gen"],
                                           "expected": format!("{}|{}", me, me), "actual": got})));
                    }
                    continue;
                }
                let g = normalise(k, &got);
                let (a, b) = (expect(k, z, before), expect(k, z, after));
                if g != a && g != b {
                    return finish(in_child, Some(json!({"step": i, "what": "date rendered in another zone", "kind": k, "pattern": pattern(k), "zone": z,
                                       "expected": a, "actual": got})));
                }
            }
        }
    }
    finish(in_child, None)
}

/// `datezone <cases.ndjson> <out.ndjson>`
pub fn main(args: &[String]) {
    quiet_panics();
    let rows = read_ndjson(&args[0]);
    let saved = std::env::var("TZ").ok();
    let mut res = vec![];
    let mut slow = 0;
    for (i, c) in rows.iter().enumerate() {
        if let Some(m) = check_case(i, c, false) {
            res.push(json!({"case": i, "ops": c["ops"], "mismatch": m}));
        }
        // a few histories with two zone changes after the first encode also run on a single thread
        let ops = c["ops"].as_array().unwrap();
        let first_enc = ops.iter().position(|o| o["op"] == "encode").unwrap_or(ops.len());
        if slow < 4 && i % 997 == 3 && ops.iter().skip(first_enc).filter(|o| o["op"] == "zone").count() >= 1 {
            slow += 1;
            if let Some(m) = check_case(i, c, true) {
                res.push(json!({"case": i, "single_thread": true, "ops": c["ops"], "mismatch": m}));
            }
        }
    }
    match saved {
        Some(v) => std::env::set_var("TZ", v),
        None => std::env::remove_var("TZ"),
    }
    write_ndjson(&args[1], &res);
    println!("{}", json!({"cases": rows.len(), "mismatches": res.len()}));
}

//! Small deterministic PRNG (xorshift*), so runs are reproducible from VERIF_SEED.
#[derive(Clone)]
pub struct Rng(pub u64);
impl Rng {
    pub fn new(seed: u64) -> Rng {
        Rng(seed.wrapping_mul(0x9E3779B97F4A7C15) ^ 0xD1B54A32D192ED03)
    }
    pub fn next(&mut self) -> u64 {
        let mut x = self.0;
        x ^= x >> 12;
        x ^= x << 25;
        x ^= x >> 27;
        self.0 = x;
        x.wrapping_mul(0x2545F4914F6CDD1D)
    }
    pub fn below(&mut self, n: u64) -> u64 {
        self.next() % n.max(1)
    }
    pub fn pick<'a, T>(&mut self, v: &'a [T]) -> &'a T {
        &v[self.below(v.len() as u64) as usize]
    }
}

//! ConsoleStream.tla: several threads log through two console appenders on one standard stream of a child
//! process; the parent reads the stream (pipe or terminal), cuts it into pieces and writes them as a trace
//! for Trace_ConsoleStream.tla.
use serde_json::{json, Value};
use std::{
    fs::File,
    io::Read,
    os::unix::io::{FromRawFd, RawFd},
    process::{Command, Stdio},
    sync::{Arc, Barrier},
};

/// `constream-child <stdout|stderr> <threads> <recs> <direct|logger>`
pub fn child(args: &[String]) {
    use log4rs::append::Append;
    let stderr = args[0] == "stderr";
    let threads: usize = args[1].parse().unwrap();
    let recs: usize = args[2].parse().unwrap();
    if args[3] == "unlocked" {
        return child_unlocked(stderr, threads, recs);
    }
    let direct = args[3] == "direct";
    // every piece says whose it is: thread name, message (the record number), appender, piece number; the line end
    // is the last piece
    let pattern = |k: usize| format!("{{h(<{{T}}.{{m}}.{k}.1>)}}<{{T}}.{{m}}.{k}.2>{{h(<{{T}}.{{m}}.{k}.3>)}}{{n}}", k = k);
    let target = if stderr { log4rs::append::console::Target::Stderr } else { log4rs::append::console::Target::Stdout };
    // the first appender from the builder, the second from a configuration value
    let a1: Box<dyn Append> = Box::new(
        log4rs::append::console::ConsoleAppender::builder()
            .target(target)
            .encoder(Box::new(log4rs::encode::pattern::PatternEncoder::new(&pattern(1))))
            .build(),
    );
    let mut doc = json!({"encoder": {"pattern": pattern(2)}});
    if stderr {
        doc["target"] = json!("stderr");
    }
    let v: serde_value::Value = serde_json::from_value(doc).unwrap();
    let a2 = log4rs::config::Deserializers::default().deserialize::<dyn Append>("console", v).expect("console appender from configuration");
    let barrier = Arc::new(Barrier::new(threads));
    if direct {
        let apps: Arc<Vec<Box<dyn Append>>> = Arc::new(vec![a1, a2]);
        let hs: Vec<_> = (1..=threads)
            .map(|t| {
                let (apps, barrier) = (apps.clone(), barrier.clone());
                std::thread::Builder::new()
                    .name(format!("t{}", t))
                    .spawn(move || {
                        barrier.wait();
                        for r in 1..=recs {
                            for a in apps.iter() {
                                if a.append(&log::Record::builder().level(log::Level::Warn).target("x").args(format_args!("r{}", r)).build()).is_err() {
                                    std::process::exit(3);
                                }
                            }
                        }
                    })
                    .unwrap()
            })
            .collect();
        for h in hs {
            h.join().unwrap();
        }
    } else {
        let cfg = log4rs::Config::builder()
            .appender(log4rs::config::Appender::builder().build("one", a1))
            .appender(log4rs::config::Appender::builder().build("two", a2))
            .build(log4rs::config::Root::builder().appender("one").appender("two").build(log::LevelFilter::Info))
            .unwrap();
        log4rs::init_config(cfg).unwrap();
        let hs: Vec<_> = (1..=threads)
            .map(|t| {
                let barrier = barrier.clone();
                std::thread::Builder::new()
                    .name(format!("t{}", t))
                    .spawn(move || {
                        barrier.wait();
                        for r in 1..=recs {
                            log::error!(target: "x", "r{}", r);
                        }
                    })
                    .unwrap()
            })
            .collect();
        for h in hs {
            h.join().unwrap();
        }
    }
}

/// The public `ConsoleWriter` used without `lock()`: every thread has a writer of its own on the same stream and
/// issues style requests and text pieces one call at a time.  Pieces of different threads may alternate in any order
/// (ConsoleStream.tla with Locked = FALSE), but each call's bytes - a style request's escape sequence as much as a
/// piece of text - arrive as one unit.
fn child_unlocked(stderr: bool, threads: usize, recs: usize) {
    use log4rs::encode::{writer::console::ConsoleWriter, Color, Style, Write as EncWrite};
    use std::io::Write;
    let barrier = Arc::new(Barrier::new(threads));
    let hs: Vec<_> = (1..=threads)
        .map(|t| {
            let barrier = barrier.clone();
            std::thread::spawn(move || {
                let mut w = match if stderr { ConsoleWriter::stderr() } else { ConsoleWriter::stdout() } {
                    Some(w) => w,
                    None => std::process::exit(4), // colour is forced for these runs: there must be a writer
                };
                let mut loud = Style::new();
                loud.text(Color::Red).background(Color::Cyan).intense(true);
                let mut calm = Style::new();
                calm.text(Color::Yellow).intense(false);
                barrier.wait();
                for r in 1..=recs {
                    for a in 1..=2 {
                        for p in 1..=4 {
                            let st = if p % 2 == 1 { &loud } else { &calm };
                            if w.set_style(st).is_err() || w.write_all(format!("<t{}.r{}.{}.{}>", t, r, a, p).as_bytes()).is_err() {
                                std::process::exit(3);
                            }
                        }
                        if w.set_style(&Style::new()).is_err() || w.write_all(b"\n").is_err() || w.flush().is_err() {
                            std::process::exit(3);
                        }
                    }
                }
            })
        })
        .collect();
    for h in hs {
        h.join().unwrap();
    }
}

enum End {
    Pty(RawFd),
    Pipe(File),
}

fn make(tty: bool) -> (End, RawFd) {
    unsafe {
        if tty {
            let (mut m, mut s) = (0, 0);
            if libc::openpty(&mut m, &mut s, std::ptr::null_mut(), std::ptr::null_mut(), std::ptr::null_mut()) != 0 {
                eprintln!("openpty failed");
                std::process::exit(2);
            }
            (End::Pty(m), s)
        } else {
            let mut fds = [0; 2];
            if libc::pipe(fds.as_mut_ptr()) != 0 {
                eprintln!("pipe failed");
                std::process::exit(2);
            }
            (End::Pipe(File::from_raw_fd(fds[0])), fds[1])
        }
    }
}

fn drain(e: End) -> Vec<u8> {
    let mut out = vec![];
    match e {
        End::Pipe(mut f) => {
            let _ = f.read_to_end(&mut out);
        }
        End::Pty(m) => unsafe {
            let mut buf = [0u8; 4096];
            loop {
                let n = libc::read(m, buf.as_mut_ptr() as *mut libc::c_void, buf.len());
                if n <= 0 {
                    break;
                }
                out.extend_from_slice(&buf[..n as usize]);
            }
            libc::close(m);
        },
    }
    out
}

/// Cuts the bytes of a stream into pieces: style requests are dropped (their form is Console.tla's business), a
/// self-describing piece becomes a "w" event, a line end an "nl" event, anything else "junk".
fn pieces(bytes: &[u8], nl_is_piece: bool) -> Vec<Value> {
    let mut out: Vec<Value> = vec![];
    let mut i = 0;
    let junk = |out: &mut Vec<Value>, b: u8| {
        if let Some(last) = out.last_mut() {
            if last["e"] == "junk" {
                let s = format!("{}{}", last["bytes"].as_str().unwrap(), (b as char).escape_default());
                last["bytes"] = json!(s);
                return;
            }
        }
        out.push(json!({"e": "junk", "bytes": (b as char).escape_default().to_string()}));
    };
    while i < bytes.len() {
        let b = bytes[i];
        if b == 0x1b && bytes.get(i + 1) == Some(&b'[') {
            // CSI ... m
            if let Some(end) = bytes[i + 2..].iter().position(|c| !(c.is_ascii_digit() || *c == b';')) {
                if bytes[i + 2 + end] == b'm' {
                    i += end + 3;
                    continue;
                }
            }
            junk(&mut out, b);
            i += 1;
        } else if b == b'\r' {
            i += 1; // a terminal turns LF into CR LF
        } else if b == b'\n' {
            if nl_is_piece {
                out.push(json!({"e": "nl"}));
            }
            i += 1;
        } else if b == b'<' {
            let parsed = bytes[i..].iter().position(|c| *c == b'>').and_then(|end| {
                let inner = std::str::from_utf8(&bytes[i + 1..i + end]).ok()?;
                let f: Vec<&str> = inner.split('.').collect();
                if f.len() != 4 {
                    return None;
                }
                let t: u32 = f[0].strip_prefix('t')?.parse().ok()?;
                let r: u32 = f[1].strip_prefix('r')?.parse().ok()?;
                let a: u32 = f[2].parse().ok()?;
                let p: u32 = f[3].parse().ok()?;
                Some((end, json!({"e": "w", "t": t, "r": r, "a": a, "p": p})))
            });
            match parsed {
                Some((end, ev)) => {
                    out.push(ev);
                    i += end + 1;
                }
                None => {
                    junk(&mut out, b);
                    i += 1;
                }
            }
        } else {
            junk(&mut out, b);
            i += 1;
        }
    }
    out
}

/// `constream <trace.ndjson> <threads> <recs> <rounds>`: rounds x (stdout, stderr) x (pipe, terminal) x (appenders
/// called directly, through the installed logger); the child runs are separated by "reset" events
pub fn main(args: &[String]) {
    let threads: usize = args[1].parse().unwrap();
    let recs: usize = args[2].parse().unwrap();
    let rounds: usize = args[3].parse().unwrap();
    let unlocked = args.get(4).map(|s| s == "unlocked").unwrap_or(false);
    let exe = std::env::current_exe().unwrap();
    let mut events: Vec<Value> = vec![];
    let mut runs = 0;
    let mut failures: Vec<Value> = vec![];
    let mut coloured = 0;
    for round in 0..rounds {
        for (ti, target) in ["stdout", "stderr"].iter().enumerate() {
            for tty in [false, true] {
                let mode = if unlocked { "unlocked" } else if (round + ti + tty as usize) % 2 == 0 { "logger" } else { "direct" };
                let (out_end, out_fd) = make(tty && ti == 0);
                let (err_end, err_fd) = make(tty && ti == 1);
                let mut cmd = Command::new(&exe);
                cmd.arg("constream-child").arg(target).arg(threads.to_string()).arg(recs.to_string()).arg(mode);
                cmd.env_remove("NO_COLOR").env_remove("CLICOLOR");
                // colours on a pipe as well in every other round
                if round % 2 == 0 || unlocked {
                    cmd.env("CLICOLOR_FORCE", "1");
                } else {
                    cmd.env_remove("CLICOLOR_FORCE");
                }
                unsafe {
                    cmd.stdin(Stdio::null()).stdout(Stdio::from_raw_fd(out_fd)).stderr(Stdio::from_raw_fd(err_fd));
                }
                let mut ch = match cmd.spawn() {
                    Ok(c) => c,
                    Err(e) => {
                        eprintln!("spawn failed: {}", e);
                        std::process::exit(2);
                    }
                };
                drop(cmd);
                let (status, out, err) = std::thread::scope(|s| {
                    let ho = s.spawn(move || drain(out_end));
                    let he = s.spawn(move || drain(err_end));
                    let status = ch.wait().unwrap();
                    (status, ho.join().unwrap(), he.join().unwrap())
                });
                let (mine, other) = if ti == 0 { (out, err) } else { (err, out) };
                if !status.success() {
                    failures.push(json!({"what": "child failed or panicked", "target": target, "tty": tty, "mode": mode, "status": status.to_string(),
                                         "other_stream": String::from_utf8_lossy(&other)}));
                    continue;
                }
                if !other.is_empty() {
                    failures.push(json!({"what": "bytes on the other stream", "target": target, "tty": tty, "mode": mode,
                                         "other_stream": String::from_utf8_lossy(&other[..other.len().min(400)])}));
                }
                if mine.contains(&0x1b) {
                    coloured += 1;
                }
                if runs > 0 {
                    events.push(json!({"e": "reset", "target": target, "tty": tty, "mode": mode}));
                }
                runs += 1;
                let ps = pieces(&mine, !unlocked);
                events.extend(ps);
            }
        }
    }
    events.push(json!({"e": "end"}));
    crate::util::write_ndjson(&args[0], &events);
    println!("{}", json!({"runs": runs, "events": events.len(), "coloured_runs": coloured, "failures": failures}));
}

//! C19: replay of EnvExpand.tla cases: where do FileAppender, RollingFileAppender and
//! FixedWindowRoller create their files for a path containing $ENV{..} references?
//! Runs in its own process (the environment is process state, set once before any thread starts).
use crate::{fsutil::*, util::*};
use log4rs::append::rolling_file::policy::compound::{
    roll::{fixed_window::FixedWindowRoller, Roll},
    trigger::size::SizeTrigger,
    CompoundPolicy,
};
use serde_json::{json, Value};

/// where a relative path lands: "." components and doubled slashes are nothing, ".." steps back (the specification
/// gives the expanded text; the directory tree holds the file where that text, read as a path, leads)
fn lands(p: String) -> String {
    let mut out: Vec<&str> = vec![];
    for c in p.split('/') {
        match c {
            "" | "." => {}
            ".." => {
                out.pop();
            }
            c => out.push(c),
        }
    }
    out.join("/")
}

fn only_file(root: &std::path::Path) -> Vec<String> {
    snapshot(root, false, false).keys().cloned().collect()
}

fn check_case(case: &Value, idx: usize) -> Option<Value> {
    let input = &case["input"].as_str().unwrap().replace('~', "\u{e9}").replace('^', "\u{fc}").replace('%', "\u{663}");
    let expect = &case["expect"].as_str().unwrap().replace('~', "\u{e9}").replace('^', "\u{fc}").replace('%', "\u{663}");
    // 1. file appender
    {
        let s = Scratch::new("env");
        let p = format!("{}/p-{}.log", s.path().display(), input);
        match catch(|| log4rs::append::file::FileAppender::builder().build(&p)) {
            Err(pn) => return Some(json!({"site": "FileAppender", "what": "panic", "error": pn})),
            Ok(Err(e)) => return Some(json!({"site": "FileAppender", "what": "build failed", "error": e.to_string()})),
            Ok(Ok(a)) => {
                let got = only_file(s.path());
                let want = vec![lands(format!("p-{}.log", expect))];
                if got != want {
                    return Some(json!({"site": "FileAppender", "what": "file location", "expected": want, "actual": got}));
                }
                let dbg = format!("{:?}", a);
                if !dbg.contains(&format!("{:?}", std::path::PathBuf::from(format!("{}/p-{}.log", s.path().display(), expect)))) {
                    return Some(json!({"site": "FileAppender", "what": "path shown by Debug", "debug": dbg}));
                }
            }
        }
    }
    // 1b. the reference at the very beginning of the path: a relative path (the process's working directory is a
    // scratch directory of its own); skipped where the expansion would be an absolute path
    if !expect.starts_with('/') && !input.starts_with('/') {
        let rel_in = format!("{}.rel{}.log", input, idx);
        let rel_want = format!("{}.rel{}.log", expect, idx);
        match catch(|| log4rs::append::file::FileAppender::builder().build(&rel_in)) {
            Err(pn) => return Some(json!({"site": "FileAppender (relative path)", "what": "panic", "error": pn})),
            Ok(Err(e)) => return Some(json!({"site": "FileAppender (relative path)", "what": "build failed", "error": e.to_string()})),
            Ok(Ok(_a)) => {
                let ok = std::path::Path::new(&rel_want).is_file();
                // (the unexpanded text read as a path may lead to the very same place - "$ENV{B}/../f" and "x/../f" once
                // another input has left a directory named "$ENV{B}" behind: a stray file is one at a different place)
                let stray = lands(rel_in.clone()) != lands(rel_want.clone()) && std::path::Path::new(&rel_in).is_file();
                let _ = std::fs::remove_file(&rel_want);
                if !ok || stray {
                    let _ = std::fs::remove_file(&rel_in);
                    return Some(json!({"site": "FileAppender (relative path)", "what": "file location", "expected": rel_want,
                                       "created_unexpanded_name": stray}));
                }
            }
        }
    }
    // 2. rolling file appender
    {
        let s = Scratch::new("env");
        let p = format!("{}/r-{}.log", s.path().display(), input);
        let policy = CompoundPolicy::new(
            Box::new(SizeTrigger::new(1 << 20)),
            Box::new(log4rs::append::rolling_file::policy::compound::roll::delete::DeleteRoller::new()),
        );
        match catch(|| log4rs::append::rolling_file::RollingFileAppender::builder().build(&p, Box::new(policy))) {
            Err(pn) => return Some(json!({"site": "RollingFileAppender", "what": "panic", "error": pn})),
            Ok(Err(e)) => return Some(json!({"site": "RollingFileAppender", "what": "build failed", "error": e.to_string()})),
            Ok(Ok(_a)) => {
                let got = only_file(s.path());
                let want = vec![lands(format!("r-{}.log", expect))];
                if got != want {
                    return Some(json!({"site": "RollingFileAppender", "what": "file location", "expected": want, "actual": got}));
                }
            }
        }
    }
    // 2c. a rolling appender that does roll: the roller is handed the path the appender works with - the expanded text -
    // and that is the file it archives (EnvExpand.tla: a text is expanded once; what came out is a name, not a text with
    // references).  Limit 1 byte, one slot: after two records the slot holds the second one and nothing else is there
    if idx % 2 == 0 {
        use log4rs::append::Append;
        let s = Scratch::new("env");
        let p = format!("{}/q-{}.log", s.path().display(), input);
        let arch = format!("{}/zz-arch.{{}}.log", s.path().display());
        let built = catch(|| -> anyhow::Result<log4rs::append::rolling_file::RollingFileAppender> {
            let roller = FixedWindowRoller::builder().build(&arch, 1)?;
            let policy = CompoundPolicy::new(Box::new(SizeTrigger::new(1)), Box::new(roller));
            Ok(log4rs::append::rolling_file::RollingFileAppender::builder()
                .encoder(Box::new(log4rs::encode::pattern::PatternEncoder::new("{m}")))
                .build(&p, Box::new(policy))?)
        });
        match built {
            Err(pn) => return Some(json!({"site": "RollingFileAppender that rolls", "what": "panic", "error": pn})),
            Ok(Err(e)) => return Some(json!({"site": "RollingFileAppender that rolls", "what": "build failed", "error": e.to_string()})),
            Ok(Ok(a)) => {
                for m in ["first", "second"] {
                    match catch(|| a.append(&log::Record::builder().level(log::Level::Info).args(format_args!("{}", m)).build())) {
                        Ok(Ok(())) => {}
                        other => return Some(json!({"site": "RollingFileAppender that rolls", "what": "append", "record": m,
                                                    "result": format!("{:?}", other.map(|r| r.map_err(|e| e.to_string())))})),
                    }
                }
                let got: Vec<(String, String)> = snapshot(s.path(), false, false).into_iter().map(|(k, v)| (k, String::from_utf8_lossy(&v).to_string())).collect();
                let want = vec![("zz-arch.0.log".to_string(), "second".to_string())];
                if got != want {
                    return Some(json!({"site": "RollingFileAppender that rolls", "what": "files after two records and two rolls", "active": lands(format!("q-{}.log", expect)),
                                       "expected": want, "actual": got}));
                }
            }
        }
    }
    // 2b. file appender described by a configuration value
    {
        let s = Scratch::new("env");
        let p = format!("{}/c-{}.log", s.path().display(), input);
        let v: serde_value::Value = serde_json::from_value(json!({"path": p})).unwrap();
        match catch(|| log4rs::config::Deserializers::default().deserialize::<dyn log4rs::append::Append>("file", v)) {
            Err(pn) => return Some(json!({"site": "file appender from configuration", "what": "panic", "error": pn})),
            Ok(Err(e)) => return Some(json!({"site": "file appender from configuration", "what": "build failed", "error": e.to_string()})),
            Ok(Ok(_a)) => {
                let got = only_file(s.path());
                let want = vec![lands(format!("c-{}.log", expect))];
                if got != want {
                    return Some(json!({"site": "file appender from configuration", "what": "file location", "expected": want, "actual": got}));
                }
            }
        }
    }
    // 3. fixed-window roller (the index placeholder is substituted before expansion)
    if !input.contains("{}") {
        let s = Scratch::new("env");
        let pattern = format!("{}/out/a-{}-{{}}.log", s.path().display(), input);
        let active = s.path().join("active.log");
        std::fs::write(&active, b"data").unwrap();
        match catch(|| FixedWindowRoller::builder().build(&pattern, 1).and_then(|r| r.roll(&active))) {
            Err(pn) => return Some(json!({"site": "FixedWindowRoller", "what": "panic", "error": pn})),
            Ok(Err(e)) => return Some(json!({"site": "FixedWindowRoller", "what": "roll failed", "error": e.to_string()})),
            Ok(Ok(())) => {
                let got = only_file(s.path());
                let want = vec![lands(format!("out/a-{}-0.log", expect))];
                if got != want {
                    return Some(json!({"site": "FixedWindowRoller", "what": "archive location", "expected": want, "actual": got}));
                }
            }
        }
    }
    // 3b. the index before the reference, a window of two, three rolls: every roll must find the archives where the
    // expansion puts them (an expansion may contain "/", i.e. put the index into a directory component)
    if !input.contains("{}") {
        let s = Scratch::new("env");
        let pattern = format!("{}/out/b-{{}}-{}.log", s.path().display(), input);
        let active = s.path().join("active.log");
        let r = catch(|| -> anyhow::Result<()> {
            let roller = FixedWindowRoller::builder().build(&pattern, 2)?;
            for k in 1..=3 {
                std::fs::write(&active, format!("data{}", k))?;
                roller.roll(&active)?;
            }
            Ok(())
        });
        match r {
            Err(pn) => return Some(json!({"site": "FixedWindowRoller (window of 2)", "what": "panic", "error": pn})),
            Ok(Err(e)) => return Some(json!({"site": "FixedWindowRoller (window of 2)", "what": "roll failed", "error": e.to_string()})),
            Ok(Ok(())) => {
                let got: Vec<(String, String)> = snapshot(s.path(), false, false).into_iter().map(|(k, v)| (k, String::from_utf8_lossy(&v).to_string())).collect();
                let mut want = vec![(lands(format!("out/b-0-{}.log", expect)), "data3".to_string()), (lands(format!("out/b-1-{}.log", expect)), "data2".to_string())];
                want.sort();
                // (an input that steps back over the component that holds the index - "/../" - gives every index the same
                // name: not a window)
                let distinct = want.windows(2).all(|w| w[0].0 != w[1].0);
                if distinct && got != want {
                    return Some(json!({"site": "FixedWindowRoller (window of 2)", "what": "archives after three rolls", "expected": want, "actual": got}));
                }
            }
        }
    }
    // 3c. the index completes the text where the input has "1" - possibly the name of a variable that is set for one
    // index of the window and unset for another: a window of three, four rolls, every archive where the pattern
    // means it at that index (substitute, then expand - per index)
    if !input.contains("{}") && case.get("expect0").is_some() {
        let s = Scratch::new("env");
        let pattern = format!("{}/out/c-{}.log", s.path().display(), input.replace('1', "{}"));
        let active = s.path().join("active.log");
        let r = catch(|| -> anyhow::Result<()> {
            let roller = FixedWindowRoller::builder().build(&pattern, 3)?;
            for k in 1..=4 {
                std::fs::write(&active, format!("data{}", k))?;
                roller.roll(&active)?;
            }
            Ok(())
        });
        let sub = |v: &Value| v.as_str().unwrap().replace('~', "\u{e9}").replace('^', "\u{fc}").replace('%', "\u{663}");
        match r {
            Err(pn) => return Some(json!({"site": "FixedWindowRoller (index inside the text)", "what": "panic", "error": pn})),
            Ok(Err(e)) => return Some(json!({"site": "FixedWindowRoller (index inside the text)", "what": "roll failed", "error": e.to_string()})),
            Ok(Ok(())) => {
                let got: Vec<(String, String)> = snapshot(s.path(), false, false).into_iter().map(|(k, v)| (k, String::from_utf8_lossy(&v).to_string())).collect();
                let mut want = vec![(lands(format!("out/c-{}.log", sub(&case["expect0"]))), "data4".to_string()), (lands(format!("out/c-{}.log", expect)), "data3".to_string()),
                                    (lands(format!("out/c-{}.log", sub(&case["expect2"]))), "data2".to_string())];
                want.sort();
                let distinct = want.windows(2).all(|w| w[0].0 != w[1].0);
                if distinct && got != want {
                    return Some(json!({"site": "FixedWindowRoller (index inside the text)", "what": "archives after four rolls", "pattern": pattern, "expected": want, "actual": got}));
                }
            }
        }
    }
    None
}

/// `envexpand <cases.ndjson> <out.ndjson>`
pub fn main(args: &[String]) {
    quiet_panics();
    let rows = read_ndjson(&args[0]);
    let meta = rows.iter().find(|r| r["meta"] == "env").expect("env meta");
    // bystanders: variables no input refers to, whose value or name is not text at all (bytes that are not UTF-8) - a
    // process environment is made of bytes (EnvExpand.tla: only the variables an input names play a part)
    {
        use std::os::unix::ffi::OsStrExt;
        std::env::set_var(std::ffi::OsStr::from_bytes(b"LV_BYSTANDER"), std::ffi::OsStr::from_bytes(b"caf\xe9"));
        std::env::set_var(std::ffi::OsStr::from_bytes(b"LV_BY\xffSTANDER"), std::ffi::OsStr::from_bytes(b"x"));
    }
    for (k, v) in meta["vars"].as_object().unwrap() {
        std::env::set_var(k.replace('~', "\u{e9}").replace('%', "\u{663}"), v.as_str().unwrap().replace('^', "\u{fc}"));
    }
    for u in meta["unset"].as_array().unwrap() {
        std::env::remove_var(u.as_str().unwrap());
    }
    let cases: Vec<&Value> = rows.iter().filter(|r| r.get("meta").is_none()).collect();
    let cwd = Scratch::new("envcwd");
    std::env::set_current_dir(cwd.path()).unwrap();
    let res = par_map(&cases, threads(), |i, c| {
        check_case(c, i).into_iter().map(|m| json!({"case": i, "input": c["input"], "expected_expansion": c["expect"], "mismatch": m})).collect()
    });
    write_ndjson(&args[1], &res);
    println!("{}", json!({"cases": cases.len(), "mismatches": res.len()}));
}

//! C09 / C11 (record fields under width specs): replay of FieldWidths.tla.
use crate::util::*;
use log4rs::encode::Encode;
use serde_json::{json, Value};

fn check_case(idx: usize, case: &Value) -> Option<Value> {
    let field = case["field"].as_str().unwrap();
    let value = case["value"].as_str().unwrap();
    let spec = &case["spec"];
    let (mn, mx) = (spec["min"].as_i64().unwrap(), spec["max"].as_i64().unwrap());
    let mut pat = format!("[{{{}", field);
    if mn >= 0 || mx >= 0 {
        pat.push(':');
        if mn >= 0 {
            pat.push_str(spec["fill"].as_str().unwrap());
            pat.push(if spec["align"] == "R" { '>' } else { '<' });
            pat.push_str(&mn.to_string());
        }
        if mx >= 0 {
            pat.push('.');
            pat.push_str(&mx.to_string());
        }
    }
    pat.push_str("}]");
    let absent = value == "-";
    let mut rb = log::Record::builder();
    rb.target("t").args(format_args!("m"));
    match field {
        "L" => {
            rb.line(if absent { None } else { Some(value.parse::<u32>().unwrap()) });
        }
        "l" => {
            rb.level(match value {
                "ERROR" => log::Level::Error,
                "WARN" => log::Level::Warn,
                _ => log::Level::Trace,
            });
        }
        "f" => {
            rb.file(if absent { None } else { Some(value) });
        }
        _ => {
            rb.module_path(if absent { None } else { Some(value) });
        }
    }
    let rec = rb.build();
    let enc: Box<dyn Encode> = if mix(idx) % 2 == 1 {
        let v: serde_value::Value = serde_json::from_value(json!({"pattern": pat})).unwrap();
        match log4rs::config::Deserializers::default().deserialize::<dyn Encode>("pattern", v) {
            Ok(e) => e,
            Err(e) => return Some(json!({"what": "encoder from configuration failed", "pattern": pat, "error": e.to_string()})),
        }
    } else {
        match catch(|| log4rs::encode::pattern::PatternEncoder::new(&pat)) {
            Ok(e) => Box::new(e),
            Err(p) => return Some(json!({"what": "PatternEncoder::new panicked", "pattern": pat, "error": p})),
        }
    };
    let mut out = vec![];
    let r = catch(|| {
        let mut w = log4rs::encode::writer::simple::SimpleWriter(&mut out);
        enc.encode(&mut w, &rec)
    });
    match r {
        Err(p) => return Some(json!({"what": "encode panicked", "pattern": pat, "field_value": value, "error": p})),
        Ok(Err(e)) => return Some(json!({"what": "encode failed", "pattern": pat, "field_value": value, "error": e.to_string()})),
        Ok(Ok(())) => {}
    }
    let got = String::from_utf8_lossy(&out).to_string();
    let want = format!("[{}]", case["expected"].as_str().unwrap());
    if got != want {
        return Some(json!({"what": "field under a width spec", "pattern": pat, "field_value": value, "expected": want, "actual": got}));
    }
    None
}

/// `fieldwidths <cases.ndjson> <out.ndjson>`
pub fn main(args: &[String]) {
    quiet_panics();
    let rows = read_ndjson(&args[0]);
    let res = par_map(&rows, threads(), |i, c| check_case(i, c).into_iter().map(|m| json!({"case": i, "input": c, "mismatch": m})).collect());
    write_ndjson(&args[1], &res);
    println!("{}", json!({"cases": rows.len(), "mismatches": res.len()}));
}

//! SharedFile.tla: two file appenders alive on one path, each used by a thread of its own (what a reconfiguration
//! produces while records are in flight).  Every scenario is one line: the two plans and the file found afterwards,
//! for Trace_SharedFile.tla to find a behaviour of the specification that leaves exactly that file.
use crate::{filetrace::{runs, unit_bytes}, fsutil::*, rng::Rng, util::*};
use log4rs::append::{file::FileAppender, Append};
use log4rs::encode::{Encode, Write as EncWrite};
use serde_json::{json, Value};
use std::{
    cell::RefCell,
    sync::{Arc, Barrier},
};

thread_local! {
    static CUR: RefCell<(u64, u64, Vec<u64>)> = RefCell::new((0, 0, vec![])); // appender, record, shape
}

#[derive(Debug)]
struct PlanEncoder;
impl Encode for PlanEncoder {
    fn encode(&self, w: &mut dyn EncWrite, _record: &log::Record) -> anyhow::Result<()> {
        let (a, r, shape) = CUR.with(|x| x.borrow().clone());
        for n in shape {
            let mut chunk = vec![];
            for _ in 0..n {
                chunk.extend(unit_bytes(a, r));
            }
            w.write_all(&chunk)?;
        }
        Ok(())
    }
}

/// `sharedfile <out.ndjson> <scenarios> <seed>`
pub fn main(args: &[String]) {
    quiet_panics();
    let n: usize = args[1].parse().unwrap();
    let mut rng = Rng::new(args[2].parse().unwrap());
    let shapes: Vec<Vec<u64>> = vec![vec![], vec![0], vec![1], vec![3], vec![4], vec![5], vec![3, 3], vec![1, 4], vec![2, 2, 1], vec![4, 4], vec![1, 0, 3], vec![7], vec![2], vec![1, 1]];
    let mut lines: Vec<Value> = vec![];
    let mut problems: Vec<Value> = vec![];
    let mut interleaved = 0;
    for k in 0..n {
        let scratch = Scratch::new("shared");
        let path = scratch.path().join("app.log");
        let plans: Vec<Vec<Vec<u64>>> = (0..2).map(|_| (0..2 + rng.below(4)).map(|_| rng.pick(&shapes).clone()).collect()).collect();
        // the second appender is built while the first one is alive; both append
        let a1: Arc<dyn Append> = Arc::new(FileAppender::builder().encoder(Box::new(PlanEncoder)).build(&path).unwrap());
        let a2: Arc<dyn Append> = if k % 2 == 0 {
            Arc::new(FileAppender::builder().encoder(Box::new(PlanEncoder)).build(&path).unwrap())
        } else {
            // ... from a configuration value, the `append` key left out (the documented default is append)
            struct D;
            #[derive(serde::Deserialize)]
            struct NoConfig {}
            impl log4rs::config::Deserialize for D {
                type Trait = dyn Encode;
                type Config = NoConfig;
                fn deserialize(&self, _: NoConfig, _: &log4rs::config::Deserializers) -> anyhow::Result<Box<dyn Encode>> {
                    Ok(Box::new(PlanEncoder))
                }
            }
            let mut d = log4rs::config::Deserializers::default();
            d.insert("plan", D);
            let v: serde_value::Value = serde_json::from_value(json!({"path": path.to_string_lossy(), "encoder": {"kind": "plan"}})).unwrap();
            Arc::from(d.deserialize::<dyn Append>("file", v).expect("file appender from configuration"))
        };
        let barrier = Arc::new(Barrier::new(2));
        let seeds = [rng.next(), rng.next()];
        let hs: Vec<_> = [a1, a2]
            .into_iter()
            .enumerate()
            .map(|(ai, app)| {
                let plan = plans[ai].clone();
                let b = barrier.clone();
                let mut r = Rng::new(seeds[ai]);
                std::thread::spawn(move || -> Vec<Value> {
                    let mut probs = vec![];
                    b.wait();
                    for (ri, shape) in plan.into_iter().enumerate() {
                        CUR.with(|x| *x.borrow_mut() = (ai as u64 + 1, ri as u64 + 1, shape));
                        match catch(|| app.append(&log::Record::builder().level(log::Level::Info).args(format_args!("x")).build())) {
                            Ok(Ok(())) => {}
                            other => probs.push(json!({"what": "append failed or panicked", "appender": ai + 1, "record": ri + 1,
                                                       "detail": format!("{:?}", other.map(|x| x.map_err(|e| e.to_string())))})),
                        }
                        match r.below(4) {
                            0 => std::thread::yield_now(),
                            1 => std::thread::sleep(std::time::Duration::from_micros(r.below(300))),
                            _ => {}
                        }
                    }
                    probs
                })
            })
            .collect();
        for h in hs {
            problems.extend(h.join().unwrap());
        }
        // (both appenders are gone: the threads owned them)
        let file = match std::fs::read(&path).map_err(|e| e.to_string()).and_then(|b| runs(&b)) {
            Ok(r) => json!(r),
            Err(e) => {
                problems.push(json!({"what": "the file is not made of whole units of known records", "scenario": k, "detail": e}));
                continue;
            }
        };
        let seq: Vec<u64> = file.as_array().unwrap().iter().map(|r| r[0].as_u64().unwrap()).collect();
        if seq.windows(2).filter(|w| w[0] != w[1]).count() > 1 {
            interleaved += 1;
        }
        lines.push(json!({"plan1": plans[0], "plan2": plans[1], "file": file}));
    }
    write_ndjson(&args[0], &lines);
    println!("{}", json!({"scenarios": lines.len(), "interleaved": interleaved, "problems": problems}));
}

//! C18: every row of Console.tla's decision table in its own child process with stdout / stderr
//! attached to a pty or a pipe; the 243 styles through AnsiWriter over a Vec<u8> in-process.
use crate::util::*;
use log4rs::append::Append;
use log4rs::encode::{Color, Style, Write as EncWrite};
use serde_json::{json, Value};
use std::{
    fs::File,
    io::Read,
    os::unix::io::{FromRawFd, RawFd},
    process::{Command, Stdio},
};

// "head\n" followed by 2048 characters, as one string literal
macro_rules! x64 {
    () => {
        "0123456789abcdef0123456789abcdef0123456789abcdef0123456789abcdef"
    };
}
macro_rules! long_literal {
    () => {
        concat!("head\n", x64!(), x64!(), x64!(), x64!(), x64!(), x64!(), x64!(), x64!(), x64!(), x64!(), x64!(), x64!(), x64!(), x64!(), x64!(), x64!(),
                x64!(), x64!(), x64!(), x64!(), x64!(), x64!(), x64!(), x64!(), x64!(), x64!(), x64!(), x64!(), x64!(), x64!(), x64!(), x64!())
    };
}
const LEVELS: [log::Level; 5] = [log::Level::Error, log::Level::Warn, log::Level::Info, log::Level::Debug, log::Level::Trace];

/// `console-child <stdout|stderr> <tty_only>`: one appender, one record per level
pub fn child(args: &[String]) {
    let target = if args[0] == "stderr" { log4rs::append::console::Target::Stderr } else { log4rs::append::console::Target::Stdout };
    // two highlight groups whose content exactly fills / overflows their maximum width: the reset still follows
    let nonl = args.get(3).map(|s| s == "nonl").unwrap_or(false);
    // "aligned": the two highlight groups sit directly next to each other inside a right-aligned group (the buffering
    // writer sees style, text, reset, style, text, reset with nothing in between)
    let aligned = args.get(3).map(|s| s == "aligned").unwrap_or(false);
    // "long": the message is a literal (no format arguments) with a newline inside and more than a kilobyte after it -
    // larger than the line buffer of the standard stream
    let long = args.get(3).map(|s| s == "long").unwrap_or(false);
    let pattern = if aligned {
        "{(<{h({l})}{h({t})}>):>12}|{m}>{n}"
    } else if long {
        // (the second highlight group has a minimum width only, which the two-character target fills exactly)
        "<{h({l}):.3}{h({t}):2}|{m}>{n}"
    } else if nonl {
        "<{h({l}):.3}{h({t}):2.2}|{m}>"
    } else {
        "<{h({l}):.3}{h({t}):2.2}|{m}>{n}"
    };
    let fd = if args[0] == "stderr" { 2 } else { 1 };
    let mk = || -> Box<dyn Append> { if args.get(2).map(|s| s == "config").unwrap_or(false) {
        // from a configuration value; keys whose documented default is wanted are left out
        let mut doc = json!({"encoder": {"pattern": pattern}});
        if args[0] == "stderr" {
            doc["target"] = json!("stderr");
        }
        if args[1] == "true" {
            doc["tty_only"] = json!(true);
        }
        let v: serde_value::Value = serde_json::from_value(doc).unwrap();
        log4rs::config::Deserializers::default().deserialize::<dyn Append>("console", v).expect("console appender from configuration")
    } else {
        // the builder's setters commute (Console.tla: a row is the settings, not the order they were given in): half of
        // the variants name the target last
        let enc = Box::new(log4rs::encode::pattern::PatternEncoder::new(pattern));
        if nonl || aligned {
            Box::new(log4rs::append::console::ConsoleAppender::builder().tty_only(args[1] == "true").encoder(enc).target(target).build())
        } else {
            Box::new(log4rs::append::console::ConsoleAppender::builder().target(target).tty_only(args[1] == "true").encoder(enc).build())
        }
    } };
    let a = mk();
    for l in LEVELS {
        let r = if long {
            a.append(&log::Record::builder().level(l).target("tg").args(format_args!(long_literal!())).build())
        } else {
            a.append(&log::Record::builder().level(l).target("tg").args(format_args!("payload")).build())
        };
        if r.is_err() {
            std::process::exit(3);
        }
        // a marker written to the descriptor itself: whatever append wrote must be on the stream before it
        unsafe {
            libc::write(fd, b"@".as_ptr() as *const libc::c_void, 1);
        }
    }
    // "redirect <file>": the stream is then re-pointed at a file and a second appender is built: what it does follows
    // the stream as it is when it is built (a file is not a terminal)
    // "epipe <file>": the reader of the stream goes away (the stream becomes a pipe nobody reads: one append fails with
    // "broken pipe"), then the stream is re-pointed at a file: the same appender writes there as if nothing had
    // happened - what an appender does is decided when it is built, a failed write changes nothing (Console.tla)
    // "nested <file>": the stream is re-pointed at a file; then one record is appended whose message logs another record
    // through the same appender while it is being rendered (a Display implementation that logs).  The standard
    // streams' locks are re-entrant: the inner record lands inside the outer one, and both are there in full
    if args.get(5).map(|s| s == "nested").unwrap_or(false) {
        use std::os::unix::io::AsRawFd;
        struct Chatty<'a>(&'a dyn Append);
        impl<'a> std::fmt::Display for Chatty<'a> {
            fn fmt(&self, f: &mut std::fmt::Formatter<'_>) -> std::fmt::Result {
                let _ = self.0.append(&log::Record::builder().level(log::Level::Info).target("tg").args(format_args!("inner")).build());
                f.write_str("outer")
            }
        }
        let f = std::fs::OpenOptions::new().create(true).append(true).open(&args[6]).expect("nested file");
        unsafe {
            libc::dup2(f.as_raw_fd(), fd);
        }
        if a.append(&log::Record::builder().level(log::Level::Error).target("tg").args(format_args!("{}", Chatty(a.as_ref()))).build()).is_err() {
            std::process::exit(3);
        }
        return;
    }
    if args.get(5).map(|s| s == "epipe").unwrap_or(false) {
        use std::os::unix::io::AsRawFd;
        let mut fds = [0i32; 2];
        unsafe {
            libc::pipe(fds.as_mut_ptr());
            libc::dup2(fds[1], fd);
            libc::close(fds[1]);
            libc::close(fds[0]);
        }
        let _ = a.append(&log::Record::builder().level(log::Level::Error).target("tg").args(format_args!("into the void")).build());
        let f = std::fs::OpenOptions::new().create(true).append(true).open(&args[6]).expect("epipe file");
        unsafe {
            libc::dup2(f.as_raw_fd(), fd);
        }
        for l in LEVELS {
            if a.append(&log::Record::builder().level(l).target("tg").args(format_args!("payload")).build()).is_err() {
                std::process::exit(3);
            }
        }
        return;
    }
    if let Some(path) = args.get(4).filter(|p| p.as_str() != "-") {
        drop(a);
        use std::os::unix::io::AsRawFd;
        let f = std::fs::OpenOptions::new().create(true).append(true).open(path).expect("redirect file");
        unsafe {
            libc::dup2(f.as_raw_fd(), fd);
        }
        let b = mk();
        for l in LEVELS {
            if b.append(&log::Record::builder().level(l).target("tg").args(format_args!("payload")).build()).is_err() {
                std::process::exit(3);
            }
        }
    }
}

enum End {
    Pty(RawFd),   // master side
    Pipe(File),   // read side
}

fn make(tty: bool) -> (End, RawFd) {
    unsafe {
        if tty {
            let (mut m, mut s) = (0, 0);
            if libc::openpty(&mut m, &mut s, std::ptr::null_mut(), std::ptr::null_mut(), std::ptr::null_mut()) != 0 {
                eprintln!("openpty failed");
                std::process::exit(2);
            }
            (End::Pty(m), s)
        } else {
            let mut fds = [0; 2];
            if libc::pipe(fds.as_mut_ptr()) != 0 {
                eprintln!("pipe failed");
                std::process::exit(2);
            }
            (End::Pipe(File::from_raw_fd(fds[0])), fds[1])
        }
    }
}

fn drain(e: End) -> Vec<u8> {
    let mut out = vec![];
    match e {
        End::Pipe(mut f) => {
            let _ = f.read_to_end(&mut out);
        }
        End::Pty(m) => unsafe {
            let mut buf = [0u8; 4096];
            loop {
                let n = libc::read(m, buf.as_mut_ptr() as *mut libc::c_void, buf.len());
                if n <= 0 {
                    break; // EIO once the slave side is closed
                }
                out.extend_from_slice(&buf[..n as usize]);
            }
            libc::close(m);
        },
    }
    out
}

fn plain_line(l: log::Level, variant: usize) -> String {
    if variant == 3 {
        return format!("<{}tg|{}>\n", &l.to_string()[..3], long_literal!());
    }
    if variant == 2 {
        return format!("{:>12}|payload>\n", format!("<{}tg>", l));
    }
    let nonl = variant == 1;
    format!("<{}tg|payload>{}", &l.to_string()[..3], if nonl { "" } else { "\n" })
}

/// strips well-formed SGR sequences; returns (text, sequences) or Err on a malformed escape
fn strip_sgr(s: &str) -> Result<(String, Vec<String>), String> {
    let mut out = String::new();
    let mut seqs = vec![];
    let mut rest = s;
    while let Some(p) = rest.find('\u{1b}') {
        out.push_str(&rest[..p]);
        let tail = &rest[p..];
        let end = tail.find('m').ok_or_else(|| format!("unterminated escape in {:?}", s))?;
        let seq = &tail[..=end];
        if !well_formed(seq) {
            return Err(format!("malformed escape sequence {:?}", seq));
        }
        seqs.push(seq.to_string());
        rest = &tail[end + 1..];
    }
    out.push_str(rest);
    Ok((out, seqs))
}

/// ESC [ 0 (;3c)? (;4c)? (;1|;22)? m
fn well_formed(seq: &str) -> bool {
    let b = seq.as_bytes();
    if b.len() < 4 || b[0] != 0x1b || b[1] != b'[' || b[2] != b'0' || b[b.len() - 1] != b'm' {
        return false;
    }
    let body = &seq[3..seq.len() - 1];
    let mut parts: Vec<&str> = body.split(';').collect();
    if parts.remove(0) != "" {
        return false;
    }
    let mut stage = 0;
    for p in parts {
        let ok = match p.as_bytes() {
            [b'3', c] if (b'0'..=b'7').contains(c) && stage < 1 => { stage = 1; true }
            [b'4', c] if (b'0'..=b'7').contains(c) && stage < 2 => { stage = 2; true }
            b"1" | b"22" if stage < 3 => { stage = 3; true }
            _ => false,
        };
        if !ok {
            return false;
        }
    }
    true
}

fn check_row(case: &Value, exe: &str, idx: usize) -> Option<Value> {
    let r = &case["row"];
    let (out_end, out_fd) = make(r["out_tty"].as_bool().unwrap());
    let (err_end, err_fd) = make(r["err_tty"].as_bool().unwrap());
    let mut cmd = Command::new(exe);
    cmd.arg("console-child").arg(r["target"].as_str().unwrap()).arg(r["tty_only"].to_string()).arg(if idx % 2 == 1 { "config" } else { "builder" });
    let variant = (idx / 2) % 4; // 0: newline at the end, 1: none, 2: highlight groups inside a right-aligned group, 3: long literal message
    let nonl = variant;
    // (idx is row * 8 + variant: every row runs with both constructions and all three patterns)
    cmd.arg(["nl", "nonl", "aligned", "long"][variant]);
    let redirect = if variant == 0 {
        let s = crate::fsutil::Scratch::new("redir");
        cmd.arg(s.path().join("second.txt"));
        Some(s)
    } else {
        None
    };
    let nested = if variant == 1 {
        let s = crate::fsutil::Scratch::new("nested");
        cmd.arg("-").arg("nested").arg(s.path().join("nested.txt"));
        Some(s)
    } else {
        None
    };
    let epipe = if variant == 2 {
        let s = crate::fsutil::Scratch::new("epipe");
        cmd.arg("-").arg("epipe").arg(s.path().join("after.txt"));
        Some(s)
    } else {
        None
    };
    for (var, key) in [("NO_COLOR", "no_color"), ("CLICOLOR", "clicolor"), ("CLICOLOR_FORCE", "force")] {
        match r[key].as_str().unwrap() {
            "unset" => {
                cmd.env_remove(var);
            }
            v => {
                cmd.env(var, v);
            }
        }
    }
    unsafe {
        cmd.stdin(Stdio::null()).stdout(Stdio::from_raw_fd(out_fd)).stderr(Stdio::from_raw_fd(err_fd));
    }
    let mut ch = match cmd.spawn() {
        Ok(c) => c,
        Err(e) => return Some(json!({"what": "harness: spawn failed", "error": e.to_string()})),
    };
    drop(cmd); // closes the parent's copies of the slave / write ends
    // both streams are read while the child runs: a terminal's buffer holds a few kilobytes only, and a child
    // blocked on it would never exit
    let (status, out, err) = std::thread::scope(|s| {
        let ho = s.spawn(move || drain(out_end));
        let he = s.spawn(move || drain(err_end));
        let status = ch.wait().unwrap();
        (status, ho.join().unwrap(), he.join().unwrap())
    });
    if !status.success() {
        return Some(json!({"what": "child failed or panicked", "status": status.to_string(), "stderr": String::from_utf8_lossy(&err)}));
    }
    if let Some(s) = &nested {
        let text = std::fs::read_to_string(s.path().join("nested.txt")).unwrap_or_default();
        let stripped = strip_sgr(&text).map(|x| x.0).unwrap_or_else(|_| text.clone());
        let want = if case["writes"].as_bool().unwrap() { "<ERRtg|<INFtg|inner>outer>" } else { "" };
        if stripped != want {
            return Some(json!({"what": "a record whose message logs through the same appender while it is rendered", "expected_text": want, "actual": text}));
        }
    }
    if let Some(s) = &epipe {
        let after = std::fs::read_to_string(s.path().join("after.txt")).unwrap_or_default();
        let tty_only = r["tty_only"].as_bool().unwrap();
        let plain: String = LEVELS.iter().map(|l| plain_line(*l, 2)).collect();
        let stripped = strip_sgr(&after).map(|x| x.0).unwrap_or_else(|_| after.clone());
        // (a tty_only appender that wrote to a terminal before keeps writing: the decision was made when it was built)
        let wrote_before = case["writes"].as_bool().unwrap();
        // (the record whose write failed may still arrive: standard output keeps what it could not write in its own
        // buffer and writes it with the next flush - at most once, and in front of the others)
        let void_line = format!("{:>12}|into the void>\n", "<ERRORtg>");
        let ok = if wrote_before { stripped == plain || stripped == format!("{}{}", void_line, plain) } else { after.is_empty() };
        if !ok {
            return Some(json!({"what": "after a write failed with a broken pipe and the stream was re-pointed, the appender does not write as before",
                               "tty_only": tty_only, "wrote_before": wrote_before, "expected_text": if wrote_before { plain } else { String::new() }, "actual": after}));
        }
    }
    if let Some(s) = &redirect {
        // the second appender was built when the stream was a file: it writes unless it is tty_only, and colours only
        // when colour is forced
        let second = std::fs::read_to_string(s.path().join("second.txt")).unwrap_or_default();
        let forced = r["no_color"].as_str().map(|v| v == "unset" || v == "0").unwrap_or(true) && r["force"].as_str().map(|v| v != "unset" && v != "0").unwrap_or(false);
        let tty_only = r["tty_only"].as_bool().unwrap();
        let plain: String = LEVELS.iter().map(|l| plain_line(*l, 0)).collect();
        let stripped = strip_sgr(&second).map(|x| x.0).unwrap_or_else(|_| second.clone());
        let has_esc = second.contains('\u{1b}');
        let ok = if tty_only { second.is_empty() } else { stripped == plain && has_esc == forced };
        if !ok {
            return Some(json!({"what": "an appender built after the stream was re-pointed at a file does not follow the new stream",
                               "tty_only": tty_only, "colour_forced": forced, "file_content": second}));
        }
    }
    let norm = |b: &[u8]| String::from_utf8_lossy(b).replace("\r\n", "\n");
    let (on_target, other) = if r["target"] == "stdout" { (norm(&out), norm(&err)) } else { (norm(&err), norm(&out)) };
    if !other.is_empty() {
        return Some(json!({"what": "output on the stream that is not the target", "text": other}));
    }
    // record, marker, record, marker, ...: each append's output is on the stream when append returns
    let segments: Vec<&str> = on_target.split('@').collect();
    if segments.len() != LEVELS.len() + 1 || !segments[LEVELS.len()].is_empty() {
        return Some(json!({"what": "output appears after the marker that follows its append", "stream": on_target}));
    }
    if case["writes"].as_bool().unwrap() {
        for (seg, l) in segments.iter().zip(LEVELS) {
            let text = strip_sgr(seg).map(|x| x.0).unwrap_or_else(|_| seg.to_string());
            if text != plain_line(l, nonl) {
                return Some(json!({"what": "a record is not on the stream when its append returns", "level": l.to_string(),
                                   "between_markers": seg, "stream": on_target}));
            }
        }
    }
    let on_target: String = segments.concat();
    let writes = case["writes"].as_bool().unwrap();
    let coloured = case["coloured"].as_bool().unwrap();
    if !writes {
        if !on_target.is_empty() {
            return Some(json!({"what": "a tty_only appender wrote although its target is not a terminal", "text": on_target}));
        }
        return None;
    }
    let want_plain: String = LEVELS.iter().map(|l| plain_line(*l, nonl)).collect();
    if on_target.is_empty() {
        return Some(json!({"what": "appender is silent although it must write", "expected": want_plain}));
    }
    if !coloured {
        if on_target != want_plain {
            return Some(json!({"what": "uncoloured output differs (escape sequences or text)", "expected": want_plain, "actual": on_target}));
        }
        return None;
    }
    match strip_sgr(&on_target) {
        Err(e) => Some(json!({"what": "malformed escape sequence", "detail": e, "actual": on_target})),
        Ok((text, seqs)) => {
            if text != want_plain {
                return Some(json!({"what": "coloured output: text differs after removing the escape sequences", "expected": want_plain, "actual": text}));
            }
            // four of the five levels are highlighted; two nested groups each: a style before, a reset after
            if seqs.len() != 16 {
                return Some(json!({"what": "colour enabled but the highlight groups are not styled", "sequences": seqs}));
            }
            for line in segments.iter().filter(|l| l.contains('\u{1b}')) {
                // style, reset, style, reset - each group is closed before the next text
                let per_line = strip_sgr(line).map(|x| x.1).unwrap_or_default();
                let shape_ok = per_line.len() == 4 && per_line[1] == "\u{1b}[0m" && per_line[3] == "\u{1b}[0m" && per_line[0] != "\u{1b}[0m" && per_line[2] != "\u{1b}[0m";
                if !shape_ok || !line.contains(["\u{1b}[0m|payload", "\u{1b}[0m|payload", "\u{1b}[0m>|payload", "\u{1b}[0m|head"][variant]) {
                    return Some(json!({"what": "highlighted group is not followed by a reset", "line": line}));
                }
            }
            None
        }
    }
}

fn color(c: &str) -> Option<Color> {
    Some(match c {
        "0" => Color::Black,
        "1" => Color::Red,
        "2" => Color::Green,
        "3" => Color::Yellow,
        "4" => Color::Blue,
        "5" => Color::Magenta,
        "6" => Color::Cyan,
        "7" => Color::White,
        _ => return None,
    })
}

fn check_style(case: &Value) -> Option<Value> {
    let s = &case["style"];
    let mut st = Style::new();
    if let Some(c) = color(s["text"].as_str().unwrap()) {
        st.text(c);
    }
    if let Some(c) = color(s["bg"].as_str().unwrap()) {
        st.background(c);
    }
    match s["intense"].as_str().unwrap() {
        "on" => {
            st.intense(true);
        }
        "off" => {
            st.intense(false);
        }
        _ => {}
    }
    let want = case["sgr"].as_str().unwrap().replace("ESC", "\u{1b}");
    let r = catch(|| {
        let mut w = log4rs::encode::writer::ansi::AnsiWriter(Vec::<u8>::new());
        w.set_style(&st).map(|_| w.0)
    });
    match r {
        Err(p) => Some(json!({"what": "set_style panicked", "error": p})),
        Ok(Err(e)) => Some(json!({"what": "set_style failed", "error": e.to_string()})),
        Ok(Ok(bytes)) => {
            let got = String::from_utf8_lossy(&bytes).to_string();
            if got != want || !well_formed(&got) {
                Some(json!({"what": "SGR sequence differs", "expected": want, "actual": got}))
            } else {
                None
            }
        }
    }
}

/// `console <cases.ndjson> <out.ndjson>`
pub fn main(args: &[String]) {
    quiet_panics();
    let rows = read_ndjson(&args[0]);
    let exe = std::env::current_exe().unwrap().to_string_lossy().to_string();
    let res = par_map(&rows, 8, |i, c| {
        let m = if c["kind"] == "row" { (0..8).find_map(|v| check_row(c, &exe, i * 8 + v)) } else { check_style(c) };
        m.into_iter().map(|m| json!({"case": i, "input": c, "mismatch": m})).collect()
    });
    write_ndjson(&args[1], &res);
    println!("{}", json!({"cases": rows.len(), "mismatches": res.len()}));
}

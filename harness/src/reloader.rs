//! C15 (reloader half): replay of Reloader.tla histories through the guarded single-step API of
//! the private ConfigReloader. The active configuration is observed from outside: the documents
//! use a harness appender kind `capture` whose instances carry the document's tag and a fresh
//! construction number, so both "which version is active" and "was the logger swapped" show.
use crate::{fsutil::*, util::*};
use log::Log;
use log4rs::config::{Deserialize, Deserializers, VerifReloader};
use serde_json::{json, Value};
use std::{
    sync::{
        atomic::{AtomicUsize, Ordering},
        Arc, Mutex,
    },
    time::{Duration, SystemTime},
};

#[derive(Debug)]
pub struct Capture {
    tag: String,
    instance: usize,
    sink: Arc<Mutex<Vec<(String, usize)>>>,
}
impl log4rs::append::Append for Capture {
    fn append(&self, _r: &log::Record) -> anyhow::Result<()> {
        self.sink.lock().unwrap().push((self.tag.clone(), self.instance));
        Ok(())
    }
    fn flush(&self) {}
}

#[derive(serde::Deserialize)]
#[serde(deny_unknown_fields)]
pub struct CaptureConfig {
    tag: String,
}
pub struct CaptureDeserializer {
    pub sink: Arc<Mutex<Vec<(String, usize)>>>,
    pub built: Arc<AtomicUsize>,
    /// the appender of version 3 takes this long to build (the live scenarios: longer than any refresh rate in use)
    pub slow_v3: Duration,
}
impl Deserialize for CaptureDeserializer {
    type Trait = dyn log4rs::append::Append;
    type Config = CaptureConfig;
    fn deserialize(&self, config: CaptureConfig, _: &Deserializers) -> anyhow::Result<Box<dyn log4rs::append::Append>> {
        let instance = self.built.fetch_add(1, Ordering::SeqCst) + 1;
        // in the YAML rendering the tag is the document's last node, a block scalar that keeps its trailing line
        // breaks: "v<b>" followed by c line breaks stands for version b + 2 (c - 1) - two versions whose texts differ
        // in nothing but white space at the very end (text_rate)
        let mut config = config;
        let breaks = config.tag.len() - config.tag.trim_end_matches('\n').len();
        if breaks > 0 {
            let b: i64 = config.tag.trim_end_matches('\n').trim_start_matches('v').parse().unwrap_or(-1);
            config.tag = format!("v{}", b + 2 * (breaks as i64 - 1));
        }
        if config.tag == "v3" && !self.slow_v3.is_zero() {
            std::thread::sleep(self.slow_v3);
        }
        Ok(Box::new(Capture { tag: config.tag, instance, sink: self.sink.clone() }))
    }
}

fn rate_dur(r: i64) -> Duration {
    Duration::from_secs(30 * r as u64)
}

fn text(c: &Value, fmt: usize) -> Option<String> {
    text_rate(c, fmt, false)
}

/// `live`: the rate is r milliseconds (the real reloader thread sleeps it); otherwise 30 r seconds
/// Reloader.tla, MaxLevel: the root stays at info in every version; the logger `deep` is at trace in odd versions and
/// at warn in even ones, so the most verbose level of a version is trace (5) or info (3)
pub fn deep_level(v: i64) -> &'static str {
    if v % 2 != 0 { "trace" } else { "warn" }
}

pub fn text_rate(c: &Value, fmt: usize, live: bool) -> Option<String> {
    match c["k"].as_str().unwrap() {
        "absent" => None,
        "broken" => Some(match (c["v"].as_i64().unwrap(), fmt) {
            (1, 0) => "root: [unclosed\n  level: {{{".to_string(),
            (1, 1) => "{ \"root\": ".to_string(),
            (1, _) => "root = = 1".to_string(),
            (_, 0) => "root: 5\nappenders: 7\n".to_string(),
            (_, 1) => "{\"root\": 5, \"appenders\": 7}".to_string(),
            (_, _) => "root = 5\nappenders = 7\n".to_string(),
        }),
        _ => {
            let v = c["v"].as_i64().unwrap();
            let r = c["r"].as_i64().unwrap();
            let rate = if live { format!("{}ms", r) } else { format!("{} seconds", 30 * r) };
            Some(match fmt {
                0 => {
                    // versions 4k+2 and 4k+3 are the text of the version two below with one more line break at the end
                    let (b, extra) = if v.rem_euclid(4) >= 2 { (v - 2, "\n") } else { (v, "") };
                    format!(
                        "{}root:\n  level: info\n  appenders:\n    - cap\nloggers:\n  deep:\n    level: {}\nappenders:\n  cap:\n    kind: capture\n    tag: |+\n      v{}\n{}",
                        if r > 0 { format!("refresh_rate: {}\n", rate) } else { String::new() }, deep_level(v), b, extra)
                }
                1 => {
                    let mut doc = json!({"appenders": {"cap": {"kind": "capture", "tag": format!("v{}", v)}},
                                         "root": {"level": "info", "appenders": ["cap"]}, "loggers": {"deep": {"level": deep_level(v)}}});
                    if r > 0 {
                        doc["refresh_rate"] = json!(rate);
                    }
                    serde_json::to_string_pretty(&doc).unwrap()
                }
                _ => format!(
                    "{}[appenders.cap]\nkind = \"capture\"\ntag = \"v{}\"\n\n[root]\nlevel = \"info\"\nappenders = [\"cap\"]\n\n[loggers.deep]\nlevel = \"{}\"\n",
                    if r > 0 { format!("refresh_rate = \"{}\"\n", rate) } else { String::new() }, v, deep_level(v)),
            })
        }
    }
}

fn check_case(case: &Value, fmt: usize) -> Option<Value> {
    let scratch = Scratch::new("reload");
    let path = scratch.path().join(["log4rs.yaml", "log4rs.json", "log4rs.toml"][fmt]);
    let ops = case["ops"].as_array().unwrap();
    let sink = Arc::new(Mutex::new(vec![]));
    let built = Arc::new(AtomicUsize::new(0));
    let mk = || {
        let mut d = Deserializers::default();
        d.insert("capture", CaptureDeserializer { sink: sink.clone(), built: built.clone(), slow_v3: Duration::ZERO });
        d
    };
    let base = SystemTime::UNIX_EPOCH + Duration::from_secs(1_700_000_000);
    let set_mtime = |m: i64| {
        let f = std::fs::OpenOptions::new().write(true).open(&path).unwrap();
        f.set_modified(base + Duration::from_secs(m as u64 * 10)).unwrap();
    };
    let init = &ops[0]["c"];
    let src = text(init, fmt).unwrap();
    std::fs::write(&path, &src).unwrap();
    set_mtime(2); // Reloader.tla starts at modification time 2 so that an edit can go back to 1
    let cfg = match log4rs::config::load_config_file(&path, mk()) {
        Ok(c) => c,
        Err(e) => return Some(json!({"step": 0, "what": "initial load failed", "error": e.to_string()})),
    };
    let logger = log4rs::Logger::new(cfg);
    let modified = std::fs::metadata(&path).and_then(|m| m.modified()).ok();
    let mut rl = match VerifReloader::new(path.clone(), src, modified, mk(), logger.verif_handle()) {
        Ok(r) => r,
        Err(e) => return Some(json!({"step": 0, "what": "reloader construction failed", "error": e.to_string()})),
    };
    let mut rate = init["r"].as_i64().unwrap();
    let probe = |logger: &log4rs::Logger| -> Option<(String, usize)> {
        sink.lock().unwrap().clear();
        logger.log(&log::Record::builder().level(log::Level::Error).target("probe").args(format_args!("p")).build());
        let s = sink.lock().unwrap();
        if s.len() == 1 { Some(s[0].clone()) } else { None }
    };
    let first = probe(&logger);
    let mut last_instance = match &first {
        Some((tag, inst)) if *tag == format!("v{}", init["v"]) => *inst,
        other => return Some(json!({"step": 0, "what": "initial configuration not active", "probe": format!("{:?}", other)})),
    };
    let mut swaps_seen = 0i64;
    for (si, op) in ops.iter().enumerate().skip(1) {
        match op["op"].as_str().unwrap() {
            "edit" => match text(&op["c"], fmt) {
                None => {
                    let _ = std::fs::remove_file(&path);
                }
                Some(t) => {
                    std::fs::write(&path, t).unwrap();
                    set_mtime(op["m"].as_i64().unwrap());
                }
            },
            "poll" => {
                let r = catch(|| rl.run_once(rate_dur(rate)));
                let want = op["ret"].as_str().unwrap();
                let got = match &r {
                    Err(p) => format!("panic: {}", p),
                    Ok(Err(_)) => "err".to_string(),
                    Ok(Ok(None)) => "stop".to_string(),
                    Ok(Ok(Some(d))) => format!("continue:{}", d.as_secs()),
                };
                let want_s = match want {
                    "err" => "err".to_string(),
                    "stop" => "stop".to_string(),
                    _ => format!("continue:{}", 30 * op["rate"].as_i64().unwrap()),
                };
                if got != want_s {
                    return Some(json!({"step": si, "op": op, "what": "run_once result", "expected": want_s, "actual": got}));
                }
                rate = op["rate"].as_i64().unwrap();
                match probe(&logger) {
                    Some((tag, inst)) => {
                        if tag != format!("v{}", op["active"]) {
                            return Some(json!({"step": si, "op": op, "what": "active configuration", "expected": format!("v{}", op["active"]), "actual": tag}));
                        }
                        if inst != last_instance {
                            swaps_seen += 1;
                            last_instance = inst;
                        }
                        if swaps_seen != op["swaps"].as_i64().unwrap() {
                            return Some(json!({"step": si, "op": op, "what": "logger swapped although / not swapped when the specification says",
                                               "expected_swaps": op["swaps"], "actual_swaps": swaps_seen}));
                        }
                    }
                    None => return Some(json!({"step": si, "op": op, "what": "probe record not delivered exactly once"})),
                }
            }
            _ => {}
        }
    }
    None
}

/// `reloader <cases.ndjson> <out.ndjson>`
pub fn main(args: &[String]) {
    quiet_panics();
    let rows = read_ndjson(&args[0]);
    let res = par_map(&rows, threads(), |i, c| {
        let fmt = mix(i) % 3;
        let fname = ["yaml", "json", "toml"][fmt];
        check_case(c, fmt).into_iter().map(|m| json!({"case": i, "format": fname,
            "ops": c["ops"], "mismatch": m})).collect()
    });
    write_ndjson(&args[1], &res);
    println!("{}", json!({"cases": rows.len(), "mismatches": res.len()}));
}

//! C09 / C12 (message delivery): replay of Fragments.tla - the message arrives in fragments of the given lengths.
use crate::{pattern::Pieces, util::*};
use log4rs::encode::Encode;
use serde_json::{json, Value};

fn render(enc: &dyn Encode, pieces: &[String], accept: Vec<usize>) -> Result<String, String> {
    let mut cap = crate::pattern::Cap::new(accept);
    let msg = Pieces(pieces);
    let r = catch(|| enc.encode(&mut cap, &log::Record::builder().level(log::Level::Info).target("t").args(format_args!("{}", msg)).build()));
    match r {
        Err(p) => Err(format!("panic: {}", p)),
        Ok(Err(e)) => Err(format!("error: {}", e)),
        Ok(Ok(())) => {
            let mut bytes = vec![];
            for o in &cap.out {
                match o {
                    crate::pattern::Out::Bytes(b) => bytes.extend_from_slice(b),
                    crate::pattern::Out::Style(_) => return Err("a style request where the pattern / encoder has none".to_string()),
                }
            }
            String::from_utf8(bytes).map_err(|e| e.to_string())
        }
    }
}

fn check_case(idx: usize, case: &Value) -> Option<Value> {
    let lens: Vec<usize> = case["frags"].as_array().map(|a| a.iter().map(|v| v.as_u64().unwrap() as usize).collect()).unwrap_or_default();
    // fragment i is made of its own letter (every seventh character a two-byte one), so a reordering shows
    let pieces: Vec<String> = lens
        .iter()
        .enumerate()
        .map(|(i, n)| (0..*n).map(|k| if k % 7 == 3 { ['\u{e9}', '\u{fc}', '\u{f1}'][i % 3] } else { (b'a' + i as u8) as char }).collect())
        .collect();
    let whole: String = pieces.concat();
    let accept = if mix(idx) % 3 == 0 { vec![] } else if mix(idx) % 3 == 1 { vec![7, 0, 300] } else { vec![1024] };
    for (pat, want) in [
        ("{m}".to_string(), whole.clone()),
        ("[{m}]{n}".to_string(), format!("[{}]\n", whole)),
        ("{l} {(<{m}>):.5000}|".to_string(), format!("INFO <{}>|", whole)),
    ] {
        let enc = log4rs::encode::pattern::PatternEncoder::new(&pat);
        match render(&enc, &pieces, accept.clone()) {
            Err(e) => return Some(json!({"what": "pattern encoder failed", "pattern": pat, "error": e})),
            Ok(got) if got != want => {
                return Some(json!({"what": "message fragments not rendered in order", "pattern": pat, "fragment_lengths": lens,
                                   "expected_prefix": want.chars().take(40).collect::<String>(), "actual_prefix": got.chars().take(40).collect::<String>(),
                                   "expected_len": want.len(), "actual_len": got.len()}))
            }
            _ => {}
        }
    }
    let enc = log4rs::encode::json::JsonEncoder::new();
    match render(&enc, &pieces, accept) {
        Err(e) => return Some(json!({"what": "json encoder failed", "error": e})),
        Ok(line) => {
            if !line.ends_with('\n') || line[..line.len() - 1].contains('\n') {
                return Some(json!({"what": "json line framing", "fragment_lengths": lens, "len": line.len()}));
            }
            match serde_json::from_str::<Value>(&line) {
                Ok(v) if v["message"] == whole => {}
                Ok(v) => {
                    return Some(json!({"what": "json message member differs", "fragment_lengths": lens,
                                       "actual_prefix": v["message"].as_str().unwrap_or("").chars().take(40).collect::<String>()}))
                }
                Err(e) => return Some(json!({"what": "json line does not parse", "fragment_lengths": lens, "error": e.to_string()})),
            }
        }
    }
    None
}

/// `fragments <cases.ndjson> <out.ndjson>`
pub fn main(args: &[String]) {
    quiet_panics();
    let rows = read_ndjson(&args[0]);
    let res = par_map(&rows, threads(), |i, c| check_case(i, c).into_iter().map(|m| json!({"case": i, "input": c, "mismatch": m})).collect());
    write_ndjson(&args[1], &res);
    println!("{}", json!({"cases": rows.len(), "mismatches": res.len()}));
}

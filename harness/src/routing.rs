//! C01 (+ the static part of C02): replay of Routing.tla configurations.
use crate::util::*;
use log::Log;
use serde_json::{json, Value};
use std::sync::{atomic::Ordering, Arc};

const APPENDERS: [&str; 3] = ["A", "B", "C"]; // C is declared but never attached

pub struct Built {
    pub logger: log4rs::Logger,
    pub counters: Vec<Arc<Counter>>,
    pub reported: Arc<Counter>,
}

/// Builds the configuration of a case with the given declaration orders.
pub fn build(case: &Value, lperm: &[usize], aperm: &[usize], salt: usize) -> Result<Built, String> {
    let counters: Vec<Arc<Counter>> = (0..APPENDERS.len()).map(|_| Arc::new(Counter::default())).collect();
    // how the declarations are handed to the builders - one at a time, in bulk, or mixed - is not part of the
    // configuration (ConfigBuild.tla): every build picks one of the styles
    let style = mix(salt * 31 + lperm.iter().fold(7usize, |a, x| a * 5 + x) + aperm.iter().fold(3usize, |a, x| a * 7 + x) + case["loggers"].as_array().unwrap().len());
    // (a run of one declaration goes through the single-item method or through the bulk method with one item)
    let single = |len: usize, k: usize| len == 1 && (style >> (9 + k)) & 1 == 0;
    let mut b = log4rs::Config::builder();
    let apps: Vec<log4rs::config::Appender> = aperm.iter()
        .map(|&ai| log4rs::config::Appender::builder().build(APPENDERS[ai], Box::new(CountingAppender(counters[ai].clone()))))
        .collect();
    for mut run in runs(apps, style) {
        b = if single(run.len(), 0) { b.appender(run.pop().unwrap()) } else { b.appenders(run) };
    }
    let loggers = case["loggers"].as_array().unwrap();
    let decls: Vec<log4rs::config::Logger> = lperm.iter().map(|&li| {
        let l = &loggers[li];
        let mut lb = log4rs::config::Logger::builder().additive(l["add"].as_bool().unwrap());
        let names: Vec<String> = l["apps"].as_array().unwrap().iter().map(|a| a.as_str().unwrap().to_string()).collect();
        for mut run in runs(names, style / 25 + li) {
            lb = if single(run.len(), 1 + li) { lb.appender(run.pop().unwrap()) } else { lb.appenders(run) };
        }
        lb.build(l["name"].as_str().unwrap(), level_filter(l["lvl"].as_i64().unwrap()))
    }).collect();
    for mut run in runs(decls, style / 5) {
        b = if single(run.len(), 5) { b.logger(run.pop().unwrap()) } else { b.loggers(run) };
    }
    let mut rb = log4rs::config::Root::builder();
    let names: Vec<String> = case["root"]["apps"].as_array().unwrap().iter().map(|a| a.as_str().unwrap().to_string()).collect();
    for mut run in runs(names, style / 125) {
        rb = if single(run.len(), 6) { rb.appender(run.pop().unwrap()) } else { rb.appenders(run) };
    }
    // strict and lossy builds are both entry points to the same routing (the file loaders use the lossy one)
    // a third of the builds declare the root at Off and give it its level afterwards, through Config::root_mut():
    // what routes and gates is the configuration as it is when the logger is made, not as it was when it was built
    let root_lvl = level_filter(case["root"]["lvl"].as_i64().unwrap());
    let late_level = (lperm.len() + aperm[1] + case["loggers"].as_array().unwrap().len()) % 3 == 0;
    let root = rb.build(if late_level { log::LevelFilter::Off } else { root_lvl });
    let cfg = if (lperm.first().copied().unwrap_or(0) + aperm[0]) % 2 == 1 {
        let (cfg, errs) = b.build_lossy(root);
        if !errs.is_empty() {
            return Err(format!("lossy build reported errors for a valid configuration: {}", errs));
        }
        cfg
    } else {
        b.build(root).map_err(|e| format!("strict build refused a valid configuration: {}", e))?
    };
    let mut cfg = cfg;
    if late_level {
        cfg.root_mut().set_level(root_lvl);
    }
    let reported = Arc::new(Counter::default());
    let rep = reported.clone();
    let logger = log4rs::Logger::new_with_err_handler(cfg, Box::new(move |_| {
        rep.n.fetch_add(1, Ordering::Relaxed);
    }));
    Ok(Built { logger, counters, reported })
}

fn expected_counts(cls: &Value) -> [usize; 3] {
    let mut c = [0usize; 3];
    for a in cls["apps"].as_array().unwrap() {
        let i = APPENDERS.iter().position(|x| *x == a.as_str().unwrap()).unwrap();
        c[i] += 1;
    }
    c
}

pub fn check_case(ci: usize, case: &Value, targets: &[String], max_perms: usize) -> Vec<Value> {
    let nl = case["loggers"].as_array().unwrap().len();
    let mut lperms = permutations(nl);
    lperms.truncate(max_perms.max(1));
    let aperms = [vec![0usize, 1, 2], vec![2, 1, 0], vec![1, 2, 0]];
    let classes: Vec<(i64, [usize; 3])> = case["cls"]
        .as_array()
        .unwrap()
        .iter()
        .map(|c| (c["thr"].as_i64().unwrap(), expected_counts(c)))
        .collect();
    let idx: Vec<usize> = case["idx"].as_array().unwrap().iter().map(|v| v.as_u64().unwrap() as usize - 1).collect();
    let mut out = vec![];
    for (pi, lperm) in lperms.iter().enumerate() {
        let aperm = &aperms[pi % aperms.len()];
        let built = match catch(|| build(case, lperm, aperm, ci)) {
            Ok(Ok(b)) => b,
            Ok(Err(e)) => {
                out.push(json!({"what": "build", "error": e, "order": lperm}));
                continue;
            }
            Err(p) => {
                out.push(json!({"what": "build-panic", "error": p, "order": lperm}));
                continue;
            }
        };
        // which appenders fail (Routing.tla, Reported): none, all, only A
        let failing: [bool; 3] = match (pi + ci) % 3 {
            0 => [false; 3],
            1 => [true; 3],
            _ => [true, false, false],
        };
        for (c, f) in built.counters.iter().zip(failing) {
            c.fail.store(f, Ordering::Relaxed);
        }
        let maxl = filter_num(built.logger.max_log_level());
        if maxl != case["max"].as_i64().unwrap() {
            out.push(json!({"what": "max_log_level", "expected": case["max"], "actual": maxl, "order": lperm}));
        }
        let decoy: &str = case["loggers"].as_array().unwrap().first().and_then(|l| l["name"].as_str()).unwrap_or("a::a");
        'targets: for (ti, t) in targets.iter().enumerate() {
            let (thr, exp) = classes[idx[ti]];
            for l in 1..=5i64 {
                let admitted = thr >= l;
                let md = log::Metadata::builder().target(t).level(level(l)).build();
                let en = built.logger.enabled(&md);
                if en != admitted {
                    out.push(json!({"what": "enabled", "target": t, "level": l, "expected": admitted, "actual": en, "order": lperm}));
                    break 'targets;
                }
                for c in &built.counters {
                    c.n.store(0, Ordering::Relaxed);
                }
                built.reported.n.store(0, Ordering::Relaxed);
                let r = catch(|| {
                    built.logger.log(
                        // module path, file and line must play no part in routing: give them values that
                        // name configured loggers
                        &log::Record::builder().target(t).level(level(l)).module_path(Some(decoy)).file(Some("a::b")).line(Some(1))
                            .args(format_args!("m")).build(),
                    )
                });
                if let Err(p) = r {
                    out.push(json!({"what": "log-panic", "target": t, "level": l, "error": p, "order": lperm}));
                    break 'targets;
                }
                let got: Vec<usize> = built.counters.iter().map(|c| c.n.load(Ordering::Relaxed)).collect();
                let want: Vec<usize> = if admitted { exp.to_vec() } else { vec![0, 0, 0] };
                if got != want {
                    out.push(json!({"what": "deliveries", "target": t, "level": l, "expected": want, "actual": got,
                                    "appenders": APPENDERS, "failing": failing, "order": lperm}));
                    break 'targets;
                }
                let rep = built.reported.n.load(Ordering::Relaxed);
                let want_rep: usize = want.iter().zip(failing).map(|(n, f)| if f { *n } else { 0 }).sum();
                if rep != want_rep {
                    out.push(json!({"what": "errors reported", "target": t, "level": l, "expected": want_rep, "actual": rep,
                                    "failing": failing, "order": lperm}));
                    break 'targets;
                }
            }
        }
        // a second pass over the first order of every third configuration, levels outermost, with every target copied
        // into one reused buffer: what a record is routed by is the text of its target, not where that text lives,
        // and not what the call before it was turned away for (Routing.tla: Route is a function of the target)
        if pi == 0 && ci % 3 == 0 && out.is_empty() {
            let mut buf = String::with_capacity(64);
            'again: for l in 1..=5i64 {
                for (ti, t) in targets.iter().enumerate() {
                    let (thr, exp) = classes[idx[ti]];
                    buf.clear();
                    buf.push_str(t);
                    for c in &built.counters {
                        c.n.store(0, Ordering::Relaxed);
                    }
                    let r = catch(|| built.logger.log(&log::Record::builder().target(&buf).level(level(l)).module_path(Some(decoy)).args(format_args!("m")).build()));
                    if let Err(p) = r {
                        out.push(json!({"what": "log-panic", "target": t, "level": l, "error": p, "order": lperm}));
                        break 'again;
                    }
                    let got: Vec<usize> = built.counters.iter().map(|c| c.n.load(Ordering::Relaxed)).collect();
                    let want: Vec<usize> = if thr >= l { exp.to_vec() } else { vec![0, 0, 0] };
                    if got != want {
                        out.push(json!({"what": "deliveries (targets in a reused buffer, level by level)", "target": t, "level": l, "expected": want,
                                        "actual": got, "order": lperm}));
                        break 'again;
                    }
                }
            }
        }
    }
    out
}

/// Scale: many configured loggers under one parent and a deep chain (Routing.tla has no bound on either): the
/// effective logger of a target is still its longest configured prefix, levels and appenders follow the chain.
fn check_scale() -> Vec<Value> {
    let mut out = vec![];
    for n in [255usize, 256, 257, 65535, 65536, 65537] {
        let counters: Vec<Arc<Counter>> = (0..3).map(|_| Arc::new(Counter::default())).collect();
        let mut b = log4rs::Config::builder();
        for (i, name) in APPENDERS.iter().enumerate() {
            b = b.appender(log4rs::config::Appender::builder().build(*name, Box::new(CountingAppender(counters[i].clone()))));
        }
        // siblings s0 .. s(n-1) under "p"; odd ones are Error-only and non-additive with B, even ones Trace and additive with A
        for j in 0..n {
            let lb = log4rs::config::Logger::builder().additive(j % 2 == 0).appender(if j % 2 == 0 { "A" } else { "B" });
            b = b.logger(lb.build(format!("p::s{}", j), if j % 2 == 0 { log::LevelFilter::Trace } else { log::LevelFilter::Error }));
        }
        let cfg = match b.build(log4rs::config::Root::builder().appender("C").build(log::LevelFilter::Warn)) {
            Ok(c) => c,
            Err(e) => {
                out.push(json!({"case": "scale", "config": {"siblings": n}, "mismatch": {"what": "build", "error": e.to_string()}}));
                continue;
            }
        };
        let logger = log4rs::Logger::new(cfg);
        for j in [0usize, 1, 254, 255, 256, 257, 65534, 65535, 65536, n - 2, n - 1].into_iter().filter(|j| *j < n) {
            for (lvl, sub) in [(log::Level::Info, ""), (log::Level::Error, "::deeper::x")] {
                for c in &counters {
                    c.n.store(0, Ordering::Relaxed);
                }
                let t = format!("p::s{}{}", j, sub);
                let _ = catch(|| logger.log(&log::Record::builder().target(&t).level(lvl).args(format_args!("m")).build()));
                let got: Vec<usize> = counters.iter().map(|c| c.n.load(Ordering::Relaxed)).collect();
                // even: Trace, additive: A then root's C; odd: Error only, B alone
                let want = if j % 2 == 0 { vec![1, 0, 1] } else if lvl == log::Level::Error { vec![0, 1, 0] } else { vec![0, 0, 0] };
                if got != want {
                    out.push(json!({"case": "scale", "config": {"siblings": n}, "mismatch": {"what": "deliveries with many configured loggers",
                                    "target": t, "level": lvl.to_string(), "expected": want, "actual": got, "appenders": APPENDERS}}));
                }
            }
        }
    }
    out
}

/// Scale, second kind: 2^18 + 1 configured loggers under one parent, each with a level of its own, and EVERY one of them
/// probed - at its own level (enabled) and one level more verbose (not enabled).  Routing.tla: the effective logger of a
/// target is a function of the target's text; whatever stands for a name inside an implementation (a hash of it, a
/// prefix of it, an index) must not make two of 262 145 different names one.
fn check_scale_all() -> Vec<Value> {
    let mut out = vec![];
    let n = (1usize << 18) + 1;
    let levels = [log::LevelFilter::Error, log::LevelFilter::Warn, log::LevelFilter::Info, log::LevelFilter::Debug, log::LevelFilter::Trace];
    let mut b = log4rs::Config::builder();
    let counter = Arc::new(Counter::default());
    b = b.appender(log4rs::config::Appender::builder().build("A", Box::new(CountingAppender(counter.clone()))));
    let mut loggers = Vec::with_capacity(n);
    for j in 0..n {
        loggers.push(log4rs::config::Logger::builder().additive(false).appender("A").build(format!("pool::worker{}", j), levels[j % 5]));
    }
    b = b.loggers(loggers);
    let cfg = match catch(|| b.build(log4rs::config::Root::builder().build(log::LevelFilter::Off))) {
        Ok(Ok(c)) => c,
        Ok(Err(e)) => return vec![json!({"case": "scale", "config": {"siblings": n}, "mismatch": {"what": "build", "error": e.to_string()}})],
        Err(p) => return vec![json!({"case": "scale", "config": {"siblings": n}, "mismatch": {"what": "build panicked", "error": p}})],
    };
    let logger = match catch(|| log4rs::Logger::new(cfg)) {
        Ok(l) => l,
        Err(p) => return vec![json!({"case": "scale", "config": {"siblings": n}, "mismatch": {"what": "Logger::new panicked", "error": p}})],
    };
    let all = [log::Level::Error, log::Level::Warn, log::Level::Info, log::Level::Debug, log::Level::Trace];
    for j in 0..n {
        let t = format!("pool::worker{}", j);
        let own = all[j % 5];
        let yes = logger.enabled(&log::Metadata::builder().target(&t).level(own).build());
        let more = if j % 5 < 4 { logger.enabled(&log::Metadata::builder().target(&t).level(all[j % 5 + 1]).build()) } else { false };
        if !yes || more {
            out.push(json!({"case": "scale", "config": {"siblings": n, "level_of_sibling_j": "Error, Warn, Info, Debug, Trace by j mod 5"},
                            "mismatch": {"what": "enabled() among 2^18 + 1 configured siblings", "target": t, "own_level": own.to_string(),
                                         "enabled_at_own_level": yes, "enabled_one_level_more_verbose": more}}));
            if out.len() >= 5 {
                break;
            }
        }
    }
    out
}

/// `routing <cases.ndjson> <out.ndjson>`
pub fn main(args: &[String]) {
    quiet_panics();
    let rows = read_ndjson(&args[0]);
    let targets: Vec<String> = rows
        .iter()
        .find(|r| r["meta"] == "targets")
        .expect("no targets meta line")["targets"]
        .as_array()
        .unwrap()
        .iter()
        .map(|v| v.as_str().unwrap().to_string())
        .collect();
    let cases: Vec<&Value> = rows.iter().filter(|r| r.get("meta").is_none()).collect();
    let res = par_map(&cases, threads(), |i, c| {
        let mm = check_case(mix(i), c, &targets, 6);
        mm.into_iter().take(1).map(|m| json!({"case": i, "config": {"root": c["root"], "loggers": c["loggers"]}, "mismatch": m})).collect()
    });
    let mut res = res;
    res.extend(check_scale());
    res.extend(check_scale_all());
    write_ndjson(&args[1], &res);
    println!("{}", json!({"cases": cases.len(), "targets": targets.len(), "mismatches": res.len(),
                          "log_calls_per_case": targets.len() * 5}));
}

//! C20: replay of Literals.tla verdicts through serde (YAML and JSON) on the size trigger's
//! limit and on TimeTriggerInterval. Numbers are materialised with u128 arithmetic.
use crate::util::*;
use log4rs::append::rolling_file::policy::compound::trigger::{time::TimeTriggerInterval, Trigger};
use serde_json::{json, Value};

fn digits(num: &Value) -> (String, Option<u128>) {
    match num["t"].as_str().unwrap() {
        "pow" => {
            let v = (1u128 << num["k"].as_u64().unwrap()) as i128 + num["d"].as_i64().unwrap() as i128;
            (v.to_string(), Some(v as u128))
        }
        "small" => (num["n"].to_string(), Some(num["n"].as_u64().unwrap() as u128)),
        "lz" => (format!("00{}", num["n"]), Some(num["n"].as_u64().unwrap() as u128)),
        "lzz" => (format!("{}{}", "0".repeat(20), num["n"]), Some(num["n"].as_u64().unwrap() as u128)),
        "sp" => {
            let d = num["n"].to_string();
            (format!("{} {}", &d[..1], &d[1..]), None)
        }
        _ => ("99999999999999999999".to_string(), None),
    }
}

/// "#n#p": n letters with one multi-byte letter (2, 3 or 4 bytes, by position) at position p
fn unit_text(u: &str) -> String {
    if let Some(rest) = u.strip_prefix('#') {
        let mut it = rest.split('#');
        let n: usize = it.next().unwrap().parse().unwrap();
        let p: usize = it.next().unwrap().parse().unwrap();
        return (1..=n).map(|i| if i == p && p <= n { ['\u{e9}', '\u{4e16}', '\u{1F600}'][p % 3] } else { 'k' }).collect();
    }
    u.replace('~', "\u{212a}").replace('^', "\u{17f}")
}

fn yaml_quote(s: &str) -> String {
    format!("\"{}\"", s.replace('\\', "\\\\").replace('"', "\\\"").replace('\u{b}', "\\x0b"))
}

fn check_case(case: &Value) -> Option<Value> {
    let lit = &case["lit"];
    let (dg, val) = digits(&lit["num"]);
    let text = format!(
        "{}{}{}{}{}{}",
        lit["lead"].as_str().unwrap(),
        dg,
        if lit["frac"].as_bool().unwrap() { ".5" } else { "" },
        lit["ws"].as_str().unwrap().replace("<nbsp>", "\u{a0}").replace("<vt>", "\u{b}"),
        unit_text(lit["unit"].as_str().unwrap()),
        lit["trail"].as_str().unwrap()
    );
    let is_int = lit["form"] == "int";
    let want_ok = case["verdict"]["ok"].as_bool().unwrap();
    let shift = case["verdict"]["shift"].as_u64().unwrap();
    let yaml_scalar = if is_int { text.clone() } else { yaml_quote(&text) };
    let json_scalar = if is_int { text.clone() } else { serde_json::to_string(&text).unwrap() };
    if case["target"] == "size" {
        let want_val = val.map(|v| v << shift);
        // the same scalar as each format hands it over: YAML and JSON (unsigned where they can), TOML (integers are
        // signed 64-bit there), and a configuration value built by a program holding a signed integer
        for (fmt, doc) in [("yaml", format!("limit: {}\n", yaml_scalar)), ("json", format!("{{\"limit\": {}}}", json_scalar)),
                           ("toml", format!("limit = {}\n", json_scalar)), ("i64 value", text.clone())] {
            let parsed: Result<serde_value::Value, String> = if fmt == "yaml" {
                serde_yaml::from_str(&doc).map_err(|e| e.to_string())
            } else if fmt == "json" {
                serde_json::from_str(&doc).map_err(|e| e.to_string())
            } else if fmt == "toml" {
                match toml::from_str(&doc) {
                    Ok(v) => Ok(v),
                    Err(_) => continue, // (not a TOML document: its integers have no leading zeros and end at 2^63 - 1)
                }
            } else {
                match (is_int, doc.trim().parse::<i64>()) {
                    (true, Ok(n)) => Ok(serde_value::Value::Map(std::iter::once((serde_value::Value::String("limit".into()), serde_value::Value::I64(n))).collect())),
                    _ => continue,
                }
            };
            let got: Result<String, String> = match parsed {
                Err(e) => Err(format!("document: {}", e)),
                Ok(v) => match catch(|| log4rs::config::Deserializers::default().deserialize::<dyn Trigger>("size", v)) {
                    Err(p) => return Some(json!({"what": "panic", "format": fmt, "text": text, "error": p})),
                    Ok(Ok(t)) => Ok(format!("{:?}", t)),
                    Ok(Err(e)) => Err(e.to_string()),
                },
            };
            match (&got, want_ok) {
                (Ok(dbg), true) => {
                    let n: Option<u128> = dbg.split("limit: ").nth(1).and_then(|s| s.trim_end_matches(|c: char| !c.is_ascii_digit()).parse().ok());
                    if n != want_val {
                        return Some(json!({"what": "accepted with a different value", "format": fmt, "text": text,
                            "expected": want_val.map(|v| v.to_string()), "actual": dbg}));
                    }
                }
                (Err(_), false) => {}
                (Ok(dbg), false) => return Some(json!({"what": "accepted a literal that must be rejected", "format": fmt, "text": text, "int_scalar": is_int, "actual": dbg})),
                (Err(e), true) => return Some(json!({"what": "rejected a valid literal", "format": fmt, "text": text, "error": e})),
            }
        }
    } else {
        // the time trigger built from a configuration value with this interval: never a panic, accepted exactly for
        // intervals between one unit and 1000 years (Literals.tla, TriggerOk)
        let trigger_ok = case["trigger_ok"].as_bool().unwrap_or(false);
        for (fmt, doc) in [("yaml", format!("interval: {}\nmodulate: {}\n", yaml_scalar, lit["ws"] == " ")), ("json", format!("{{\"interval\": {}}}", json_scalar))] {
            let parsed: Result<serde_value::Value, String> = if fmt == "yaml" {
                serde_yaml::from_str(&doc).map_err(|e| e.to_string())
            } else {
                serde_json::from_str(&doc).map_err(|e| e.to_string())
            };
            let v = match parsed {
                Ok(v) => v,
                Err(_) => continue,
            };
            match catch(|| log4rs::config::Deserializers::default().deserialize::<dyn Trigger>("time", v)) {
                Err(p) => return Some(json!({"what": "time trigger construction panicked", "format": fmt, "text": text, "error": p})),
                Ok(Ok(_)) if !trigger_ok => return Some(json!({"what": "time trigger accepted an interval outside 1 unit .. 1000 years", "format": fmt, "text": text})),
                Ok(Err(e)) if trigger_ok => return Some(json!({"what": "time trigger rejected a valid interval", "format": fmt, "text": text, "error": e.to_string()})),
                _ => {}
            }
        }
        let unit = case["verdict"]["unit"].as_str().unwrap();
        for (fmt, doc) in [("yaml", yaml_scalar.clone()), ("json", json_scalar.clone()), ("i64 value", text.clone())] {
            let as_i64 = doc.trim().parse::<i64>();
            if fmt == "i64 value" && !(is_int && as_i64.is_ok()) {
                continue;
            }
            let r = catch(|| -> Result<TimeTriggerInterval, String> {
                if fmt == "yaml" {
                    serde_yaml::from_str(&doc).map_err(|e| e.to_string())
                } else if fmt == "json" {
                    serde_json::from_str(&doc).map_err(|e| e.to_string())
                } else {
                    serde_value::Value::I64(as_i64.clone().unwrap()).deserialize_into::<TimeTriggerInterval>().map_err(|e| e.to_string())
                }
            });
            let got = match r {
                Err(p) => return Some(json!({"what": "panic", "format": fmt, "text": text, "error": p})),
                Ok(x) => x,
            };
            match (&got, want_ok) {
                (Ok(iv), true) => {
                    let n = val.unwrap() as i64;
                    let want = match unit {
                        "second" => TimeTriggerInterval::Second(n),
                        "minute" => TimeTriggerInterval::Minute(n),
                        "hour" => TimeTriggerInterval::Hour(n),
                        "day" => TimeTriggerInterval::Day(n),
                        "week" => TimeTriggerInterval::Week(n),
                        "month" => TimeTriggerInterval::Month(n),
                        _ => TimeTriggerInterval::Year(n),
                    };
                    if *iv != want {
                        return Some(json!({"what": "accepted with a different value", "format": fmt, "text": text,
                            "expected": format!("{:?}", want), "actual": format!("{:?}", iv)}));
                    }
                }
                (Err(_), false) => {}
                (Ok(iv), false) => return Some(json!({"what": "accepted a literal that must be rejected", "format": fmt, "text": text, "int_scalar": is_int, "actual": format!("{:?}", iv)})),
                (Err(e), true) => return Some(json!({"what": "rejected a valid literal", "format": fmt, "text": text, "error": e})),
            }
        }
    }
    None
}

/// `literals <cases.ndjson> <out.ndjson>`
pub fn main(args: &[String]) {
    quiet_panics();
    let rows = read_ndjson(&args[0]);
    let res = par_map(&rows, threads(), |i, c| {
        check_case(c).into_iter().map(|m| json!({"case": i, "target": c["target"], "lit": c["lit"], "verdict": c["verdict"], "mismatch": m})).collect()
    });
    write_ndjson(&args[1], &res);
    println!("{}", json!({"cases": rows.len(), "mismatches": res.len()}));
}

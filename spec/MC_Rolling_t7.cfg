CONSTANTS
  Base = 0
  Count = 0
  Roller = "delete"
  AppendMode = TRUE
  ReopenTruncates = FALSE
  Trig = "size"
  Limit = 1
  Sizes = {1, 2}
  PreSizes <- PreA
  MaxRec = 5
  MaxFaults = 1
  MaxCrash = 1
  MaxRestart = 1
  MaxObst = 0
  Hist = FALSE
SPECIFICATION Spec
INVARIANTS TypeOK GapFreeSuffix NotLessThanIdeal WindowFaultFree Recovers Outside LenExact SizeBound AtMostOneRoll Emit
CHECK_DEADLOCK FALSE

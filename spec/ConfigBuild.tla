----------------------------- MODULE ConfigBuild -----------------------------
(***************************************************************************)
(* Config::builder() ... build / build_lossy (src/config/runtime.rs).        *)
(* Declarative meaning of "well-formed" and of the lossy result, next to the *)
(* machine the code implements: three passes (appenders, root references,   *)
(* loggers) with the logger pass registering a name *before* validating it. *)
(* The input is the sequence of declarations; how it reaches the builder -   *)
(* appender() / logger() one at a time, appenders() / loggers() in bulk, or  *)
(* any mixture of the two - is not an input (the replay varies it).          *)
(***************************************************************************)
EXTENDS Integers, Sequences, FiniteSets, TLC

CONSTANTS AppSeqs,     \* candidate appender-name sequences (duplicates allowed)
          RootRefSeqs, \* candidate root reference sequences
          LoggerPool,  \* candidate [name, refs] records
          MaxLoggers

\* ---------------------------------------------------------------- logger-name validity
\* the code (check_logger_name): streak counter
RECURSIVE RunsOK(_, _, _)
RunsOK(s, i, streak) ==
  IF i > Len(s) THEN streak = 0
  ELSE IF s[i] = ":" THEN (streak + 1 <= 2) /\ RunsOK(s, i + 1, streak + 1)
  ELSE (streak = 0 \/ streak = 2) /\ RunsOK(s, i + 1, 0)
ValidName(s) == s # <<>> /\ RunsOK(s, 1, 0)
\* the property: non-empty, colons only in pairs, none trailing
IsColon(s, i) == i >= 1 /\ i <= Len(s) /\ s[i] = ":"
DeclValid(s) == /\ s # <<>>
                /\ s[Len(s)] # ":"
                /\ \A i \in 1..Len(s) : s[i] = ":" => (IsColon(s, i - 1) # IsColon(s, i + 1))

\* ---------------------------------------------------------------- state
VARIABLES apps, rootRefs, loggers,        \* builder input
          pc,                             \* "declare" | "apps" | "root" | "loggers" | "done"
          i,                              \* index of the next item of the current pass
          okApps, okRoot, okLoggers,      \* lossy result under construction
          seenApps, seenLoggers,          \* the two HashSets
          errs                            \* set of <<kind, name>>
vars == <<apps, rootRefs, loggers, pc, i, okApps, okRoot, okLoggers, seenApps, seenLoggers, errs>>

Range(s) == {s[k] : k \in 1..Len(s)}
Filter(s, S) == SelectSeq(s, LAMBDA x : x \in S)

Init == /\ apps \in AppSeqs /\ rootRefs \in RootRefSeqs /\ loggers = <<>>
        /\ pc = "declare" /\ i = 1
        /\ okApps = <<>> /\ okRoot = <<>> /\ okLoggers = <<>>
        /\ seenApps = {} /\ seenLoggers = {} /\ errs = {}
DeclareLogger == /\ pc = "declare" /\ Len(loggers) < MaxLoggers
                 /\ \E l \in LoggerPool : loggers' = Append(loggers, l)
                 /\ UNCHANGED <<apps, rootRefs, pc, i, okApps, okRoot, okLoggers, seenApps, seenLoggers, errs>>
StartBuild == /\ pc = "declare" /\ pc' = "apps" /\ i' = 1
              /\ UNCHANGED <<apps, rootRefs, loggers, okApps, okRoot, okLoggers, seenApps, seenLoggers, errs>>
StepApp == /\ pc = "apps"
           /\ IF i > Len(apps) THEN pc' = "root" /\ i' = 1 /\ UNCHANGED <<okApps, seenApps, errs>>
              ELSE /\ i' = i + 1 /\ pc' = pc
                   /\ IF apps[i] \notin seenApps
                      THEN okApps' = Append(okApps, apps[i]) /\ seenApps' = seenApps \cup {apps[i]} /\ UNCHANGED errs
                      ELSE errs' = errs \cup {<<"DuplicateAppenderName", apps[i]>>} /\ UNCHANGED <<okApps, seenApps>>
           /\ UNCHANGED <<apps, rootRefs, loggers, okRoot, okLoggers, seenLoggers>>
StepRoot == /\ pc = "root"
            /\ IF i > Len(rootRefs) THEN pc' = "loggers" /\ i' = 1 /\ UNCHANGED <<okRoot, errs>>
               ELSE /\ i' = i + 1 /\ pc' = pc
                    /\ IF rootRefs[i] \in seenApps
                       THEN okRoot' = Append(okRoot, rootRefs[i]) /\ UNCHANGED errs
                       ELSE errs' = errs \cup {<<"NonexistentAppender", rootRefs[i]>>} /\ UNCHANGED okRoot
            /\ UNCHANGED <<apps, rootRefs, loggers, okApps, okLoggers, seenApps, seenLoggers>>
StepLogger == /\ pc = "loggers"
              /\ IF i > Len(loggers) THEN pc' = "done" /\ UNCHANGED <<i, okLoggers, seenLoggers, errs>>
                 ELSE LET l == loggers[i] IN
                      /\ i' = i + 1 /\ pc' = pc
                      /\ seenLoggers' = seenLoggers \cup {l.name}
                      /\ IF l.name \in seenLoggers
                         THEN errs' = errs \cup {<<"DuplicateLoggerName", l.name>>} /\ UNCHANGED okLoggers
                         ELSE IF ~ValidName(l.name)
                         THEN errs' = errs \cup {<<"InvalidLoggerName", l.name>>} /\ UNCHANGED okLoggers
                         ELSE /\ okLoggers' = Append(okLoggers, [name |-> l.name, refs |-> Filter(l.refs, seenApps)])
                              /\ errs' = errs \cup {<<"NonexistentAppender", r>> : r \in Range(l.refs) \ seenApps}
              /\ UNCHANGED <<apps, rootRefs, loggers, okApps, okRoot, seenApps>>
Next == DeclareLogger \/ StartBuild \/ StepApp \/ StepRoot \/ StepLogger
Spec == Init /\ [][Next]_vars

\* ---------------------------------------------------------------- declarative meaning
AppSet == Range(apps)
FirstApp(k) == \A j \in 1..(k - 1) : apps[j] # apps[k]
FirstLogger(k) == \A j \in 1..(k - 1) : loggers[j].name # loggers[k].name
Kept(k) == FirstLogger(k) /\ DeclValid(loggers[k].name)
WellFormed == /\ \A k \in 1..Len(apps) : FirstApp(k)
              /\ \A k \in 1..Len(loggers) : Kept(k) /\ Range(loggers[k].refs) \subseteq AppSet
              /\ Range(rootRefs) \subseteq AppSet
MustErrs == {<<"DuplicateAppenderName", apps[k]>> : k \in {j \in 1..Len(apps) : ~FirstApp(j)}}
       \cup {<<"NonexistentAppender", r>> : r \in Range(rootRefs) \ AppSet}
       \cup {<<"DuplicateLoggerName", loggers[k].name>> : k \in {j \in 1..Len(loggers) : ~FirstLogger(j)}}
       \cup {<<"InvalidLoggerName", loggers[k].name>> : k \in {j \in 1..Len(loggers) : FirstLogger(j) /\ ~DeclValid(loggers[j].name)}}
       \cup UNION {{<<"NonexistentAppender", r>> : r \in Range(loggers[k].refs) \ AppSet} : k \in {j \in 1..Len(loggers) : Kept(j)}}
\* a dangling reference inside a logger that is itself dropped may or may not be reported
MayErrs == MustErrs \cup UNION {{<<"NonexistentAppender", r>> : r \in Range(loggers[k].refs) \ AppSet} : k \in 1..Len(loggers)}
\* (a declaration is kept as a whole: of everything it says - level, additive flag, references - only the dangling
\* references go; the replay gives every declaration a level and a flag of its own and compares them afterwards)
RECURSIVE KeptLoggers(_)
KeptLoggers(k) == IF k > Len(loggers) THEN <<>>
                  ELSE (IF Kept(k) THEN <<[name |-> loggers[k].name, refs |-> Filter(loggers[k].refs, AppSet)]>> ELSE <<>>)
                       \o KeptLoggers(k + 1)
LossyApps == SelectSeq([k \in 1..Len(apps) |-> IF FirstApp(k) THEN apps[k] ELSE "-"], LAMBDA x : x # "-")
LossyRoot == Filter(rootRefs, AppSet)

\* ---------------------------------------------------------------- properties
Done == pc = "done"
StrictIff == Done => ((errs = {}) <=> WellFormed)
ErrorsNameExactlyOffenders == Done => MustErrs \subseteq errs /\ errs \subseteq MayErrs
LossyIsValidSubsequence == Done => okApps = LossyApps /\ okRoot = LossyRoot /\ okLoggers = KeptLoggers(1)
AcceptedIsInstallable == Done => /\ Range(okRoot) \subseteq Range(okApps)
                                 /\ \A k \in 1..Len(okLoggers) : Range(okLoggers[k].refs) \subseteq Range(okApps)
                                 /\ \A k \in 1..Len(okLoggers) : ValidName(okLoggers[k].name)
                                 /\ \A j, k \in 1..Len(okLoggers) : okLoggers[j].name = okLoggers[k].name => j = k
=============================================================================

---------------------------- MODULE MC_ConfigFile ----------------------------
EXTENDS ConfigFile, Json
RECURSIVE Str(_)
Str(s) == IF s = <<>> THEN "" ELSE Head(s) \o Str(Tail(s))
RootLevelsDef == {1, 4}
\* (a name given twice in a row is two attachments, as it is for the builders)
AppListsDef == { <<>>, <<"c">>, <<"c", "x">>, <<"ghost", "c">>, <<"ghost", "ghost2", "c", "x">>, <<"c", "c">> }
LoggerOptionsDef == { [lvl |-> 5, add |-> "none", apps |-> <<"c">>], [lvl |-> 2, add |-> "false", apps |-> <<"x", "c">>],
                      [lvl |-> 0, add |-> "true", apps |-> <<"ghost", "ghost2", "c">>], [lvl |-> 3, add |-> "none", apps |-> <<>>] }
ProbeTargets == { <<"a">>, <<"a", ":", ":", "b">>, <<"a", ":", ":", "b", ":", ":", "c">>, <<"z">>, <<"a", "b">> }
RECURSIVE SetToSeq(_)
SetToSeq(S) == IF S = {} THEN <<>> ELSE LET x == CHOOSE y \in S : TRUE IN <<x>> \o SetToSeq(S \ {x})
PT == SetToSeq(ProbeTargets)
Case == [doc |-> [doc EXCEPT !.loggers = [i \in 1..Len(doc.loggers) |-> [doc.loggers[i] EXCEPT !.name = Str(@)]]],
         class |-> Class(doc),
         kept |-> SetToSeq(IF Class(doc) = "rejected" THEN {} ELSE Existing(doc)),
         refresh |-> IF Class(doc) = "rejected" THEN "none" ELSE doc.refresh,
         probes |-> IF Class(doc) = "rejected" THEN <<>>
                    ELSE [i \in 1..Len(PT) |-> [t |-> Str(PT[i]), n |-> [L \in 1..5 |-> Probe(doc, PT[i], L)]]]]
Emit == phase = "done" => PrintT(<<"REPLAY", ToJson(Case)>>)
=============================================================================

CONSTANTS
  Starts = {}
  Configs = {}
  Deltas = {}
  MaxArrivals = 0
INIT GInitQ
NEXT GNext
INVARIANTS GStrict GRoundTrip GAligned GEmit
CHECK_DEADLOCK FALSE

-------------------------------- MODULE FsOps --------------------------------
(***************************************************************************)
(* The slice of filesystem behaviour the rollers rely on.                   *)
(* An entry is Absent, a regular file with a content, or a non-empty        *)
(* directory (used as an obstacle).  Move(src, dst) is                      *)
(* fixed_window.rs::move_file: fs::rename, NotFound tolerated, otherwise    *)
(* the copy-and-delete fallback, which fails whenever rename failed for a   *)
(* reason that is not "different mount".                                    *)
(***************************************************************************)
EXTENDS Naturals, Sequences

Absent == [k |-> "absent", d |-> <<>>]
File(d) == [k |-> "file", d |-> d]
Dir == [k |-> "dir", d |-> <<>>]

\* result of move_file(src, dst): [ok, src', dst']
Move(src, dst) ==
  CASE src.k = "absent"                  -> [ok |-> TRUE,  src |-> src,    dst |-> dst]   \* NotFound is Ok
    [] src.k = "file" /\ dst.k # "dir"   -> [ok |-> TRUE,  src |-> Absent, dst |-> src]   \* rename replaces a file
    [] src.k = "file" /\ dst.k = "dir"   -> [ok |-> FALSE, src |-> src,    dst |-> dst]   \* EISDIR, copy fails too
    [] src.k = "dir" /\ dst.k = "absent" -> [ok |-> TRUE,  src |-> Absent, dst |-> src]   \* a directory is moved along
    [] OTHER                             -> [ok |-> FALSE, src |-> src,    dst |-> dst]   \* ENOTDIR / ENOTEMPTY
=============================================================================

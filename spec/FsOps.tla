-------------------------------- MODULE FsOps --------------------------------
(***************************************************************************)
(* The slice of filesystem behaviour the rollers rely on.                   *)
(* An entry is Absent, a regular file with a content, or a non-empty        *)
(* directory (used as an obstacle).  Move(src, dst) is                      *)
(* fixed_window.rs::move_file: fs::rename, NotFound tolerated, otherwise    *)
(* the copy-and-delete fallback, which fails whenever rename failed for a   *)
(* reason that is not "different mount".  A fourth kind of entry, Full, is   *)
(* a name at which nothing can be written (a symbolic link to /dev/full):   *)
(* renaming something onto it replaces it, renaming it moves it along, and  *)
(* writing an archive *into* it - Compress, the final step of a rotation    *)
(* with a .gz pattern - fails with the source left in place.                *)
(***************************************************************************)
EXTENDS Naturals, Sequences

Absent == [k |-> "absent", d |-> <<>>]
File(d) == [k |-> "file", d |-> d]
Dir == [k |-> "dir", d |-> <<>>]
Full == [k |-> "full", d |-> <<>>]

\* result of move_file(src, dst): [ok, src', dst']
Move(src, dst) ==
  CASE src.k = "absent"                  -> [ok |-> TRUE,  src |-> src,    dst |-> dst]   \* NotFound is Ok
    [] src.k = "file" /\ dst.k # "dir"   -> [ok |-> TRUE,  src |-> Absent, dst |-> src]   \* rename replaces a file
    [] src.k = "file" /\ dst.k = "dir"   -> [ok |-> FALSE, src |-> src,    dst |-> dst]   \* EISDIR, copy fails too
    [] src.k = "dir" /\ dst.k = "absent" -> [ok |-> TRUE,  src |-> Absent, dst |-> src]   \* a directory is moved along
    [] src.k = "full" /\ dst.k # "dir"  -> [ok |-> TRUE,  src |-> Absent, dst |-> src]   \* so is a symbolic link
    [] OTHER                             -> [ok |-> FALSE, src |-> src,    dst |-> dst]   \* ENOTDIR / ENOTEMPTY
\* Compression::Gzip.compress(src, dst): create / truncate dst, write the compressed content, remove src
Compress(src, dst) ==
  CASE src.k = "file" /\ dst.k \in {"absent", "file"} -> [ok |-> TRUE,  src |-> Absent, dst |-> src]
    [] src.k = "file" /\ dst.k \in {"dir", "full"}    -> [ok |-> FALSE, src |-> src,    dst |-> dst]   \* EISDIR / ENOSPC
    [] OTHER                                            -> Move(src, dst)
=============================================================================

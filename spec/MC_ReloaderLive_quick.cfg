SPECIFICATION Spec
CONSTANTS
  Vers = {1, 2}
  Rates = {0, 1, 2}
  MTimes = {1, 2, 3}
  MaxEdits = 2
  MaxPolls = 2
  Hist = TRUE
  Forge = FALSE
  BootOrder = "stat_read"
INVARIANTS TypeOK SrcIsActive Emit
PROPERTIES SwapOnlyOnChange KeepsOnBad StopsOnlyOnRateRemoval
CHECK_DEADLOCK FALSE

CONSTANTS
  MaxForks = 2
  Zones = {"UTC0", "JST-9"}
  Kinds = {"pid", "local"}
  MaxOps = 6
SPECIFICATION Spec
INVARIANTS UtcFixed LocalCurrent PidCurrent ClockRead Emit
CHECK_DEADLOCK FALSE

CONSTANTS
  Vers = {1, 2, 3}
  Rates = {0, 1, 2}
  MTimes = {1, 2, 3, 4, 5}
  MaxSteps = 200
SPECIFICATION Spec
INVARIANTS ActiveIsSomeVersion Emit
CHECK_DEADLOCK FALSE

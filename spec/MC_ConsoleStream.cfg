CONSTANTS
  Threads = {1, 2, 3}
  NRecs = 2
  NApps = 2
  Parts = 3
  Locked = TRUE
SPECIFICATION Spec
INVARIANTS TypeOK Whole ProgramOrder LockMeansWriting Complete
CHECK_DEADLOCK FALSE

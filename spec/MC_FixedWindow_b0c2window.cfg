CONSTANTS
  Base = 0
  Count = 2
  Kind = "window"
  MaxRolls = 4
  MaxWipes = 1
INIT HInit
NEXT HNext
INVARIANTS WindowLaw ActiveGone OutsideUntouched RemoveOnly NoDup Emit
CHECK_DEADLOCK FALSE

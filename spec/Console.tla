------------------------------- MODULE Console -------------------------------
(***************************************************************************)
(* Console appender and ANSI writer (src/append/console.rs,                   *)
(* src/encode/writer/{console,ansi}.rs).                                      *)
(* The environment is NO_COLOR, CLICOLOR, CLICOLOR_FORCE in {unset, "0",      *)
(* "1"}; each of stdout / stderr is a terminal or a pipe; the appender has a  *)
(* target and the tty_only flag.  Writes and Coloured are the property's two  *)
(* decisions; Sgr(style) is the escape sequence for a style request.          *)
(* One "row" of the decision table is one state; a "style" is one state.      *)
(* Writes(r) means: the encoded record is on the stream when append returns - *)
(* whatever the record ends with (no newline needed to push it out), in the   *)
(* coloured and the plain writer alike.  The replay writes a marker to the    *)
(* file descriptor itself after every append and expects record, marker,      *)
(* record, marker, ... on the stream.  Whether the target is a terminal is    *)
(* read when an appender is built: after the stream has been re-pointed (at a *)
(* file, in the replay) an appender built then is Writes / Coloured of the    *)
(* row with that stream not a terminal.  A row is the settings an appender is *)
(* built with, not the order in which a builder was given them: the replay    *)
(* names the target before tty_only in half of its variants and after it in   *)
(* the other half.  What an appender does is decided once, when it is built:  *)
(* a write that fails (the reader of a pipe has gone away) changes nothing    *)
(* about the writes that follow - the replay makes one append fail with a     *)
(* broken pipe, re-points the stream at a file and expects Writes there.      *)
(* A record whose message logs through the same appender while it is being    *)
(* rendered (the streams' locks are re-entrant) is Writes for both records:   *)
(* the inner one lands inside the outer one, both in full.                    *)
(***************************************************************************)
EXTENDS Integers, Sequences, FiniteSets, TLC
EnvVals == {"unset", "0", "1"}
Colors == {"none", "0", "1", "2", "3", "4", "5", "6", "7"}     \* black .. white = 0 .. 7
Intens == {"none", "on", "off"}
VARIABLES row, style, kind
vars == <<row, style, kind>>
Rows == [no_color : EnvVals, clicolor : EnvVals, force : EnvVals, out_tty : BOOLEAN, err_tty : BOOLEAN,
         target : {"stdout", "stderr"}, tty_only : BOOLEAN]
Styles == [text : Colors, bg : Colors, intense : Intens]
On(v) == v # "unset" /\ v # "0"          \* set to anything but "0"
\* never under NO_COLOR, otherwise always under CLICOLOR_FORCE, otherwise never under CLICOLOR=0, otherwise auto
Mode(r) == IF On(r.no_color) THEN "never"
           ELSE IF On(r.force) THEN "always"
           ELSE IF r.clicolor = "0" THEN "never" ELSE "auto"
IsTty(r) == IF r.target = "stdout" THEN r.out_tty ELSE r.err_tty
\* a tty_only appender writes exactly when its target is a terminal - independent of colour settings
Writes(r) == ~r.tty_only \/ IsTty(r)
Coloured(r) == Mode(r) = "always" \/ (Mode(r) = "auto" /\ IsTty(r))
\* ESC [ 0 (;3c)? (;4c)? (;1 | ;22)? m
Sgr(s) == <<"ESC", "[", "0">>
          \o (IF s.text # "none" THEN <<";", "3", s.text>> ELSE <<>>)
          \o (IF s.bg # "none" THEN <<";", "4", s.bg>> ELSE <<>>)
          \o (CASE s.intense = "on" -> <<";", "1">> [] s.intense = "off" -> <<";", "2", "2">> [] OTHER -> <<>>)
          \o <<"m">>
Init == /\ kind \in {"row", "style"}
        /\ row \in Rows /\ style \in Styles
        /\ (kind = "row" => style = [text |-> "none", bg |-> "none", intense |-> "none"])
        /\ (kind = "style" => row = [no_color |-> "unset", clicolor |-> "unset", force |-> "unset", out_tty |-> FALSE,
                                     err_tty |-> FALSE, target |-> "stdout", tty_only |-> FALSE])
Next == UNCHANGED vars
\* structural facts of the table
NoColorWins == kind = "row" => (On(row.no_color) => ~Coloured(row))
ForceBeatsClicolor == kind = "row" => ((~On(row.no_color) /\ On(row.force)) => Coloured(row))
PipesPlainInAuto == kind = "row" => ((Mode(row) = "auto" /\ ~IsTty(row)) => ~Coloured(row))
TtyOnlyIgnoresColour == kind = "row" => \A r2 \in {r \in Rows : r.out_tty = row.out_tty /\ r.err_tty = row.err_tty /\ r.target = row.target /\ r.tty_only = row.tty_only} :
                            Writes(r2) = Writes(row)
SgrLength == kind = "style" => Len(Sgr(style)) <= 13 /\ Len(Sgr(style)) >= 4
=============================================================================

CONSTANTS
  Classes <- ClassesDef
  MaxLen = 2
  Budget = 2
INIT Init
NEXT Next
INVARIANTS OptionalOmitted Emit
CHECK_DEADLOCK FALSE

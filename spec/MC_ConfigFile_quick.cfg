CONSTANTS
  RootLevels <- RootLevelsDef
  LoggerOptions <- LoggerOptionsDef
  AppLists <- AppListsDef
INIT Init
NEXT Next
INVARIANTS LossyKeepsRest StrictIffNoDefect Emit
CHECK_DEADLOCK FALSE

CONSTANTS
  Base = 0
  Count = 2
  Roller = "window"
  AppendMode = TRUE
  ReopenTruncates = FALSE
  Trig = "startup"
  Limit = 1
  Sizes = {1}
  PreSizes = {0}
  MaxRec = 100000
  MaxFaults = 0
  MaxCrash = 0
  MaxRestart = 0
  MaxObst = 0
  MaxEncFail = 0
  MaxOverlap = 0
  PreArch <- NoPreArch
  Gz = FALSE
  OsFail = FALSE
  BufFloor = 99
  ActFull = FALSE
  DirObst = FALSE
  Hist = FALSE
SPECIFICATION TSpec
INVARIANTS GapFreeSuffix NotLessThanIdeal LenExact AtMostOneRoll
CONSTRAINT Track
POSTCONDITION Accepted
CHECK_DEADLOCK FALSE

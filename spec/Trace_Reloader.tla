--------------------------- MODULE Trace_Reloader ---------------------------
(* Validates traces of the real reloader thread (log4rs::init_file, ConfigReloader::run) against        *)
(* Reloader.tla.  Everything is logged from the reloader thread itself: "sleep" at the hook before      *)
(* thread::sleep (with the duration it is about to sleep), "edit" when the harness - inside that same   *)
(* hook call - rewrites the file, "apply" at the set_config hook.  Polls that change nothing (same      *)
(* mtime / same text / unreadable or broken file) are silent and inferred by TLC.  The run loop is      *)
(* sleep, poll, sleep, poll, ...: `slept` carries the alternation, and every sleep lasts the current    *)
(* rate (Reloader!Sleeps).                                                                              *)
EXTENDS Reloader, Json, IOUtils, TLCExt
Rec == ndJsonDeserialize(IOEnv.TRACE)
VARIABLES l, slept
Ev == Rec[l]
Is(e) == l <= Len(Rec) /\ Ev.e = e /\ l' = l + 1
Start(v, r) == /\ file = [c |-> Valid(v, r), m |-> 2] /\ rl = [src |-> Valid(v, r), mod |-> 2]
               /\ active = v /\ rate = r /\ alive = TRUE /\ swaps = 0 /\ ret = "none" /\ steps = 0
               /\ lastPolled = Valid(v, r) /\ hist = <<>>
TInit == Start(Rec[1].v, Rec[1].r) /\ l = 2 /\ slept = FALSE /\ TLCSet(1, 1)
TReset == /\ Is("reset")
          /\ file' = [c |-> Valid(Ev.v, Ev.r), m |-> 2] /\ rl' = [src |-> Valid(Ev.v, Ev.r), mod |-> 2]
          /\ active' = Ev.v /\ rate' = Ev.r /\ alive' = TRUE /\ swaps' = 0 /\ ret' = "none" /\ steps' = 0
          /\ lastPolled' = Valid(Ev.v, Ev.r) /\ hist' = <<>> /\ slept' = FALSE
Content(e) == CASE e.k = "valid" -> Valid(e.v, e.r) [] e.k = "broken" -> Broken(e.v) [] OTHER -> Absent
TSleep == Is("sleep") /\ ~slept /\ Sleeps(Ev.ms) /\ slept' = TRUE /\ UNCHANGED vars
TEdit == Is("edit") /\ Edit /\ file' = [c |-> Content(Ev), m |-> Ev.m] /\ UNCHANGED slept
TApply == Is("apply") /\ slept /\ Poll /\ ret' \in {"rate", "stop"} /\ slept' = FALSE /\ Ev.max = MaxLevel(active')
Silent == l <= Len(Rec) /\ slept /\ Poll /\ ret' \in {"same", "err"} /\ slept' = FALSE /\ UNCHANGED l
TNext == TReset \/ TSleep \/ TEdit \/ TApply \/ Silent
TSpec == TInit /\ [][TNext]_<<vars, l, slept>>
Track == TLCSet(1, IF l - 1 > TLCGet(1) THEN l - 1 ELSE TLCGet(1))
Accepted == IF TLCGet(1) = Len(Rec) THEN TRUE
            ELSE PrintT(<<"TRACE-REJECTED", TLCGet(1) + 1, ToJson(Rec[TLCGet(1) + 1])>>) /\ FALSE
=============================================================================

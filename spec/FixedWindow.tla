----------------------------- MODULE FixedWindow -----------------------------
(***************************************************************************)
(* FixedWindowRoller::roll / rotate() and DeleteRoller::roll                 *)
(* (src/append/rolling_file/policy/compound/roll/{fixed_window,delete}.rs)   *)
(* as steps over a directory: the shifts i -> i+1 for i from base+count-2    *)
(* down to base, then the final move of the active file to index base.       *)
(* The initial directory is arbitrary: any subset of the indices             *)
(* base-1 .. base+count present (gaps, a full window, both neighbours        *)
(* outside the window), so "from any initial state" is explored, not         *)
(* assumed.  File contents are opaque ids.                                   *)
(***************************************************************************)
EXTENDS Integers, Sequences, FiniteSets, TLC, FsOps

CONSTANTS Base, Count, MaxRolls,
          MaxWipes,   \* how often the archive directory is removed, with everything in it, between two rolls
          Kind        \* "window" | "delete" (the delete roller ignores Base / Count)

Lo == IF Base > 0 THEN Base - 1 ELSE Base
Idx == Lo .. (Base + Count)                 \* window plus the two neighbouring names
Window == Base .. (Base + Count - 1)

VARIABLES act,       \* the file at the active path
          arch,      \* Idx -> entry
          init,      \* the initial arch (for OutsideUntouched)
          rolled,    \* contents handed to roll(), most recent first
          pc, i,     \* "idle" | "shift" | "final"; next shift moves i -> i+1
          nextc,     \* next fresh content id
          nr, wipes  \* rolls started; removals of the archive directory
vars == <<act, arch, init, rolled, pc, i, nextc, nr, wipes>>

Init == /\ act = Absent
        /\ \E P \in SUBSET Idx : arch = [k \in Idx |-> IF k \in P THEN File(<<100 + k>>) ELSE Absent]
        /\ init = arch /\ rolled = <<>> /\ pc = "idle" /\ i = 0 /\ nextc = 1 /\ nr = 0 /\ wipes = 0
\* the caller (the appender) has written a file at the active path and calls roll()
StartRoll == /\ pc = "idle" /\ nr < MaxRolls /\ nr' = nr + 1
             /\ act' = File(<<nextc>>) /\ nextc' = nextc + 1
             /\ rolled' = <<nextc>> \o rolled
             /\ IF Kind = "delete" \/ Count = 0 THEN pc' = "remove" /\ UNCHANGED i
                ELSE pc' = "shift" /\ i' = Base + Count - 2
             /\ UNCHANGED <<arch, init, wipes>>
Remove == pc = "remove" /\ act' = Absent /\ pc' = "idle" /\ UNCHANGED <<arch, init, rolled, i, nextc, nr, wipes>>
Shift == /\ pc = "shift"
         /\ IF i < Base THEN pc' = "final" /\ UNCHANGED <<arch, i>>
            ELSE LET m == Move(arch[i], arch[i + 1]) IN
                 /\ m.ok      \* no obstacles in this module
                 /\ arch' = [arch EXCEPT ![i] = m.src, ![i + 1] = m.dst]
                 /\ i' = i - 1 /\ pc' = pc
         /\ UNCHANGED <<act, init, rolled, nextc, nr, wipes>>
Final == /\ pc = "final"
         /\ LET m == Move(act, arch[Base]) IN act' = m.src /\ arch' = [arch EXCEPT ![Base] = m.dst]
         /\ pc' = "idle" /\ UNCHANGED <<init, rolled, i, nextc, nr, wipes>>
\* Between two rolls of one roller the archive directory is removed with everything in it (an operator clears the
\* archives; a temporary directory is cleaned): the next roll starts from the empty directory, exactly as the very
\* first roll of a fresh roller does when the directory does not exist yet - it creates what it needs.
Wipe == /\ pc = "idle" /\ nr >= 1 /\ nr < MaxRolls /\ wipes < MaxWipes
        /\ arch' = [k \in Idx |-> Absent] /\ init' = arch' /\ rolled' = <<>> /\ wipes' = wipes + 1
        /\ UNCHANGED <<act, pc, i, nextc, nr>>
Next == StartRoll \/ Remove \/ Shift \/ Final \/ Wipe
Spec == Init /\ [][Next]_vars

Min(a, b) == IF a < b THEN a ELSE b
Idle == pc = "idle"
IsWindow == Kind = "window" /\ Count > 0
\* index base+j holds the (j+1)-th most recently rolled file
WindowLaw == (Idle /\ IsWindow) => \A j \in 0 .. Min(Len(rolled), Count) - 1 : arch[Base + j] = File(<<rolled[j + 1]>>)
ActiveGone == Idle => act = Absent
\* nothing outside base..base+count-1 is created, modified or removed
OutsideUntouched == \A k \in Idx \ Window : arch[k] = init[k]
\* count = 0 and the delete roller touch no archive at all
RemoveOnly == (~IsWindow) => arch = init
\* no rolled content is ever duplicated inside the window
NoDup == Idle => \A a, b \in Window : (a # b /\ arch[a].k = "file") => arch[a] # arch[b]
\* (A pattern that is a relative path: the names it denotes are resolved like every relative path, against the working
\* directory of the moment a file system call is made - the moment of the roll, not of the build.  The working directory
\* is process state; the replay has runs in a process of their own that build the roller in one directory, change to
\* another and roll there: the window is where the process is.)
=============================================================================

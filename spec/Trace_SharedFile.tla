--------------------------- MODULE Trace_SharedFile ---------------------------
(* The files that two real file appenders on one path leave behind, checked against SharedFile.tla: every    *)
(* line of the trace is one scenario - the plans of the two appenders (chunk sizes per record) and the file as *)
(* it is after both threads are done and both appenders dropped, run-length encoded <<appender, record, units>>. *)
(* No step is logged: the file must be reachable - TLC walks the specification under the constraint that the    *)
(* disk is a prefix of the file found, and a scenario is finished when both appenders are done and the disk is  *)
(* the file.  The next scenario then starts from an empty file.                                                 *)
EXTENDS Integers, Sequences, FiniteSets, TLC, Json, IOUtils, TLCExt
Rec == ndJsonDeserialize(IOEnv.TRACE)
CONSTANTS Apps, Cap
VARIABLES k, plan, disk, buf, pos
Scen == Rec[k]
PlanOf(j) == [a \in Apps |-> IF a = 1 THEN Rec[j].plan1 ELSE Rec[j].plan2]
S == INSTANCE SharedFile WITH Plans <- {}
RECURSIVE Expand(_, _)
Expand(runs, j) == IF j > Len(runs) THEN <<>> ELSE S!Rep(<<runs[j][1], runs[j][2]>>, runs[j][3]) \o Expand(runs, j + 1)
File == Expand(Scen.file, 1)
IsPrefix(s, t) == Len(s) <= Len(t) /\ SubSeq(t, 1, Len(s)) = s
TInit == /\ k = 1 /\ plan = PlanOf(1) /\ disk = <<>> /\ buf = [a \in Apps |-> <<>>] /\ pos = [a \in Apps |-> [r |-> 1, c |-> 1]]
         /\ TLCSet(1, 0)
Step == k <= Len(Rec) /\ S!Next /\ UNCHANGED k
Finish == /\ k <= Len(Rec) /\ S!Done /\ disk = File
          /\ k' = k + 1 /\ plan' = (IF k + 1 <= Len(Rec) THEN PlanOf(k + 1) ELSE plan) /\ disk' = <<>> /\ buf' = [a \in Apps |-> <<>>] /\ pos' = [a \in Apps |-> [r |-> 1, c |-> 1]]
TNext == Step \/ Finish
TSpec == TInit /\ [][TNext]_<<k, plan, disk, buf, pos>>
\* only states whose disk can still become the file found are of interest
OnTrack == k > Len(Rec) \/ IsPrefix(disk, File)
Track == OnTrack /\ TLCSet(1, IF k - 1 > TLCGet(1) THEN k - 1 ELSE TLCGet(1))
Accepted == IF TLCGet(1) = Len(Rec) THEN TRUE
            ELSE PrintT(<<"TRACE-REJECTED", TLCGet(1) + 1, ToJson(Rec[TLCGet(1) + 1])>>) /\ FALSE
\* on the way (the disk is a prefix of a real file): what SharedFile.tla promises about any reachable disk
PieceOrder == k > Len(Rec) \/ S!PieceOrder
SmallWhole == k > Len(Rec) \/ S!SmallWhole
=============================================================================

---------------------------- MODULE MC_Reconfig ----------------------------
EXTENDS Reconfig
CONSTANT MaxGen
VARIABLE nextGen, seen
\* seen[t]: generations that were current at some point since t's LogStart
MCInit == Init /\ nextGen = 1 /\ seen = [t \in Loggers |-> {}]
Track == seen' = [t \in Loggers |-> IF pcL'[t] = "idle" THEN {} ELSE IF pcL[t] = "idle" THEN {store'} ELSE seen[t] \cup {store'}]
MCNext == /\ \/ \E t \in Loggers : LogStart(t) \/ Load(t) \/ Deliver(t, snapL[t]) \/ LogEnd(t)
             \/ \E r \in Reconfs : (nextGen <= MaxGen /\ SetStart(r, nextGen)) \/ SetMax(r) \/ Store(r) \/ SetEnd(r)
          /\ nextGen' = IF \E r \in Reconfs : pcR[r] = "idle" /\ pcR'[r] = "called" THEN nextGen + 1 ELSE nextGen
          /\ Track
MCSpec == MCInit /\ [][MCNext]_<<vars, nextGen, seen>>
\* the snapshot a record is routed under was current at some time during the call
SnapshotWasCurrent == \A t \in Loggers : pcL[t] = "loaded" => snapL[t] \in seen[t]
============================================================================

------------------------------ MODULE Reloader ------------------------------
(***************************************************************************)
(* The configuration file reloader (src/config/file.rs: ConfigReloader::      *)
(* run_once and the match in run) against histories of file edits.            *)
(* A file content is a valid document (version v, refresh rate r; r = 0 means *)
(* "no refresh_rate key"), one of two broken texts, or the file is absent.    *)
(* Every edit gives the file a modification time different from the one it    *)
(* had and from the one the reloader remembers (the harness sets mtimes        *)
(* explicitly) - later or *earlier* (a restored backup, cp -p, a clock step) - *)
(* including rewriting the same text ("touch").  An edit that reproduces the   *)
(* remembered mtime exactly is outside the model: the mtime shortcut cannot    *)
(* see it by design.                                                           *)
(* Poll transcribes run_once: mtime comparison, text comparison, the source   *)
(* text is remembered *before* it is parsed, then parse / apply / new rate.   *)
(***************************************************************************)
EXTENDS Integers, Sequences, TLC
CONSTANTS Vers, Rates, MaxSteps,    \* Rates includes 0 = "no refresh_rate in the file"
          MTimes                     \* the modification times an edit may choose from
VARIABLES file,        \* [c |-> content, m |-> mtime]
          rl,          \* reloader memory: [src |-> content, mod |-> mtime]
          active,      \* version of the configuration the logger runs
          rate,        \* current polling rate
          alive,       \* the reloader thread is still polling
          swaps,       \* number of set_config calls so far
          ret,         \* class of the last run_once result
          steps, lastPolled, hist
vars == <<file, rl, active, rate, alive, swaps, ret, steps, lastPolled, hist>>
Valid(v, r) == [k |-> "valid", v |-> v, r |-> r]
\* (a version is a text: two versions are different texts, however little they differ - in the YAML rendering of the
\* replay, versions v and v + 2 differ in nothing but a line break at the very end of the file, which is part of a value)
\* The most verbose level of version v's configuration (numbered as in LevelGate.tla: 3 = info, 5 = trace).  The
\* root is at info in every version; one logger is at trace in odd versions and at warn in even ones.  Once a
\* version is applied the process-wide maximum of the log facade is this value - whatever it was before, and
\* whether or not the root level changed.
MaxLevel(v) == IF v % 2 = 1 THEN 5 ELSE 3
Broken(i)   == [k |-> "broken", v |-> i, r |-> 0]
Contents == {Valid(v, r) : v \in Vers, r \in Rates} \cup {Broken(1), Broken(2)}
Absent == [k |-> "absent", v |-> 0, r |-> 0]
Init == \E v \in Vers, r \in Rates \ {0} :
          /\ file = [c |-> Valid(v, r), m |-> 2]
          /\ rl = [src |-> Valid(v, r), mod |-> 2]
          /\ active = v /\ rate = r /\ alive = TRUE /\ swaps = 0 /\ ret = "none" /\ steps = 0
          /\ lastPolled = Valid(v, r)
          /\ hist = <<[op |-> "init", c |-> Valid(v, r)]>>
Edit == /\ steps < MaxSteps /\ steps' = steps + 1 /\ alive
        /\ \E c \in Contents \cup {Absent}, m \in MTimes \ {file.m, rl.mod} :
             /\ file' = [c |-> c, m |-> m]   \* includes rewrite-same ("touch") and backdated files
             /\ hist' = Append(hist, [op |-> "edit", c |-> c, m |-> m])
        /\ UNCHANGED <<rl, active, rate, alive, swaps, ret, lastPolled>>
Poll ==
  /\ alive /\ steps < MaxSteps /\ steps' = steps + 1
  /\ lastPolled' = file.c
  /\ IF file.c = Absent THEN ret' = "err" /\ UNCHANGED <<rl, active, rate, alive, swaps>>
     ELSE IF file.m = rl.mod THEN ret' = "same" /\ UNCHANGED <<rl, active, rate, alive, swaps>>
     ELSE IF file.c = rl.src THEN ret' = "same" /\ rl' = [rl EXCEPT !.mod = file.m] /\ UNCHANGED <<active, rate, alive, swaps>>
     ELSE /\ rl' = [src |-> file.c, mod |-> file.m]
          /\ IF file.c.k = "broken" THEN ret' = "err" /\ UNCHANGED <<active, rate, alive, swaps>>
             ELSE /\ active' = file.c.v /\ swaps' = swaps + 1
                  /\ IF file.c.r = 0 THEN ret' = "stop" /\ alive' = FALSE /\ UNCHANGED rate
                     ELSE ret' = "rate" /\ rate' = file.c.r /\ UNCHANGED alive
  /\ hist' = Append(hist, [op |-> "poll", ret |-> ret', active |-> active', rate |-> rate', swaps |-> swaps'])
  /\ UNCHANGED file
Next == Edit \/ Poll
\* ConfigReloader::run: thread::sleep(rate) before every poll, with the rate of that moment (the initial one from
\* init_file, afterwards the one of the last applied file)
\* (how long the poll before it took plays no part: a reload that costs more than the rate - a slow appender to
\* build - is followed by a sleep of the full rate like any other; the live scenarios have one such reload)
Sleeps(ms) == alive /\ ms = rate
Spec == Init /\ [][Next]_vars
\* a changed valid file is applied together with its refresh rate
AppliesValid == [][ (Poll /\ file.c.k = "valid" /\ file.c # lastPolled) => (active' = file.c.v /\ (file.c.r # 0 => rate' = file.c.r)) ]_vars
\* an unreadable or unparsable file keeps the last good configuration and the polling
KeepsOnBad   == [][ (Poll /\ file.c.k # "valid") => (active' = active /\ alive' = alive /\ rate' = rate /\ swaps' = swaps /\ (ret' = "err" \/ ret' = "same")) ]_vars
\* an unchanged file (also a merely touched one) leaves the logger untouched
NoSwapIfUnchanged == [][ (Poll /\ file.c = lastPolled) => (swaps' = swaps /\ active' = active) ]_vars
StopsOnlyOnRateRemoval == [][ (alive /\ ~alive') => (file.c.k = "valid" /\ file.c.r = 0) ]_vars
\* the active configuration is always the last valid content that a poll saw as a change
ActiveIsSomeVersion == active \in Vers
=============================================================================

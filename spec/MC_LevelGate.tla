---------------------------- MODULE MC_LevelGate ----------------------------
EXTENDS LevelGate, Json
RECURSIVE Str(_)
Str(s) == IF s = <<>> THEN "" ELSE Head(s) \o Str(Tail(s))
RECURSIVE SetToSeq(_)
SetToSeq(S) == IF S = {} THEN <<>> ELSE LET x == CHOOSE y \in S : TRUE IN <<x>> \o SetToSeq(S \ {x})
RECURSIVE SeqsUpTo(_, _)
SeqsUpTo(Chars, n) == IF n = 0 THEN {<<>>}
                      ELSE LET S == SeqsUpTo(Chars, n - 1)
                           IN S \cup {Append(s, c) : s \in {t \in S : Len(t) = n - 1}, c \in Chars}
a == <<"a">>
ab == <<"a", ":", ":", "b">>
abc == <<"a", ":", ":", "b", ":", ":", "c">>
b == <<"b">>
L(l, ad, ap) == [lvl |-> l, add |-> ad, apps |-> ap]
C(rl, ra, ls) == [root |-> [lvl |-> rl, apps |-> ra], loggers |-> ls]
\* levels up and down, a descendant more verbose than every ancestor, Off subtrees with a verbose
\* leaf below them, implied intermediates, everything Off
Pool == {
  C(2, <<"A">>, <<>>),
  C(0, <<"A">>, <<>>),
  C(5, <<"A">>, <<>>),
  C(0, <<"A">>, (abc :> L(5, TRUE, <<"B">>))),
  C(2, <<"A">>, (a :> L(0, TRUE, <<>>)) @@ (ab :> L(4, TRUE, <<"B">>))),
  C(1, <<>>, (a :> L(3, FALSE, <<"A">>)) @@ (b :> L(0, TRUE, <<"B">>))),
  C(3, <<"A">>, (a :> L(1, TRUE, <<"B">>)) @@ (abc :> L(2, FALSE, <<"B", "A">>))),
  C(4, <<"B">>, (ab :> L(0, TRUE, <<"A">>)) @@ (abc :> L(5, TRUE, <<>>))),
  C(0, <<>>, (a :> L(0, TRUE, <<"A">>)) @@ (ab :> L(0, TRUE, <<"B">>))),
  C(1, <<"A", "B">>, (b :> L(5, FALSE, <<>>))),
  \* names are compared as they are spelled: a hyphen is not an underscore (package name / module name), neither
  \* in a configured name nor in a target
  C(1, <<"A">>, (<<"a", "-", "b">> :> L(5, TRUE, <<"B">>)) @@ (<<"a", "_", "b">> :> L(0, TRUE, <<>>))),
  C(4, <<"A">>, (<<"a", "-", "b">> :> L(1, FALSE, <<"B">>)))
}
TargetsDef == SeqsUpTo({"a", "b", ":"}, 3) \cup {ab, abc, ab \o <<":", ":", "b">>, abc \o <<":", ":", "a">>, <<"a", ":", ":", "c">>, <<"b", ":", ":", "c">>,
               <<"a", "-", "b">>, <<"a", "_", "b">>, <<"a", "-", "b", ":", ":", "c">>, <<"a", "_", "b", ":", ":", "c">>}
TargetSeq == SetToSeq(Targets)
CfgJson(c) == LET ls == SetToSeq(DOMAIN c.loggers) IN
  [root |-> c.root,
   loggers |-> [i \in 1..Len(ls) |-> [name |-> Str(ls[i]), lvl |-> c.loggers[ls[i]].lvl,
                                       add |-> c.loggers[ls[i]].add, apps |-> c.loggers[ls[i]].apps]],
   max |-> MaxLevel(c),
   thr |-> [i \in 1..Len(TargetSeq) |-> Thr(c, TargetSeq[i])],
   att |-> [i \in 1..Len(TargetSeq) |-> Attach(c, EffName(c, TargetSeq[i]))]]
\* one line per transition: the configuration installed and what must be observable afterwards
EmitEdge == fresh' => PrintT(<<"REPLAY", ToJson([op |-> IF up THEN "set_config" ELSE "init", drift |-> IF fresh THEN -1 ELSE globalMax,
                                        from |-> IF up THEN [root |-> CfgJson(cur).root, loggers |-> CfgJson(cur).loggers] ELSE [root |-> [lvl |-> 0, apps |-> <<>>], loggers |-> <<>>], frommax |-> globalMax,
                                        cfg |-> CfgJson(cur'), globalMax |-> globalMax'])>>)
MetaInit == Init /\ PrintT(<<"REPLAY", ToJson([meta |-> "targets", targets |-> [i \in 1..Len(TargetSeq) |-> Str(TargetSeq[i])]])>>)
Bound == reconfigs <= 4
=============================================================================

CONSTANTS
  Apps = {1, 2}
  Chains <- Chains3
  AttLists <- Att2
INIT MetaInit
NEXT Next
INVARIANTS ChainLaw ShortCircuit HandlerOncePerError FlushOncePerAppender Emit
CHECK_DEADLOCK FALSE

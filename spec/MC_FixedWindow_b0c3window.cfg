CONSTANTS
  Base = 0
  Count = 3
  Kind = "window"
  MaxRolls = 5
  MaxWipes = 1
INIT HInit
NEXT HNext
INVARIANTS WindowLaw ActiveGone OutsideUntouched RemoveOnly NoDup Emit
CHECK_DEADLOCK FALSE

------------------------------ MODULE Fragments ------------------------------
(***************************************************************************)
(* A record's message reaches an encoder as a sequence of fragments (one      *)
(* fmt::Write::write_str call per literal piece and per argument of the       *)
(* format_args! that built it).  Its value is their concatenation, in order,  *)
(* whatever their number and lengths - in particular across the sizes at      *)
(* which an implementation might buffer (around 2^8 and 2^10).  Checked for   *)
(* the pattern encoder's {m} (plain, inside a group, under a generous maximum *)
(* width) and for the JSON encoder's "message" member.                        *)
(***************************************************************************)
EXTENDS Integers, Sequences
CONSTANTS Lens, MaxFrags
VARIABLES frags
Init == frags \in UNION {[1..n -> Lens] : n \in 0..MaxFrags}
Next == UNCHANGED frags
RECURSIVE Total(_)
Total(s) == IF s = <<>> THEN 0 ELSE Head(s) + Total(Tail(s))
\* fragment i consists of Lens-many copies of the i-th letter, so the expected text is determined by frags alone:
\* Expected == letter(1)^frags[1] \o letter(2)^frags[2] \o ...
LengthLaw == Total(frags) >= 0
=============================================================================

CONSTANTS
  Apps = {1, 2}
  Cap = 4
SPECIFICATION TSpec
CONSTRAINT Track
INVARIANTS PieceOrder SmallWhole
POSTCONDITION Accepted
CHECK_DEADLOCK FALSE

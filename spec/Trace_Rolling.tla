---------------------------- MODULE Trace_Rolling ----------------------------
(* Validates traces of several real threads appending concurrently through one      *)
(* RollingFileAppender against Rolling.tla.  Both logged events of an append are     *)
(* emitted while the appender's mutex is held: "start" at the rolling.locked hook    *)
(* (the record id is the order of lock acquisition), "end" at the last hook of the   *)
(* append together with the directory parsed back into record ids.  The steps in     *)
(* between (open, trigger, roller steps, reopen, write) are silent and inferred by   *)
(* TLC; the directory after every append must be the specification's.                *)
EXTENDS Rolling, Json, IOUtils, TLCExt
Rec == ndJsonDeserialize(IOEnv.TRACE)
VARIABLE l
Ev == Rec[l]
Is(e) == l <= Len(Rec) /\ Ev.e = e /\ l' = l + 1
Same(snap, logged) == /\ snap.act.k = logged.act.k /\ snap.act.d = logged.act.d
                      /\ \A x \in Idx : snap.arch[x].k = logged.arch[ToString(x)].k /\ snap.arch[x].d = logged.arch[ToString(x)].d
PreEntry(p) == IF p < 0 THEN Absent ELSE IF p = 0 THEN File(<<>>) ELSE File(<<[id |-> 0, sz |-> p]>>)
Blank(p) ==
  /\ disk = [act |-> PreEntry(p), arch |-> [i \in Idx |-> Absent], gone |-> FALSE]
  /\ W = (IF p > 0 THEN <<[id |-> 0, sz |-> p]>> ELSE <<>>) /\ refAct = (IF p > 0 THEN <<[id |-> 0, sz |-> p]>> ELSE <<>>)
  /\ hist = <<>> /\ writer = Closed
  /\ pc = "down" /\ cur = [id |-> 0, sz |-> 0] /\ ri = 0 /\ after = "none"
  /\ used = FALSE /\ acked = {} /\ nextId = 1
  /\ fault = NoFault /\ nFaults = 0 /\ nCrash = 0 /\ nRestart = 0 /\ nObst = 0 /\ nEnc = 0 /\ nOverlap = 0
  /\ ref = <<>> /\ rolls = 0 /\ res = "none"
TInit == Blank(-1) /\ l = 1 /\ TLCSet(1, 0)
TReset == /\ Is("reset")
          /\ disk' = [act |-> PreEntry(Ev.pre), arch |-> [i \in Idx |-> Absent], gone |-> FALSE]
          /\ W' = (IF Ev.pre > 0 THEN <<[id |-> 0, sz |-> Ev.pre]>> ELSE <<>>) /\ refAct' = W'
          /\ hist' = <<>> /\ writer' = Closed
          /\ pc' = "down" /\ cur' = [id |-> 0, sz |-> 0] /\ ri' = 0 /\ after' = "none"
          /\ used' = FALSE /\ acked' = {} /\ nextId' = 1
          /\ fault' = NoFault /\ nFaults' = 0 /\ nCrash' = 0 /\ nRestart' = 0 /\ nObst' = 0 /\ nEnc' = 0 /\ nOverlap' = 0
          /\ ref' = <<>> /\ rolls' = 0 /\ res' = "none"
TBuild == Is("build") /\ Build /\ Same(Snap', Ev.disk)
TStart == Is("start") /\ nextId = Ev.id /\ Start(Ev.sz)
TEnd == Is("end") /\ cur.id = Ev.id /\ Ack /\ Same(Snap, Ev.disk)
Silent == l <= Len(Rec) /\ UNCHANGED l /\ (GetWriter1 \/ PreTrig \/ RotStep \/ GetWriter2 \/ Write \/ PostTrig)
TNext == TReset \/ TBuild \/ TStart \/ TEnd \/ Silent
TSpec == TInit /\ [][TNext]_<<vars, l>>
Track == TLCSet(1, IF l - 1 > TLCGet(1) THEN l - 1 ELSE TLCGet(1))
Accepted == IF TLCGet(1) = Len(Rec) THEN TRUE
            ELSE PrintT(<<"TRACE-REJECTED", TLCGet(1) + 1, ToJson(Rec[TLCGet(1) + 1])>>) /\ FALSE
=============================================================================

------------------------------ MODULE Reconfig ------------------------------
(***************************************************************************)
(* Runtime reconfiguration (src/lib.rs): one ArcSwap'd snapshot.               *)
(* Logger::log = load the snapshot once, then find + fan-out under that       *)
(* snapshot; Handle::set_config = build the new SharedLogger, set the          *)
(* facade's max level, store the snapshot.  Configurations are generations     *)
(* (integers); every delivery is tagged with the generation whose appender     *)
(* received it.  Generations differ in their root threshold: records are       *)
(* logged at a level that even generations admit and odd ones do not, so a     *)
(* record that is admitted under one snapshot and fanned out under another is  *)
(* visible as a delivery count that fits neither.                              *)
(***************************************************************************)
EXTENDS Naturals, Sequences, FiniteSets, TLC
CONSTANTS Loggers, Reconfs, Fanout
VARIABLES store,        \* generation currently in the ArcSwap
          pcL, snapL, kL, \* per logging thread: "idle" | "called" | "loaded"; loaded snapshot; deliveries done
          pcR, genR,    \* per reconfiguring call: "idle" | "called" | "maxset" | "stored"; its generation
          globalMax     \* generation whose max level the log facade currently has
vars == <<store, pcL, snapL, kL, pcR, genR, globalMax>>
Init == /\ store = 0 /\ globalMax = 0
        /\ pcL = [t \in Loggers |-> "idle"] /\ snapL = [t \in Loggers |-> 0] /\ kL = [t \in Loggers |-> 0]
        /\ pcR = [r \in Reconfs |-> "idle"] /\ genR = [r \in Reconfs |-> 0]
LogStart(t) == /\ pcL[t] = "idle" /\ pcL' = [pcL EXCEPT ![t] = "called"] /\ kL' = [kL EXCEPT ![t] = 0]
               /\ UNCHANGED <<store, snapL, pcR, genR, globalMax>>
\* `let shared = self.0.load();` - the only read of the swap during a record
Load(t) == /\ pcL[t] = "called" /\ snapL' = [snapL EXCEPT ![t] = store] /\ pcL' = [pcL EXCEPT ![t] = "loaded"]
           /\ UNCHANGED <<store, kL, pcR, genR, globalMax>>
\* one appender of the fan-out receives the record; it belongs to generation g
Admits(g) == g % 2 = 0
FanoutOf(g) == IF Admits(g) THEN Fanout ELSE 0
Deliver(t, g) == /\ pcL[t] = "loaded" /\ g = snapL[t] /\ kL[t] < FanoutOf(g)
                 /\ kL' = [kL EXCEPT ![t] = @ + 1]
                 /\ UNCHANGED <<store, pcL, snapL, pcR, genR, globalMax>>
LogEnd(t) == /\ pcL[t] = "loaded" /\ kL[t] = FanoutOf(snapL[t]) /\ pcL' = [pcL EXCEPT ![t] = "idle"]
             /\ UNCHANGED <<store, snapL, kL, pcR, genR, globalMax>>
SetStart(r, g) == /\ pcR[r] = "idle" /\ genR' = [genR EXCEPT ![r] = g] /\ pcR' = [pcR EXCEPT ![r] = "called"]
                  /\ UNCHANGED <<store, pcL, snapL, kL, globalMax>>
SetMax(r) == /\ pcR[r] = "called" /\ globalMax' = genR[r] /\ pcR' = [pcR EXCEPT ![r] = "maxset"]
             /\ UNCHANGED <<store, pcL, snapL, kL, genR>>
Store(r) == /\ pcR[r] = "maxset" /\ store' = genR[r] /\ pcR' = [pcR EXCEPT ![r] = "stored"]
            /\ UNCHANGED <<pcL, snapL, kL, genR, globalMax>>
SetEnd(r) == /\ pcR[r] = "stored" /\ pcR' = [pcR EXCEPT ![r] = "idle"]
             /\ UNCHANGED <<store, pcL, snapL, kL, genR, globalMax>>
\* sequential reconfigurations leave the facade's max with the stored configuration; with two
\* concurrent reconfigurers this can fail (observation O1 in DESIGN.md, not a listed property)
MaxMatchesStore == (\A r \in Reconfs : pcR[r] = "idle") => globalMax = store
=============================================================================

------------------------------ MODULE EnvExpand ------------------------------
(***************************************************************************)
(* $ENV{NAME} expansion in log-file and archive paths                        *)
(* (src/append/mod.rs: env_util::expand_env_vars).                            *)
(* Meaning: one left-to-right pass over the input; at each position either a  *)
(* well-formed reference to a set variable starts there - it is replaced by   *)
(* the value and scanning continues after its closing brace - or the          *)
(* character is copied.  Unset variables, malformed and unterminated          *)
(* references and all other text are therefore copied unchanged, and a value  *)
(* is never scanned again.  The scanner is also given as a step machine       *)
(* (ScanStep) so that "what has been emitted so far" is state.                *)
(* SetVars is the part of the environment that inputs can name; whatever else *)
(* the process environment holds plays no part - the replay's environment has *)
(* bystander variables whose value or name is not even text (not UTF-8).      *)
(***************************************************************************)
EXTENDS Integers, Sequences, TLC
CONSTANTS Tokens, MaxTok,
          SetVars,        \* function: variable name (char sequence) -> value (char sequence, free of "$")
          StartChars, PartChars
VARIABLES toks, phase, pos, out
vars == <<toks, phase, pos, out>>
RECURSIVE Flat(_)
Flat(ts) == IF ts = <<>> THEN <<>> ELSE Head(ts) \o Flat(Tail(ts))
Input == Flat(toks)
Prefix == <<"$", "E", "N", "V", "{">>
IsAt(s, p, pat) == p + Len(pat) - 1 <= Len(s) /\ SubSeq(s, p, p + Len(pat) - 1) = pat
RECURSIVE NameEnd(_, _)
NameEnd(s, p) == IF p <= Len(s) /\ s[p] \in PartChars THEN NameEnd(s, p + 1) ELSE p
\* does a well-formed reference start at p?  [ok, name, end = index of the closing brace]
RefAt(s, p) ==
  IF ~IsAt(s, p, Prefix) THEN [ok |-> FALSE, name |-> <<>>, end |-> p]
  ELSE LET q == p + 5 IN
       IF q > Len(s) \/ s[q] \notin StartChars THEN [ok |-> FALSE, name |-> <<>>, end |-> p]
       ELSE LET e == NameEnd(s, q + 1) IN
            IF e <= Len(s) /\ s[e] = "}" THEN [ok |-> TRUE, name |-> SubSeq(s, q, e - 1), end |-> e]
            ELSE [ok |-> FALSE, name |-> <<>>, end |-> p]
IsSet(n) == n \in DOMAIN SetVars
RECURSIVE Expand(_, _)
Expand(s, p) ==
  IF p > Len(s) THEN <<>>
  ELSE LET r == RefAt(s, p) IN
       IF r.ok /\ IsSet(r.name) THEN SetVars[r.name] \o Expand(s, r.end + 1)
       ELSE <<s[p]>> \o Expand(s, p + 1)

Init == toks = <<>> /\ phase = "build" /\ pos = 1 /\ out = <<>>
Extend == phase = "build" /\ Len(toks) < MaxTok /\ \E t \in Tokens : toks' = Append(toks, t) /\ UNCHANGED <<phase, pos, out>>
Start == phase = "build" /\ phase' = "scan" /\ UNCHANGED <<toks, pos, out>>
ScanStep == /\ phase = "scan"
            /\ IF pos > Len(Input) THEN phase' = "done" /\ UNCHANGED <<pos, out>>
               ELSE LET r == RefAt(Input, pos) IN
                    IF r.ok /\ IsSet(r.name) THEN out' = out \o SetVars[r.name] /\ pos' = r.end + 1 /\ UNCHANGED phase
                    ELSE out' = Append(out, Input[pos]) /\ pos' = pos + 1 /\ UNCHANGED phase
            /\ UNCHANGED toks
Next == Extend \/ Start \/ ScanStep
Spec == Init /\ [][Next]_vars

Done == phase = "done"
ScannerIsMeaning == Done => out = Expand(Input, 1)
\* text without any well-formed reference to a set variable is unchanged
NoRefNoChange == Done => ((\A p \in 1..Len(Input) : ~(RefAt(Input, p).ok /\ IsSet(RefAt(Input, p).name))) => out = Input)
\* the part of the input not yet scanned never influences what was already emitted (single pass)
PrefixStable == [][phase = "scan" /\ phase' = "scan" => SubSeq(out', 1, Len(out)) = out]_vars
\* (What comes out of Expand is a name.  A component that is handed that name later - the roller gets the appender's
\* path at every roll - takes it as it is: the replay rolls an appender built on every other input once per record.)
=============================================================================

------------------------------ MODULE DateZone ------------------------------
(***************************************************************************)
(* The zone of a date formatter (src/encode/pattern/mod.rs: FormattedChunk:: *)
(* Time with Timezone::Local / Timezone::Utc) against an environment whose   *)
(* local zone changes while the process runs (TZ, a DST transition).  The    *)
(* local zone is an input of every single encode call - not of the process,  *)
(* not of the encoder's construction: a local date rendered after the zone   *)
(* changed shows the new offset; a utc date never depends on it.             *)
(* (chrono keeps the zone in a per-thread cache that re-reads the            *)
(* environment at most once per second; the replay renders on fresh threads, *)
(* and a few histories on one thread with that second waited out.)           *)
(***************************************************************************)
(* Time is environment state as well: a date is the instant of its own encode *)
(* call - every encode reads the clock (`clock` ticks with every action), so  *)
(* the instants rendered by successive encodes strictly increase, down to the *)
(* last digit of a %3f / %6f / %9f fraction (the replay places every rendered *)
(* instant between the clock readings around its call).                      *)
(* The process is environment state, too: after a fork the child is another  *)
(* process and {P} / {pid} there render the child's id - whatever the parent *)
(* rendered, built or cached before.                                         *)
EXTENDS Integers, Sequences, FiniteSets

CONSTANTS MaxForks,
          Zones,       \* names of zones, e.g. "UTC0", "JST-9"
          Kinds,       \* "plain" ({d}), "default" ({d(fmt)}), "local" ({d(fmt)(local)}), "utc" ({d(fmt)(utc)}), "pid" ({P}|{pid})
          MaxOps
VARIABLES zone,        \* the environment's local zone
          built,       \* kinds for which an encoder exists (built under the zone of that moment)
          clock,       \* logical time: ticks with every action
          gen,         \* how many forks lie between the original process and the one that executes the history now
          hist
vars == <<zone, built, clock, gen, hist>>

Init == zone \in Zones /\ built = {} /\ gen = 0 /\ clock = 0 /\ hist = <<[op |-> "zone", z |-> zone]>>
SetZone(z) == /\ z # zone /\ zone' = z /\ hist' = Append(hist, [op |-> "zone", z |-> z]) /\ UNCHANGED <<built, gen>>
Build(k) == /\ k \notin built /\ built' = built \cup {k} /\ hist' = Append(hist, [op |-> "build", k |-> k]) /\ UNCHANGED <<zone, gen>>
\* the zone a date of kind k is rendered in, now
Rendered(k) == IF k = "utc" THEN "UTC0" ELSE zone
Encode(k) == /\ k \in built
             /\ hist' = Append(hist, [op |-> "encode", k |-> k, z |-> Rendered(k), gen |-> gen, at |-> clock])
             /\ UNCHANGED <<zone, built, gen>>
\* fork(): the history continues in the child, with everything the parent had built
Fork == /\ gen < MaxForks /\ gen' = gen + 1 /\ hist' = Append(hist, [op |-> "fork"]) /\ UNCHANGED <<zone, built>>
Next == /\ Len(hist) <= MaxOps /\ clock' = clock + 1
        /\ \/ \E z \in Zones : SetZone(z)
           \/ \E k \in Kinds : Build(k) \/ Encode(k)
           \/ Fork
Spec == Init /\ [][Next]_vars

\* a utc date is independent of the environment; a local date depends on nothing but the current zone
UtcFixed == \A i \in 1..Len(hist) : (hist[i].op = "encode" /\ hist[i].k = "utc") => hist[i].z = "UTC0"
RECURSIVE LastZone(_, _)
LastZone(h, i) == IF h[i].op = "zone" THEN h[i].z ELSE LastZone(h, i - 1)
\* a process id is rendered by the process that encodes: as many forks before the encode as the encode says
ForksBefore(h, i) == Cardinality({j \in 1..i : h[j].op = "fork"})
\* successive encodes render strictly increasing instants
ClockRead == \A i, j \in 1..Len(hist) : (i < j /\ hist[i].op = "encode" /\ hist[j].op = "encode") => hist[i].at < hist[j].at
PidCurrent == \A i \in 1..Len(hist) : hist[i].op = "encode" => hist[i].gen = ForksBefore(hist, i)
LocalCurrent == \A i \in 1..Len(hist) : (hist[i].op = "encode" /\ hist[i].k # "utc") => hist[i].z = LastZone(hist, i)
=============================================================================

INIT Init
NEXT Next
INVARIANTS AtMostMax Emit
CHECK_DEADLOCK FALSE

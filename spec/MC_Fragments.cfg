CONSTANTS
  Lens = {0, 1, 5, 255, 256, 257, 300, 1023, 1024, 1025}
  MaxFrags = 3
INIT Init
NEXT Next
INVARIANTS LengthLaw Emit
CHECK_DEADLOCK FALSE

----------------------------- MODULE MC_Pattern -----------------------------
EXTENDS Pattern, Json, PatternFamily
CONSTANTS Alphabet, MaxLen
VARIABLES input, done
RECURSIVE Str(_)
Str(s) == IF s = <<>> THEN "" ELSE Head(s) \o Str(Tail(s))
LettersDef == {"m", "x", "l", "h", "d", "X", "n", "D", "R", "t", "~", "u", "c", "k", "a", "e", "s", "g", "i", "r", "v", "o", "f", "M", "L", "T", "P", "I", "p", "b", "y", "z"}
AlphabetDef == {"{", "}", "(", ")", "\\", ":", "<", ">", ".", "9", "m", "x", "~", "^"}
DigitsDef == {"0", "1", "2", "3", "4", "5", "6", "7", "8", "9"}
OtherAlnumDef == {"^"}   \* "^" stands for U+0663 ARABIC-INDIC DIGIT THREE
RecInfo == [lvl |-> <<"I", "N", "F", "O">>, msg |-> <<"h", "~", "y">>, target |-> <<"t", "g">>, module |-> <<"m", "o", "d">>,
            file |-> Absent, line |-> <<"4", "2">>, thread |-> <<"t", "h", "r">>, mdc |-> (<<"k">> :> <<"v", "~">>)]
RECURSIVE SetToSeq(_)
SetToSeq(S) == IF S = {} THEN <<>> ELSE LET x == CHOOSE y \in S : TRUE IN <<x>> \o SetToSeq(S \ {x})
RecJson == [lvl |-> Rec.lvl, msg |-> Rec.msg, target |-> Rec.target, module |-> Rec.module, file |-> Rec.file,
            line |-> Rec.line, thread |-> Rec.thread, mdc |-> SetToSeq({<<k, Rec.mdc[k]>> : k \in DOMAIN Rec.mdc})]
Init == input = <<>> /\ done = FALSE /\ PrintT(<<"REPLAY", ToJson([meta |-> "rec", rec |-> RecJson])>>)
Extend == ~done /\ Len(input) < MaxLen /\ \E c \in Alphabet : input' = Append(input, c) /\ done' = FALSE
Finish == ~done /\ done' = TRUE /\ input' = input
Next == Extend \/ Finish
\* C11 Total: Render evaluates for every input (TLC reports any evaluation error)
\* (Render is a function of the pattern and the record: what the thread renders in between - a message whose Display
\* implementation logs through the same encoder into another sink - plays no part; every other pattern of the replay
\* is encoded that way)
Total == done => Len(Render(input)) >= 0
\* every error piece yields a marker in the output (unless an enclosing width spec made the output approximate)
RECURSIVE AnyErrorPiece(_)
AnyErrorPiece(ps) == \E i \in 1..Len(ps) : ps[i].k = "error"
ErrorVisible == done => (AnyErrorPiece(Parse(input)) => \E i \in 1..Len(Render(input)) : Render(input)[i] = "<ERR>")
\* mutations of well-formed patterns: delete / duplicate one character, swap two neighbours
Del(b, i) == SubSeq(b, 1, i - 1) \o SubSeq(b, i + 1, Len(b))
Dup(b, i) == SubSeq(b, 1, i) \o SubSeq(b, i, Len(b))
Swp(b, i) == IF i < Len(b) THEN SubSeq(b, 1, i - 1) \o <<b[i + 1], b[i]>> \o SubSeq(b, i + 2, Len(b)) ELSE b
Family == BasePatterns \cup ExtraPatterns
          \cup UNION {{Del(b, i) : i \in 1..Len(b)} \cup {Dup(b, i) : i \in 1..Len(b)} \cup {Swp(b, i) : i \in 1..Len(b)} : b \in BasePatterns}
FamilyInit == input \in Family /\ done = TRUE /\ PrintT(<<"REPLAY", ToJson([meta |-> "rec", rec |-> RecJson])>>)
FamilyNext == UNCHANGED <<input, done>>
Emit == done => PrintT(<<"REPLAY", ToJson([input |-> Str(input), out |-> Render(input)])>>)
=============================================================================

-------------------------- MODULE BackgroundRotation --------------------------
(***************************************************************************)
(* Growth beyond the listed properties: the hand-off protocol of the          *)
(* `background_rotation` feature (fixed_window.rs, FixedWindowRoller::roll    *)
(* with cfg(feature = "background_rotation")).                                *)
(*                                                                         *)
(* The appender thread (holding the appender's mutex, so there is one at a    *)
(* time) renames the active file to a temporary name, waits until the         *)
(* previous background rotation has finished (`ready`), clears `ready` and    *)
(* spawns a thread that takes the same lock, rotates, sets `ready` and        *)
(* notifies.  parking_lot's Condvar has no spurious wake-ups, so the single   *)
(* `if !*ready { wait }` is modelled as such.                                 *)
(* Checked: at most one rotation runs at a time, rotations run in the order   *)
(* they were requested, the window content equals what synchronous rotation   *)
(* would produce at quiescence, and (under weak fairness of the spawned       *)
(* threads) every temporary file is eventually archived.                      *)
(***************************************************************************)
EXTENDS Integers, Sequences, FiniteSets, TLC
CONSTANTS MaxRolls, Count
VARIABLES fg,        \* appender thread: "idle" | "renamed" | "waiting" | "spawn"
          ready,     \* the flag under the lock
          lockHolder,\* 0 = free, -1 = appender thread, k = rotation thread k
          temps,     \* temp files on disk: sequence of chunk ids in creation order
          bg,        \* k -> "spawned" | "locked" | "done"
          window,    \* archives, newest first
          requested, \* number of rolls requested so far
          order      \* chunk ids in the order the rotations actually ran
vars == <<fg, ready, lockHolder, temps, bg, window, requested, order>>
Threads == 1..MaxRolls
Init == fg = "idle" /\ ready = TRUE /\ lockHolder = 0 /\ temps = <<>> /\ bg = [k \in Threads |-> "none"]
        /\ window = <<>> /\ requested = 0 /\ order = <<>>
\* move_file(file, temp)
Rename == fg = "idle" /\ requested < MaxRolls /\ requested' = requested + 1 /\ temps' = Append(temps, requested + 1)
          /\ fg' = "renamed" /\ UNCHANGED <<ready, lockHolder, bg, window, order>>
\* lock.lock()
FgLock == fg = "renamed" /\ lockHolder = 0 /\ lockHolder' = -1 /\ fg' = (IF ready THEN "spawn" ELSE "waiting")
          /\ UNCHANGED <<ready, temps, bg, window, requested, order>>
\* cvar.wait releases the lock; the wake-up re-acquires it
FgWaitRelease == fg = "waiting" /\ lockHolder = -1 /\ lockHolder' = 0 /\ fg' = "parked"
                 /\ UNCHANGED <<ready, temps, bg, window, requested, order>>
FgWake == fg = "parked" /\ ready /\ lockHolder = 0 /\ lockHolder' = -1 /\ fg' = "spawn"
          /\ UNCHANGED <<ready, temps, bg, window, requested, order>>
\* *ready = false; drop(ready); thread::spawn(..)
Spawn == fg = "spawn" /\ lockHolder = -1 /\ ready' = FALSE /\ lockHolder' = 0
         /\ bg' = [bg EXCEPT ![requested] = "spawned"] /\ fg' = "idle"
         /\ UNCHANGED <<temps, window, requested, order>>
BgLock(k) == bg[k] = "spawned" /\ lockHolder = 0 /\ lockHolder' = k /\ bg' = [bg EXCEPT ![k] = "locked"]
             /\ UNCHANGED <<fg, ready, temps, window, requested, order>>
\* rotate(temp k); *ready = true; notify_one(); unlock
Min(a, b) == IF a < b THEN a ELSE b
BgRotate(k) == /\ bg[k] = "locked" /\ lockHolder = k
               /\ window' = SubSeq(<<k>> \o window, 1, Min(Count, Len(window) + 1))
               /\ temps' = SelectSeq(temps, LAMBDA x : x # k)
               /\ order' = Append(order, k)
               /\ ready' = TRUE /\ lockHolder' = 0 /\ bg' = [bg EXCEPT ![k] = "done"]
               /\ UNCHANGED <<fg, requested>>
Next == Rename \/ FgLock \/ FgWaitRelease \/ FgWake \/ Spawn \/ \E k \in Threads : BgLock(k) \/ BgRotate(k)
\* fairness: every thread that can take a step eventually does (the appender thread inside roll() included;
\* whether another record arrives at all - Rename - is not assumed)
Spec == Init /\ [][Next]_vars /\ WF_vars(FgLock) /\ WF_vars(FgWaitRelease) /\ WF_vars(FgWake) /\ WF_vars(Spawn)
             /\ \A k \in Threads : WF_vars(BgLock(k)) /\ WF_vars(BgRotate(k))

OneRotationAtATime == Cardinality({k \in Threads : bg[k] \in {"spawned", "locked"}}) <= 1
InOrder == \A i \in 1..Len(order) : order[i] = i
\* at quiescence the window is what synchronous rotation produces
RECURSIVE Newest(_, _)
Newest(n, c) == IF n = 0 \/ c = 0 THEN <<>> ELSE <<n>> \o Newest(n - 1, c - 1)
QuiescentWindow == (fg = "idle" /\ \A k \in Threads : bg[k] \in {"none", "done"}) => window = Newest(requested, Count) /\ temps = <<>>
\* every temporary file is eventually archived (or evicted from the window): none is orphaned
NoOrphan == \A k \in Threads : (bg[k] = "spawned") ~> (bg[k] = "done")
=============================================================================

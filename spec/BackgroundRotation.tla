-------------------------- MODULE BackgroundRotation --------------------------
(***************************************************************************)
(* The hand-off protocol of the `background_rotation` feature                 *)
(* (fixed_window.rs, FixedWindowRoller::roll with cfg(feature =               *)
(* "background_rotation")), including appender restarts inside one process    *)
(* (a reconfiguration builds a new appender - and a new roller - for the same *)
(* path while the old roller's rotation thread may still be running).         *)
(*                                                                         *)
(* The appender thread (holding the appender's mutex, so there is one at a    *)
(* time) renames the active file to a temporary name, waits until the         *)
(* previous background rotation has finished (`ready`), clears `ready` and    *)
(* spawns a thread that takes the same lock, rotates step by step (shift      *)
(* Count-2 .. 0, then the final move), sets `ready` and notifies.             *)
(* parking_lot's Condvar has no spurious wake-ups, so the single              *)
(* `if !*ready { wait }` is modelled as such.                                 *)
(*                                                                         *)
(* `ready` and its lock live in the roller's cond_pair.  SharedHandOff says   *)
(* whether rollers built for the same pattern share that pair (TRUE: one cell *)
(* for all generations) or each roller has its own (FALSE: the code before    *)
(* repair F14).  With FALSE, TLC finds rotations of two generations           *)
(* interleaving step by step: an archive is overwritten (InWindowOrGone) or   *)
(* archives end up out of order (QuiescentWindow).                            *)
(***************************************************************************)
EXTENDS Integers, Sequences, FiniteSets, TLC
CONSTANTS MaxRolls, Count, MaxRestarts, SharedHandOff
VARIABLES fg,        \* appender thread: "idle" | "renamed" | "waiting" | "parked" | "spawn"
          gen,       \* generation of the live roller (restarts so far)
          ready,     \* cell -> the flag under the lock
          lockHolder,\* cell -> 0 = free, -1 = appender thread, k = rotation thread k
          temps,     \* temp files on disk: set of chunk ids
          bg,        \* k -> "none" | "spawned" | "locked" | "done"
          bgGen,     \* k -> generation of the roller that spawned thread k
          ri,        \* k -> next shift index of thread k (-1 = final move)
          window,    \* index 0..Count-1 -> chunk id (0 = absent)
          requested  \* number of rolls requested so far
vars == <<fg, gen, ready, lockHolder, temps, bg, bgGen, ri, window, requested>>
Threads == 1..MaxRolls
Gens == 0..MaxRestarts
Cell(g) == IF SharedHandOff THEN 0 ELSE g
Cells == {Cell(g) : g \in Gens}
Init == /\ fg = "idle" /\ gen = 0 /\ ready = [c \in Cells |-> TRUE] /\ lockHolder = [c \in Cells |-> 0]
        /\ temps = {} /\ bg = [k \in Threads |-> "none"] /\ bgGen = [k \in Threads |-> 0]
        /\ ri = [k \in Threads |-> 0] /\ window = [i \in 0..Count - 1 |-> 0] /\ requested = 0
\* move_file(file, temp)
Rename == /\ fg = "idle" /\ requested < MaxRolls /\ requested' = requested + 1 /\ temps' = temps \cup {requested + 1}
          /\ fg' = "renamed" /\ UNCHANGED <<gen, ready, lockHolder, bg, bgGen, ri, window>>
\* lock.lock()
FgLock == /\ fg = "renamed" /\ lockHolder[Cell(gen)] = 0 /\ lockHolder' = [lockHolder EXCEPT ![Cell(gen)] = -1]
          /\ fg' = (IF ready[Cell(gen)] THEN "spawn" ELSE "waiting")
          /\ UNCHANGED <<gen, ready, temps, bg, bgGen, ri, window, requested>>
\* cvar.wait releases the lock; the wake-up re-acquires it
FgWaitRelease == /\ fg = "waiting" /\ lockHolder[Cell(gen)] = -1 /\ lockHolder' = [lockHolder EXCEPT ![Cell(gen)] = 0]
                 /\ fg' = "parked" /\ UNCHANGED <<gen, ready, temps, bg, bgGen, ri, window, requested>>
FgWake == /\ fg = "parked" /\ ready[Cell(gen)] /\ lockHolder[Cell(gen)] = 0
          /\ lockHolder' = [lockHolder EXCEPT ![Cell(gen)] = -1] /\ fg' = "spawn"
          /\ UNCHANGED <<gen, ready, temps, bg, bgGen, ri, window, requested>>
\* *ready = false; drop(ready); thread::spawn(..)
Spawn == /\ fg = "spawn" /\ lockHolder[Cell(gen)] = -1
         /\ ready' = [ready EXCEPT ![Cell(gen)] = FALSE] /\ lockHolder' = [lockHolder EXCEPT ![Cell(gen)] = 0]
         /\ bg' = [bg EXCEPT ![requested] = "spawned"] /\ bgGen' = [bgGen EXCEPT ![requested] = gen]
         /\ ri' = [ri EXCEPT ![requested] = Count - 2] /\ fg' = "idle"
         /\ UNCHANGED <<gen, temps, window, requested>>
\* the appender is dropped and a new one (with a new roller) is built for the same path: nothing waits for the
\* rotation thread of the old roller
Restart == /\ fg = "idle" /\ gen < MaxRestarts /\ gen' = gen + 1
           /\ UNCHANGED <<fg, ready, lockHolder, temps, bg, bgGen, ri, window, requested>>
BgLock(k) == /\ bg[k] = "spawned" /\ lockHolder[Cell(bgGen[k])] = 0
             /\ lockHolder' = [lockHolder EXCEPT ![Cell(bgGen[k])] = k] /\ bg' = [bg EXCEPT ![k] = "locked"]
             /\ UNCHANGED <<fg, gen, ready, temps, bgGen, ri, window, requested>>
\* one filesystem step of rotate(): rename window[i] -> window[i+1] (a missing source is skipped, an existing
\* destination is replaced)
BgShift(k) == /\ bg[k] = "locked" /\ ri[k] >= 0
              /\ window' = IF window[ri[k]] = 0 THEN window
                           ELSE [window EXCEPT ![ri[k] + 1] = window[ri[k]], ![ri[k]] = 0]
              /\ ri' = [ri EXCEPT ![k] = @ - 1]
              /\ UNCHANGED <<fg, gen, ready, lockHolder, temps, bg, bgGen, requested>>
\* the final move temp -> window[0]; *ready = true; notify_one(); unlock
BgFinal(k) == /\ bg[k] = "locked" /\ ri[k] = -1
              /\ window' = [window EXCEPT ![0] = k] /\ temps' = temps \ {k}
              /\ ready' = [ready EXCEPT ![Cell(bgGen[k])] = TRUE]
              /\ lockHolder' = [lockHolder EXCEPT ![Cell(bgGen[k])] = 0] /\ bg' = [bg EXCEPT ![k] = "done"]
              /\ UNCHANGED <<fg, gen, bgGen, ri, requested>>
Next == Rename \/ FgLock \/ FgWaitRelease \/ FgWake \/ Spawn \/ Restart
        \/ \E k \in Threads : BgLock(k) \/ BgShift(k) \/ BgFinal(k)
\* fairness: every thread that can take a step eventually does (the appender thread inside roll() included;
\* whether another record arrives at all - Rename - or a restart happens is not assumed)
Spec == Init /\ [][Next]_vars /\ WF_vars(FgLock) /\ WF_vars(FgWaitRelease) /\ WF_vars(FgWake) /\ WF_vars(Spawn)
             /\ \A k \in Threads : WF_vars(BgLock(k)) /\ WF_vars(BgShift(k)) /\ WF_vars(BgFinal(k))

OneRotationAtATime == Cardinality({k \in Threads : bg[k] = "locked"}) <= 1
Quiescent == fg = "idle" /\ \A k \in Threads : bg[k] \in {"none", "done"}
\* at quiescence the window is what synchronous rotation produces: the newest Count chunks, newest first
QuiescentWindow == Quiescent => /\ temps = {}
                                /\ \A i \in 0..Count - 1 : window[i] = (IF requested - i >= 1 THEN requested - i ELSE 0)
\* a chunk whose rotation has finished is in the window unless Count newer ones have finished as well
InWindowOrGone == \A k \in Threads : bg[k] = "done" =>
                     \/ \E i \in 0..Count - 1 : window[i] = k
                     \/ Cardinality({j \in Threads : j > k /\ bg[j] \in {"locked", "done"}}) >= 1 /\ Count = 1
                     \/ Cardinality({j \in Threads : j > k /\ bg[j] \in {"locked", "done"}}) >= Count
\* every temporary file is eventually archived (or evicted from the window): none is orphaned
NoOrphan == \A k \in Threads : (bg[k] = "spawned") ~> (bg[k] = "done")
\* (A rotation that fails on its thread tells nobody, and what the window looks like afterwards is not specified here.
\* One statement holds whatever the thread did, and the replay checks it in histories with a directory in the way of
\* an archive: the newest acknowledged record is in a file.)
=============================================================================

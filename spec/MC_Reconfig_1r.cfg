CONSTANTS
  Loggers = {1, 2}
  Reconfs = {1}
  Fanout = 3
  MaxGen = 3
SPECIFICATION MCSpec
INVARIANTS SnapshotWasCurrent MaxMatchesStore
CHECK_DEADLOCK FALSE

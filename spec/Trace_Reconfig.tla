--------------------------- MODULE Trace_Reconfig ---------------------------
(* Validates traces of real logging / reconfiguring threads against Reconfig.tla.  *)
(* Logged: call start / end of log and set_config, and every delivery with the       *)
(* generation tag of the appender that received it.  Not logged (silent, inferred by *)
(* TLC): the snapshot load, the facade max update, the store.                        *)
EXTENDS Reconfig, Json, IOUtils, TLCExt
Rec == ndJsonDeserialize(IOEnv.TRACE)
VARIABLE l
Ev == Rec[l]
Is(e) == l <= Len(Rec) /\ Ev.e = e /\ l' = l + 1
TInit == Init /\ l = 1 /\ TLCSet(1, 0)
TReset == /\ Is("reset")
          /\ \A t \in Loggers : pcL[t] = "idle"
          /\ \A r \in Reconfs : pcR[r] = "idle"
          /\ store' = 0 /\ globalMax' = 0 /\ snapL' = [t \in Loggers |-> 0] /\ kL' = [t \in Loggers |-> 0]
          /\ genR' = [r \in Reconfs |-> 0] /\ UNCHANGED <<pcL, pcR>>
TLogStart == Is("LogStart") /\ LogStart(Ev.t)
TDeliver  == Is("Deliver") /\ Deliver(Ev.t, Ev.g)
TLogEnd   == Is("LogEnd") /\ LogEnd(Ev.t)
TSetStart == Is("SetStart") /\ SetStart(Ev.r, Ev.g)
TSetEnd   == Is("SetEnd") /\ SetEnd(Ev.r)
Silent    == l <= Len(Rec) /\ UNCHANGED l /\ ((\E t \in Loggers : Load(t)) \/ (\E r \in Reconfs : SetMax(r) \/ Store(r)))
TNext == TReset \/ TLogStart \/ TDeliver \/ TLogEnd \/ TSetStart \/ TSetEnd \/ Silent
TSpec == TInit /\ [][TNext]_<<vars, l>>
Track == TLCSet(1, IF l - 1 > TLCGet(1) THEN l - 1 ELSE TLCGet(1))
Accepted == IF TLCGet(1) = Len(Rec) THEN TRUE
            ELSE PrintT(<<"TRACE-REJECTED", TLCGet(1) + 1, ToJson(Rec[TLCGet(1) + 1])>>) /\ FALSE
=============================================================================

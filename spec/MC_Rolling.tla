----------------------------- MODULE MC_Rolling -----------------------------
EXTENDS Rolling, Json
PreNone == {-1}
PreA == {-1, 0, 2}
PreB == {-1, 0, 1, 2, 3}
PreC == {0, 1, 2}
Terminal == pc = "idle" /\ nextId > MaxRec
Params == [base |-> Base, count |-> Count, roller |-> Roller, append |-> AppendMode, trig |-> Trig, limit |-> Limit,
           buf |-> IF MaxEncFail = 0 /\ ~ActFull THEN 0 ELSE BufFloor, gz |-> Gz, full |-> ActFull]
Emit == (Hist /\ Terminal) => PrintT(<<"REPLAY", ToJson([params |-> Params, ops |-> hist])>>)
\* simulation mode: print the history when a behaviour reaches its end
=============================================================================

--------------------------- MODULE MC_FixedWindow ---------------------------
EXTENDS FixedWindow, Json
VARIABLE hist
HInit == Init /\ hist = <<>>
Snap(ar) == [k \in Idx |-> IF ar[k].k = "file" THEN ar[k].d[1] ELSE 0]
HNext == /\ Next
         /\ hist' = IF pc' = "idle" /\ pc # "idle"
                    THEN Append(hist, [content |-> rolled'[1], after |-> Snap(arch'), act_present |-> act'.k # "absent"])
                    ELSE hist
Terminal == pc = "idle" /\ Len(rolled) = MaxRolls
Emit == Terminal => PrintT(<<"REPLAY", ToJson([base |-> Base, count |-> Count, kind |-> Kind, lo |-> Lo,
                                                init |-> Snap(init), rolls |-> hist])>>)
=============================================================================

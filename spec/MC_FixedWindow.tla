--------------------------- MODULE MC_FixedWindow ---------------------------
EXTENDS FixedWindow, Json
VARIABLES hist, init0      \* (init0: the directory found at the start; `init` restarts at a Wipe)
HInit == Init /\ hist = <<>> /\ init0 = arch
Snap(ar) == [k \in Idx |-> IF ar[k].k = "file" THEN ar[k].d[1] ELSE 0]
HNext == /\ Next /\ UNCHANGED init0
         /\ hist' = IF pc' = "idle" /\ pc # "idle"
                    THEN Append(hist, [content |-> rolled'[1], after |-> Snap(arch'), act_present |-> act'.k # "absent"])
                    ELSE IF wipes' # wipes THEN Append(hist, [wipe |-> TRUE, content |-> 0, after |-> Snap(arch'), act_present |-> FALSE])
                    ELSE hist
Terminal == pc = "idle" /\ nr = MaxRolls
Emit == Terminal => PrintT(<<"REPLAY", ToJson([base |-> Base, count |-> Count, kind |-> Kind, lo |-> Lo,
                                                init |-> Snap(init0), rolls |-> hist])>>)
=============================================================================

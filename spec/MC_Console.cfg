INIT Init
NEXT Next
INVARIANTS NoColorWins ForceBeatsClicolor PipesPlainInAuto TtyOnlyIgnoresColour SgrLength Emit
CHECK_DEADLOCK FALSE

------------------------------- MODULE Fanout -------------------------------
(***************************************************************************)
(* Delivery of one admitted record to the attachments of its effective       *)
(* logger (src/lib.rs: ConfiguredLogger::log, Appender::append, and the      *)
(* error-handler loop of Logger::log), one action per filter consultation   *)
(* and per append call, so that "who is consulted after whom" is state.      *)
(* What the sink is plays no part: an Append implementor, or a log::Log       *)
(* implementor attached through the blanket adapter (src/append/mod.rs)       *)
(* whose own enabled() answers no, or a logger of this very library with an   *)
(* appender of its own - the replay uses all three.  An attachment is          *)
(* by name: how many appenders are declared and where the attached ones were  *)
(* declared plays no part either (the replay declares up to 70 001).          *)
(***************************************************************************)
EXTENDS Integers, Sequences, FiniteSets, TLC

CONSTANTS Apps,        \* appender identities, e.g. 1..2
          Chains,      \* filter chains: sequences over {"A","N","R"}
          AttLists     \* attachment lists: sequences over Apps (an appender may be attached twice)

VARIABLES chain, outc, att,        \* configuration: Apps -> chain, Apps -> "Ok"|"Err", attachment list
          k, j, pc,                \* position in att, position in the chain, "filter"|"handle"|"done"
          consulted,               \* Apps -> sequence of filter indices consulted, in order, over all attachments
          delivered,               \* Apps -> number of append calls
          errs, handled,           \* collected errors (sequence of appender ids), handler calls
          flushed                  \* Apps -> number of flush calls (Log::flush, beyond the listed property)
vars == <<chain, outc, att, k, j, pc, consulted, delivered, errs, handled, flushed>>

Init == /\ chain \in [Apps -> Chains] /\ outc \in [Apps -> {"Ok", "Err"}] /\ att \in AttLists
        /\ k = 1 /\ j = 1 /\ pc = "filter"
        /\ consulted = [a \in Apps |-> <<>>] /\ delivered = [a \in Apps |-> 0]
        /\ errs = <<>> /\ handled = 0 /\ flushed = [a \in Apps |-> 0]
Cur == att[k]
NextAtt == k' = k + 1 /\ j' = 1
\* Appender::append: `for filter in &self.filters { match filter.filter(record) {..} }`
FilterStep == /\ pc = "filter" /\ k <= Len(att) /\ j <= Len(chain[Cur])
              /\ consulted' = [consulted EXCEPT ![Cur] = Append(@, j)]
              /\ CASE chain[Cur][j] = "N" -> j' = j + 1 /\ UNCHANGED <<k, delivered, errs>>
                   [] chain[Cur][j] = "R" -> NextAtt /\ UNCHANGED <<delivered, errs>>       \* return Ok(())
                   [] chain[Cur][j] = "A" -> /\ NextAtt                                      \* break, then append
                                             /\ delivered' = [delivered EXCEPT ![Cur] = @ + 1]
                                             /\ errs' = IF outc[Cur] = "Err" THEN Append(errs, Cur) ELSE errs
              /\ UNCHANGED <<chain, outc, att, pc, handled, flushed>>
\* all filters neutral (or none): the appender is called
AppendStep == /\ pc = "filter" /\ k <= Len(att) /\ j > Len(chain[Cur])
              /\ NextAtt
              /\ delivered' = [delivered EXCEPT ![Cur] = @ + 1]
              /\ errs' = IF outc[Cur] = "Err" THEN Append(errs, Cur) ELSE errs
              /\ UNCHANGED <<chain, outc, att, pc, consulted, handled, flushed>>
EndFanout == /\ pc = "filter" /\ k > Len(att) /\ pc' = "handle"
             /\ UNCHANGED <<chain, outc, att, k, j, consulted, delivered, errs, handled, flushed>>
\* `for e in errs { (shared.err_handler)(&e) }`
HandleErr == /\ pc = "handle"
             /\ IF handled < Len(errs) THEN handled' = handled + 1 /\ pc' = pc
                ELSE pc' = "flush" /\ UNCHANGED handled
             /\ UNCHANGED <<chain, outc, att, k, j, consulted, delivered, errs, flushed>>
\* Log::flush on the logger: every appender of the configuration is flushed once - attached or not,
\* however often it is attached, and whatever its filters say
Flush == /\ pc = "flush" /\ flushed' = [a \in Apps |-> flushed[a] + 1] /\ pc' = "done"
         /\ UNCHANGED <<chain, outc, att, k, j, consulted, delivered, errs, handled>>
Next == FilterStep \/ AppendStep \/ EndFanout \/ HandleErr \/ Flush
Spec == Init /\ [][Next]_vars

\* ---------------------------------------------------------------- the property, per appender
\* index of the first non-neutral filter, or Len+1
RECURSIVE FirstDecisive(_, _)
FirstDecisive(c, i) == IF i > Len(c) \/ c[i] # "N" THEN i ELSE FirstDecisive(c, i + 1)
Delivers(c) == LET d == FirstDecisive(c, 1) IN d > Len(c) \/ c[d] = "A"
ConsultedOnce(c) == LET d == FirstDecisive(c, 1) IN [i \in 1..(IF d > Len(c) THEN Len(c) ELSE d) |-> i]
Times(a) == Cardinality({i \in 1..Len(att) : att[i] = a})
RECURSIVE Rep(_, _)
Rep(s, n) == IF n = 0 THEN <<>> ELSE s \o Rep(s, n - 1)

\* A chain as it is declared in a configuration document may hold entries that cannot be built (unknown kind,
\* unparsable or missing level, wrong-typed field): the lossy loader reports each one and drops it; the appender's
\* chain is what is left, in its declared order ("X" marks such an entry).  The replay declares a fifth of the
\* configurations that way, with such entries before a position of the chain and at its end.
Effective(decl) == SelectSeq(decl, LAMBDA e : e # "X")

Done == pc = "done"
\* delivered iff first non-neutral response is Accept or all are neutral - once per attachment
ChainLaw == Done => \A a \in Apps : delivered[a] = (IF Delivers(chain[a]) THEN Times(a) ELSE 0)
\* filters consulted in declaration order, none after the deciding one
ShortCircuit == Done => \A a \in Apps : consulted[a] = Rep(ConsultedOnce(chain[a]), Times(a))
\* isolation: what appender a receives is a function of a's own chain and attachments only
\* (the two laws above mention nothing else); errors: exactly one handler call per failing append
HandlerOncePerError == Done => handled = Len(errs) /\
      \A a \in Apps : Cardinality({i \in 1..Len(errs) : errs[i] = a}) = (IF outc[a] = "Err" THEN delivered[a] ELSE 0)

FlushOncePerAppender == Done => \A a \in Apps : flushed[a] = 1
\* threshold filter: Reject exactly the records more verbose than its level
Threshold(T, L) == IF L > T THEN "R" ELSE "N"
=============================================================================

------------------------------- MODULE Literals -------------------------------
(***************************************************************************)
(* Size-limit and time-interval literals of the configuration                 *)
(* (trigger/size.rs: deserialize_limit, trigger/time.rs: TimeTriggerInterval). *)
(* A literal is a scalar form (integer or string) and, for strings, the text  *)
(*   lead  digits  frac  ws  unit  trail                                      *)
(* Magnitudes are symbolic - 2^k + d - because the interesting numbers sit    *)
(* around the overflow thresholds 2^24 .. 2^64 and TLC integers are 32 bit.   *)
(* Decide is the case analysis the property states: accept with value         *)
(* number x unit iff the text is <digits><optional ws><known unit> and the    *)
(* product fits the target type; everything else is rejected.                 *)
(* The verdict belongs to the literal, not to the road it travels: an integer *)
(* scalar arrives unsigned from YAML and JSON, signed from TOML (whose        *)
(* integers are 64-bit signed) and from a program that builds the             *)
(* configuration value itself - the replay sends it down all four.            *)
(***************************************************************************)
EXTENDS Integers, Sequences, FiniteSets, TLC
CONSTANTS Target        \* "size" (u64 bytes) | "interval" (i64 count of a named unit)

\* ---- numbers: [t |-> "pow", k, d] = 2^k + d ; [t |-> "small", n] ; [t |-> "huge"] = 20 nines ; [t |-> "lz", n] = "00" n ; [t |-> "lzz", n] = twenty zeros and n (more digits than any 64-bit number has, the value is n)
PowNums == [t : {"pow"}, k : 0..64, d : {-1, 0, 1}, n : {0}]
\* [t |-> "sp", n] = the digits of n with a blank after the first one ("1 0", "1 024"): not a number
SmallNums == [t : {"small", "lz", "lzz"}, k : {0}, d : {0}, n : {0, 1, 7, 1024}] \cup {[t |-> "huge", k |-> 0, d |-> 0, n |-> 0]}
             \cup [t : {"sp"}, k : {0}, d : {0}, n : {10, 1024}]
\* number < 2^bits ?   (bits = 64 for sizes / unsigned scalars, 63 for intervals)
FitsBits(num, shift, bits) ==
  CASE num.t \in {"small", "lz", "lzz", "sp"} -> TRUE                    \* at most 1024 * 2^40
    [] num.t = "huge" -> FALSE
    [] OTHER -> IF num.k = 0 THEN TRUE                       \* 0, 1, 2
                ELSE (num.k + shift < bits) \/ (num.k + shift = bits /\ num.d = -1)

\* ---- units
SizeUnits == {"b", "B", "kb", "KB", "Kb", "kib", "KiB", "mb", "Mb", "MIB", "gb", "GiB", "tb", "TB", "tib"}
IntervalUnits == {"second", "seconds", "SECONDS", "Minute", "minutes", "hour", "HOURS", "day", "Days", "week", "weeks",
                  "month", "MONTHS", "year", "Years"}
\* "~" stands for U+212A KELVIN SIGN (lower-cases to "k" under full Unicode case folding), "^" for U+017F LATIN
\* SMALL LETTER LONG S (upper-cases to "S"): units are ASCII case-insensitive only, so these are junk
JunkUnits == {"k", "kbs", "bytes", "sec", "s", "fortnight", "kb x", "b1", "pb", "~b", "~ib", "wee~", "wee~s", "^econd", "^econds", "m^",
              "k b", "ki b", "m  b", "sec onds", "wee ks",
              \* a valid unit with one letter too many at either end, or its plural ending doubled
              "dayss", "weeksSS", "secondss", "yearsssssss", "minutess", "hourss", "monthsS", "sday", "sseconds", "kbb", "kkb", "bb", "kibb", "tbs",
              \* ... or with one letter too few (what is left of "kib" without its prefix is not a unit, nor is a prefix alone)
              "ib", "IB", "Ib", "i", "ki", "Mi", "gi", "TI", "econd", "secon", "inutes", "our", "ay", "eeks", "onth", "ear"}
\* long junk: "#n#p" stands for n letters "k" with one multi-byte letter at position p (0 = none).  Error paths that
\* echo, truncate or classify the offending unit see every length around 8 .. 256 and every place for the wide letter.
LongLens == {7, 8, 9, 15, 16, 17, 31, 32, 33, 34, 63, 64, 65, 127, 128, 129, 255, 256, 257}
LongJunk == {"#" \o ToString(n) \o "#" \o ToString(q) : n \in LongLens, q \in 0..40} \cup
            {"#" \o ToString(n) \o "#" \o ToString(n - q) : n \in LongLens, q \in 0..6}
Lower(u) == CASE u \in {"b", "B"} -> "b" [] u \in {"kb", "KB", "Kb"} -> "kb" [] u \in {"kib", "KiB"} -> "kib"
              [] u \in {"mb", "Mb"} -> "mb" [] u = "MIB" -> "mib" [] u = "gb" -> "gb" [] u = "GiB" -> "gib"
              [] u \in {"tb", "TB"} -> "tb" [] u = "tib" -> "tib"
              [] u \in {"second", "seconds", "SECONDS"} -> "second" [] u \in {"Minute", "minutes"} -> "minute"
              [] u \in {"hour", "HOURS"} -> "hour" [] u \in {"day", "Days"} -> "day" [] u \in {"week", "weeks"} -> "week"
              [] u \in {"month", "MONTHS"} -> "month" [] u \in {"year", "Years"} -> "year" [] OTHER -> "?"
Shift(u) == CASE Lower(u) = "b" -> 0 [] Lower(u) \in {"kb", "kib"} -> 10 [] Lower(u) \in {"mb", "mib"} -> 20
              [] Lower(u) \in {"gb", "gib"} -> 30 [] Lower(u) \in {"tb", "tib"} -> 40 [] OTHER -> 0
KnownUnit(u) == IF Target = "size" THEN u \in SizeUnits ELSE u \in IntervalUnits
Bits == IF Target = "size" THEN 64 ELSE 63

\* ---- literals  (white space between number and unit is what Unicode calls white space: "<nbsp>" U+00A0 and "<vt>" U+000B
\* stand for the kinds that are not ASCII blanks)
Lit == [form : {"int", "str"}, lead : {"", " ", "-"}, num : PowNums \cup SmallNums, frac : BOOLEAN,
        ws : {"", " ", "   ", "<nbsp>", "<vt>"}, unit : {""} \cup SizeUnits \cup IntervalUnits \cup JunkUnits \cup LongJunk, trail : {"", " "}]
WellShapedInt(l) == l.form = "int" /\ l.frac = FALSE /\ l.ws = "" /\ l.unit = "" /\ l.trail = "" /\ l.lead \in {"", "-"} /\ l.num.t \notin {"lz", "lzz", "sp"}
\* the verdict: [ok, shift, unit]
Decide(l) ==
  IF l.form = "int"
  THEN \* an integer scalar: bytes / seconds; negative numbers and numbers outside the target type are rejected
       [ok |-> l.lead = "" /\ FitsBits(l.num, 0, Bits), shift |-> 0, unit |-> IF Target = "size" THEN "b" ELSE "second"]
  ELSE IF l.lead # "" \/ l.frac \/ l.num.t = "sp" THEN [ok |-> FALSE, shift |-> 0, unit |-> ""]   \* sign, leading blank, fraction, blank inside the digits
  ELSE IF l.unit = "" THEN [ok |-> FitsBits(l.num, 0, Bits), shift |-> 0, unit |-> IF Target = "size" THEN "b" ELSE "second"]
  ELSE IF ~KnownUnit(l.unit) THEN [ok |-> FALSE, shift |-> 0, unit |-> ""]
  ELSE IF Target = "size" THEN [ok |-> FitsBits(l.num, Shift(l.unit), 64), shift |-> Shift(l.unit), unit |-> "b"]
  ELSE [ok |-> FitsBits(l.num, 0, 63), shift |-> 0, unit |-> Lower(l.unit)]

\* An interval that parses is usable by the time trigger iff it lies between one unit and 1000 years (the trigger's
\* deserializer rejects everything else - zero has no next boundary, larger ones overflow the date arithmetic); the
\* limits are 31 557 600 000 s, 525 960 000 min, 8 766 000 h, 365 250 d, 52 178 weeks, 12 000 months, 1000 years.
\* For 2^k + d that is k <= MaxPow(unit); none of the limits is within 1 of a power of two.
MaxPow(u) == CASE u = "second" -> 34 [] u = "minute" -> 28 [] u = "hour" -> 23 [] u = "day" -> 18 [] u = "week" -> 15
               [] u = "month" -> 13 [] OTHER -> 9
MaxSmall(u) == CASE u = "year" -> 1000 [] OTHER -> 1024       \* the small numbers are at most 1024
InTriggerRange(num, u) ==
  CASE num.t = "pow" -> (num.k <= MaxPow(u)) /\ ~(num.k = 0 /\ num.d = -1)          \* 2^0 - 1 = 0
    [] num.t \in {"small", "lz", "lzz"} -> num.n >= 1 /\ num.n <= MaxSmall(u)
    [] OTHER -> FALSE
TriggerOk(l) == Target = "interval" /\ Decide(l).ok /\ InTriggerRange(l.num, Decide(l).unit)

VARIABLES lit, phase
vars == <<lit, phase>>
\* the full magnitude range with plain spelling, and the spelling variations on a few numbers
Plain == {l \in Lit : l.lead = "" /\ l.frac = FALSE /\ l.trail = "" /\ (l.form = "str" \/ WellShapedInt(l))}
Spelled == {l \in Lit : l.num \in SmallNums /\ l.num.t # "huge" /\ (l.form = "str" \/ WellShapedInt(l))}
Space == {l \in Plain \cup Spelled : (l.unit \in SizeUnits => Target = "size") /\ (l.unit \in IntervalUnits => Target = "interval")
                                      /\ (l.unit = "" => (l.ws = "" /\ l.trail = ""))   \* a bare number followed by blanks is not specified
                                      \* "-0" is read differently by YAML and JSON; it is not a number the property talks about
                                      /\ ~(l.lead = "-" /\ ((l.num.t = "pow" /\ l.num.k = 0 /\ l.num.d = -1) \/ (l.num.t # "pow" /\ l.num.n = 0)))
                                      \* "1 0" without a unit and followed by nothing is a digit, blanks, digit: covered with units only
                                      /\ (l.num.t = "sp" => l.unit # "")
                                      \* long junk units go with one number and one spelling
                                      /\ (l.unit \in LongJunk => (l.num = [t |-> "small", k |-> 0, d |-> 0, n |-> 7] /\ l.form = "str"
                                                                   /\ l.ws \in {"", " "} /\ l.lead = "" /\ l.frac = FALSE /\ l.trail = ""))}
Init == lit \in Space /\ phase = "new"
Judge == phase = "new" /\ phase' = "judged" /\ UNCHANGED lit
Next == Judge
\* no accepted literal denotes a value outside the target type
NoWrap == Decide(lit).ok => (lit.num.t = "huge" => FALSE) /\ FitsBits(lit.num, Decide(lit).shift, 64)
Total == Decide(lit).ok \in BOOLEAN
TriggerNeedsParse == TriggerOk(lit) => Decide(lit).ok
=============================================================================

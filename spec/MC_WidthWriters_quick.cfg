CONSTANTS
  MaxChars = 3
  Classes = {1, 2, 3, 4}
  Widths <- WidthsQ
  Accepts = {0, 1, 2, 5}
  ScriptLen = 2
INIT Init
NEXT Next
INVARIANTS WidthLaw AtMostM Utf8Whole Emit
CHECK_DEADLOCK FALSE

-------------------------- MODULE MC_ReloaderLive --------------------------
EXTENDS ReloaderLive, Json
Terminal == (Hist /\ polls = MaxPolls) \/ ~alive
Emit == Terminal => PrintT(<<"REPLAY", ToJson([ops |-> hist])>>)
NoHistView == <<file, rl, active, rate, alive, swaps, pc, edits, polls, mid>>
============================================================================

CONSTANTS
  Lvls = {0, 2, 5}
  AppLists <- AppLists3
  NamePool <- Pool4b
  Targets <- Targets4
  MaxLoggers = 3
  Comps <- CompsFast
INIT MetaInit
NEXT Next
INVARIANTS TreeRouteEqualsRoute OrderIrrelevant MaxLevelExact FacadeNeverHides Emit
CHECK_DEADLOCK FALSE

--------------------------- MODULE Trace_ConsoleStream ---------------------------
(* Validates what really arrived on a standard stream (read by the parent process from the pipe or the  *)
(* terminal the child logged to) against ConsoleStream.tla.  The parent cuts the bytes into pieces:      *)
(* "w" = one piece of a record <<thread, record, appender, piece>> (the text between style requests is   *)
(* self-describing), "nl" = a line end, which is the last piece of whichever record is waiting for it,   *)
(* "junk" = bytes that are no whole piece (never accepted), "reset" = the next child process, "end" =    *)
(* the last child has ended (both only once every thread has written everything).  Taking and releasing  *)
(* the lock is not visible on the stream: silent steps, taken for the thread of the next piece.          *)
(* With Locked = FALSE (Trace_ConsoleStream_unlocked.cfg) the same specification reads the stream of     *)
(* threads that use the public ConsoleWriter without lock(): pieces of different threads alternate in    *)
(* any order, but every piece - and every style request's escape sequence, which the parent drops only   *)
(* when it is well-formed and turns into "junk" otherwise - arrives as one unit.  (All Parts pieces are    *)
(* text pieces there; a line end is not a piece.)                                                        *)
EXTENDS ConsoleStream, Json, IOUtils, TLC, TLCExt
Rec == ndJsonDeserialize(IOEnv.TRACE)
VARIABLE l
Ev == Rec[l]
Is(e) == l <= Len(Rec) /\ Ev.e = e /\ l' = l + 1
TInit == Init /\ l = 1 /\ TLCSet(1, 0)
\* a child process has ended: everything it was to write is on the stream
TReset == /\ Is("reset") /\ Done /\ \A t \in Threads : ~pos[t].held
          /\ stream' = <<>> /\ holder' = 0
          /\ pos' = [t \in Threads |-> [r |-> 1, a |-> 1, p |-> 1, held |-> FALSE]]
TWrite == /\ Is("w") /\ Ev.t \in Threads /\ Write(Ev.t)
          /\ pos[Ev.t].r = Ev.r /\ pos[Ev.t].a = Ev.a /\ pos[Ev.t].p = Ev.p /\ (Locked => Ev.p < Parts)
TNl == Is("nl") /\ Locked /\ \E t \in Threads : pos[t].p = Parts /\ Write(t)
SilentAcquire == l <= Len(Rec) /\ Ev.e = "w" /\ Ev.t \in Threads /\ Acquire(Ev.t) /\ UNCHANGED l
SilentRelease == (\E t \in Threads : Release(t)) /\ UNCHANGED l
TEnd == Is("end") /\ Done /\ (\A t \in Threads : ~pos[t].held) /\ UNCHANGED vars
TNext == TEnd \/ TReset \/ TWrite \/ TNl \/ SilentAcquire \/ SilentRelease
TSpec == TInit /\ [][TNext]_<<vars, l>>
Track == TLCSet(1, IF l - 1 > TLCGet(1) THEN l - 1 ELSE TLCGet(1))
Accepted == IF TLCGet(1) = Len(Rec) THEN TRUE
            ELSE PrintT(<<"TRACE-REJECTED", TLCGet(1) + 1, ToJson(Rec[TLCGet(1) + 1])>>) /\ FALSE
\* on the way: the stream so far is whole (the last record may be unfinished)
=============================================================================

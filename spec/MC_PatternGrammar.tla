------------------------- MODULE MC_PatternGrammar -------------------------
(***************************************************************************)
(* C09: well-formed patterns as sequences of grammar tokens.  Every token    *)
(* has a spelling and a meaning that does not mention the parser; Denote     *)
(* concatenates the meanings (groups apply the width law to their body).     *)
(* GrammarAgrees: the parser transcription applied to the spelling yields    *)
(* the denotation - grammar and machine agree - and the spelling with its    *)
(* denotation is emitted for replay on the real encoder.                     *)
(***************************************************************************)
EXTENDS Pattern, Json
CONSTANTS MaxItems, MaxDepth
VARIABLES toks, depth, done
RECURSIVE Str(_)
Str(s) == IF s = <<>> THEN "" ELSE Head(s) \o Str(Tail(s))
RECURSIVE SetToSeq(_)
SetToSeq(S) == IF S = {} THEN <<>> ELSE LET x == CHOOSE y \in S : TRUE IN <<x>> \o SetToSeq(S \ {x})
LettersDef == {"m", "x", "l", "h", "d", "X", "n", "D", "R", "t", "~", "u", "c", "k", "a", "e", "s", "g", "i", "r", "v", "o", "f", "M", "L", "T", "P", "I", "p", "b", "y", "z", "q"}
DigitsDef == {"0", "1", "2", "3", "4", "5", "6", "7", "8", "9"}
OtherAlnumDef == {"^"}   \* "^" stands for U+0663 ARABIC-INDIC DIGIT THREE

\* ---- token constructors: [k, txt, val, prm, name]
P(fill, al, mn, mx) == [fill |-> fill, align |-> al, min |-> mn, max |-> mx]
Lit(t) == [k |-> "atom", txt |-> t, val |-> t, prm |-> NoParams, name |-> ""]
Esc(t, c) == [k |-> "atom", txt |-> t, val |-> <<c>>, prm |-> NoParams, name |-> ""]
Fmt(t, v, prm) == [k |-> "atom", txt |-> t, val |-> Fit(v, prm), prm |-> prm, name |-> ""]
Open(t, n) == [k |-> "open", txt |-> t, val |-> <<>>, prm |-> NoParams, name |-> n]
Close(t, prm) == [k |-> "close", txt |-> t, val |-> <<>>, prm |-> prm, name |-> ""]
C(str) == str
\* spellings are written as character sequences
Lits == { Lit(<<"a", "b">>), Lit(<<" ">>), Lit(<<"~">>), Lit(<<":">>), Lit(<<"9", ".">>), Lit(<<"<", ">">>) }
Escs == { Esc(<<"{", "{">>, "{"), Esc(<<"}", "}">>, "}"), Esc(<<"(", "(">>, "("), Esc(<<"\\", "{">>, "{"), Esc(<<"\\", "}">>, "}"),
          Esc(<<"\\", "(">>, "("), Esc(<<"\\", ")">>, ")"), Esc(<<"\\", "\\">>, "\\") }
EscTop == { Esc(<<")", ")">>, ")") }      \* "))" is an escape only outside an argument
P1 == P(" ", "R", 5, -1)
P2 == P("~", "L", 4, 6)
P3 == P(" ", "L", -1, 2)
Fmts == { Fmt(<<"{", "m", "}">>, Rec.msg, NoParams), Fmt(<<"{", "m", "e", "s", "s", "a", "g", "e", "}">>, Rec.msg, NoParams),
          Fmt(<<"{", "m", ":", ">", "5", "}">>, Rec.msg, P1), Fmt(<<"{", "m", ":", "~", "<", "4", ".", "6", "}">>, Rec.msg, P2),
          Fmt(<<"{", "m", ":", ".", "2", "}">>, Rec.msg, P3),
          Fmt(<<"{", "l", "}">>, Rec.lvl, NoParams), Fmt(<<"{", "l", "e", "v", "e", "l", ":", ">", "5", "}">>, Rec.lvl, P1),
          Fmt(<<"{", "t", "}">>, Rec.target, NoParams), Fmt(<<"{", "t", "a", "r", "g", "e", "t", "}">>, Rec.target, NoParams),
          Fmt(<<"{", "M", "}">>, OrQ(Rec.module), NoParams), Fmt(<<"{", "m", "o", "d", "u", "l", "e", "}">>, OrQ(Rec.module), NoParams),
          Fmt(<<"{", "f", "}">>, OrQ(Rec.file), NoParams), Fmt(<<"{", "f", "i", "l", "e", "}">>, OrQ(Rec.file), NoParams),
          Fmt(<<"{", "L", "}">>, OrQ(Rec.line), NoParams), Fmt(<<"{", "l", "i", "n", "e", ":", ".", "2", "}">>, OrQ(Rec.line), P3),
          Fmt(<<"{", "n", "}">>, <<"\n">>, NoParams),
          Fmt(<<"{", "T", "}">>, Rec.thread, NoParams), Fmt(<<"{", "t", "h", "r", "e", "a", "d", "}">>, Rec.thread, NoParams),
          Fmt(<<"{", "P", "}">>, <<"<pid>">>, NoParams), Fmt(<<"{", "p", "i", "d", "}">>, <<"<pid>">>, NoParams),
          Fmt(<<"{", "I", "}">>, <<"<thread_id>">>, NoParams), Fmt(<<"{", "t", "h", "r", "e", "a", "d", "_", "i", "d", "}">>, <<"<thread_id>">>, NoParams),
          Fmt(<<"{", "i", "}">>, <<"<tid>">>, NoParams), Fmt(<<"{", "t", "i", "d", "}">>, <<"<tid>">>, NoParams),
          Fmt(<<"{", "d", "(", "x", "y", ")", "}">>, <<"x", "y">>, NoParams),
          Fmt(<<"{", "d", "a", "t", "e", "(", "x", "\\", ")", "y", ")", "(", "u", "t", "c", ")", "}">>, <<"x", ")", "y">>, NoParams),
          Fmt(<<"{", "d", "(", "%", "Y", ")", "(", "l", "o", "c", "a", "l", ")", "}">>, <<"<date>", "<fmt>", "%", "Y", "</fmt>", "<local>">>, NoParams),
          Fmt(<<"{", "d", "(", "%", "H", ":", "%", "M", ")", "(", "u", "t", "c", ")", "}">>, <<"<date>", "<fmt>", "%", "H", ":", "%", "M", "</fmt>", "<utc>">>, NoParams),
          Fmt(<<"{", "d", "a", "t", "e", "(", "%", "d", "-", "%", "H", ")", "}">>, <<"<date>", "<fmt>", "%", "d", "-", "%", "H", "</fmt>", "<local>">>, NoParams),
          Fmt(<<"{", "d", "}">>, <<"<date>", "<fmt>", "%", "+", "</fmt>", "<local>">>, NoParams),
          \* a literal percent sign followed by text that looks like the rest of a specifier: "%%#z" is "%" and "#z"
          Fmt(<<"{", "d", "(", "%", "%", "#", "z", ")", "}">>, <<"<date>", "<fmt>", "%", "%", "#", "z", "</fmt>", "<local>">>, NoParams),
          Fmt(<<"{", "d", "(", "%", "Z", ")", "(", "u", "t", "c", ")", "}">>, <<"<date>", "<fmt>", "%", "Z", "</fmt>", "<utc>">>, NoParams),
          Fmt(<<"{", "d", "(", "%", "z", " ", "%", "Z", ")", "}">>, <<"<date>", "<fmt>", "%", "z", " ", "%", "Z", "</fmt>", "<local>">>, NoParams),
          Fmt(<<"{", "d", "(", "%", "a", "%", "b", "%", "e", "%", "j", "%", "y", ")", "(", "u", "t", "c", ")", "}">>,
              <<"<date>", "<fmt>", "%", "a", "%", "b", "%", "e", "%", "j", "%", "y", "</fmt>", "<utc>">>, NoParams),
          Fmt(<<"{", "X", "(", "k", ")", "}">>, MdcVal(<<"k">>, <<>>), NoParams),
          Fmt(<<"{", "m", "d", "c", "(", "z", "z", ")", "(", "q", ")", "}">>, MdcVal(<<"z", "z">>, <<"q">>), NoParams),
          Fmt(<<"{", "X", "(", "z", ")", "}">>, MdcVal(<<"z">>, <<>>), NoParams),
          Fmt(<<"{", "X", "(", "z", ")", "(", "d", "f", ")", "}">>, MdcVal(<<"z">>, <<"d", "f">>), NoParams),   \* present but empty vs default
          Fmt(<<"{", "X", "(", "a", "\\", "(", "b", ")", "(", "x", "{", "{", "y", ")", ":", ">", "5", "}">>, MdcVal(<<"a", "(", "b">>, <<"x", "{", "y">>), P1) }
Opens == { Open(<<"{", "(">>, "group"), Open(<<"{", "h", "(">>, "highlight"), Open(<<"{", "h", "i", "g", "h", "l", "i", "g", "h", "t", "(">>, "highlight"),
           Open(<<"{", "D", "(">>, "debug"), Open(<<"{", "R", "(">>, "release"), Open(<<"{", "d", "e", "b", "u", "g", "(">>, "debug") }
Closes == { Close(<<")", "}">>, NoParams), Close(<<")", ":", ">", "5", "}">>, P1), Close(<<")", ":", "~", "<", "4", ".", "6", "}">>, P2),
            Close(<<")", ":", ".", "2", "}">>, P3) }

\* ---- denotation
RECURSIVE DenoteFrom(_, _)
\* returns [out, i]: the meaning of tokens ts[i..] up to (and consuming) the close of the current group, or the end
GroupBody(name, body) ==
  CASE name = "highlight" -> StyleFor(Rec.lvl) \o body \o (IF StyleFor(Rec.lvl) = <<>> THEN <<>> ELSE <<"<S:0>">>)
    [] name = "debug" -> IF DebugBuild THEN body ELSE <<>>
    [] name = "release" -> IF DebugBuild THEN <<>> ELSE body
    [] OTHER -> body
DenoteFrom(ts, i) ==
  IF i > Len(ts) THEN [out |-> <<>>, i |-> i, prm |-> NoParams]
  ELSE LET t == ts[i] IN
       CASE t.k = "atom" -> LET r == DenoteFrom(ts, i + 1) IN [out |-> t.val \o r.out, i |-> r.i, prm |-> r.prm]
         [] t.k = "close" -> [out |-> <<>>, i |-> i + 1, prm |-> t.prm]
         [] OTHER -> LET inner == DenoteFrom(ts, i + 1)                      \* body up to its close
                         rest == DenoteFrom(ts, inner.i)
                     IN [out |-> Fit(GroupBody(t.name, inner.out), inner.prm) \o rest.out, i |-> rest.i, prm |-> rest.prm]
Denote(ts) == DenoteFrom(ts, 1).out
RECURSIVE Spelling(_)
Spelling(ts) == IF ts = <<>> THEN <<>> ELSE Head(ts).txt \o Spelling(Tail(ts))

Items(ts) == Len(SelectSeq(ts, LAMBDA t : t.k # "close"))
Init == toks = <<>> /\ depth = 0 /\ done = FALSE
AddAtom == /\ ~done /\ Items(toks) < MaxItems
           /\ \E t \in Lits \cup Escs \cup Fmts \cup (IF depth = 0 THEN EscTop ELSE {}) : toks' = Append(toks, t)
           /\ UNCHANGED <<depth, done>>
OpenGroup == /\ ~done /\ Items(toks) < MaxItems /\ depth < MaxDepth
             /\ \E t \in Opens : toks' = Append(toks, t)
             /\ depth' = depth + 1 /\ UNCHANGED done
CloseGroup == /\ ~done /\ depth > 0
              /\ \E t \in Closes : toks' = Append(toks, t)
              /\ depth' = depth - 1 /\ UNCHANGED done
Finish == ~done /\ depth = 0 /\ done' = TRUE /\ UNCHANGED <<toks, depth>>
Next == AddAtom \/ OpenGroup \/ CloseGroup \/ Finish

\* two literal chunks in a row would be one chunk for the parser but mean the same: no restriction needed
GrammarAgrees == done => Render(Spelling(toks)) = Denote(toks)
NoErrorInWellFormed == done => \A i \in 1..Len(Denote(toks)) : Denote(toks)[i] # "<ERR>"
RecJson == [lvl |-> Rec.lvl, msg |-> Rec.msg, target |-> Rec.target, module |-> Rec.module, file |-> Rec.file,
            line |-> Rec.line, thread |-> Rec.thread, mdc |-> SetToSeq({<<k, Rec.mdc[k]>> : k \in DOMAIN Rec.mdc})]
Emit == done => PrintT(<<"REPLAY", ToJson([input |-> Str(Spelling(toks)), out |-> Denote(toks), rec |-> RecJson])>>)
MetaInit == Init /\ PrintT(<<"REPLAY", ToJson([meta |-> "rec", rec |-> RecJson])>>)

RecA == [lvl |-> <<"I", "N", "F", "O">>, msg |-> <<"h", "~", "y">>, target |-> <<"t", "g">>, module |-> <<"m", "o", "d">>,
         file |-> <<"f", ".", "r", "s">>, line |-> <<"4", "2">>, thread |-> <<"t", "h", "r">>,
         mdc |-> (<<"k">> :> <<"v", "~">>) @@ (<<"a", "(", "b">> :> <<"f", "u", "l", "l">>) @@ (<<"a">> :> <<"s", "h", "o", "r", "t">>)]
RecB == [lvl |-> <<"E", "R", "R", "O", "R">>, msg |-> <<>>, target |-> <<"~", ":", ":", "~">>, module |-> Absent,
         file |-> Absent, line |-> Absent, thread |-> <<"u", "n", "n", "a", "m", "e", "d">>, mdc |-> (<<"z">> :> <<>>)]
RecC == [lvl |-> <<"D", "E", "B", "U", "G">>, msg |-> <<"a", "{", "}", "(", ")", "\\", "~", "~", "~", "~">>, target |-> <<>>, module |-> <<"m">>,
         file |-> Absent, line |-> <<"7">>, thread |-> <<"t">>, mdc |-> (<<"z", "z">> :> <<"Z">>)]
=============================================================================

CONSTANTS
  AppSeqs <- AppSeqsDef
  RootRefSeqs <- RootRefSeqsDef
  LoggerPool <- LoggerPoolDef
  MaxLoggers = 2
INIT MainInit
NEXT MainNext
INVARIANTS StrictIff ErrorsNameExactlyOffenders LossyIsValidSubsequence AcceptedIsInstallable Emit
CHECK_DEADLOCK FALSE

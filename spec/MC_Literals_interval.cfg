CONSTANTS
  Target = "interval"
INIT Init
NEXT Next
INVARIANTS NoWrap Total Emit
CHECK_DEADLOCK FALSE

---------------------------- MODULE MC_Routing ----------------------------
(* Bounded instances of Routing.tla and the emission of replay cases.      *)
EXTENDS Routing, Json, SequencesExt

RECURSIVE SeqsUpTo(_, _)
SeqsUpTo(Chars, n) == IF n = 0 THEN {<<>>}
                      ELSE LET S == SeqsUpTo(Chars, n - 1)
                           IN S \cup {Append(s, c) : s \in {t \in S : Len(t) = n - 1}, c \in Chars}
RECURSIVE Str(_)
Str(s) == IF s = <<>> THEN "" ELSE Head(s) \o Str(Tail(s))

Targets4 == SeqsUpTo({"a", "b", ":"}, 4)
Targets5 == SeqsUpTo({"a", "b", ":"}, 5)

Pool11 == { <<"a">>, <<"b">>, <<"a","b">>, <<"a",":",":","a">>, <<"a",":",":","b">>,
            <<"a","b",":",":","a">>, <<"a",":",":","a","b">>, <<":",":","a">>,
            <<"a",":",":","a",":",":","a">>, <<"a",":",":","b",":",":","a">>, <<"b",":",":","a">>,
            <<"a",":","b">> }   \* the last one is invalid and must never be declared
Pool6 == { <<"a">>, <<"a","b">>, <<"a",":",":","a">>, <<"a",":",":","a",":",":","b">>,
           <<"a",":",":","b">>, <<":",":","a">> }
Pool4 == { <<"a">>, <<"a",":",":","b">>, <<"a",":",":","b",":",":","a">>, <<"b">> }
Pool4b == { <<"a">>, <<"a",":",":","a">>, <<"a",":",":","a",":",":","b">>, <<"a","b">> }
\* names whose length in characters says nothing about their depth: a long name of one component next to short names
\* of two and three, and targets two and three components below them
PoolLong == { <<"b","b","b","b","b","b","b","b","b","b">>, <<"a",":",":","b">>, <<"a",":",":","b",":",":","a">>, <<"a">>,
              <<"b","b","b","b","b","b",":",":","a">> }
TargetsLong == { <<"a">>, <<"a",":",":","b">>, <<"a",":",":","b",":",":","a">>, <<"a",":",":","b",":",":","a",":",":","b">>,
                 <<"a",":",":","b",":",":","b",":",":","b">>, <<"a",":",":","a",":",":","a">>, <<"b","b","b","b","b","b","b","b","b","b">>,
                 <<"b","b","b","b","b","b","b","b","b","b",":",":","a",":",":","a">>, <<"b","b","b","b","b","b",":",":","a",":",":","a",":",":","a">>,
                 <<"b">>, <<>> }
AppLists3 == { <<>>, <<"A">>, <<"B","A">> }
AppLists4 == { <<>>, <<"A">>, <<"B","A">>, <<"A","A">> }

\* constant-level cache of the "::" split (TLC evaluates it once); replaces Comps in the cfg
CompsCache == [s \in Targets \cup NamePool |-> SplitAt(s, 1, <<>>, <<>>)]
CompsFast(s) == CompsCache[s]

\* a fixed enumeration order of the targets, shared with the harness through the META line
\* SetToSeq comes from SequencesExt (implemented in Java: no deep recursion for the 364 targets of length <= 5)
TargetSeq == SetToSeq(Targets)

\* compact routing table: distinct [thr, apps] classes + one class index per target
LoggerSeq == SetToSeq(Configured)
Case == LET routes == [i \in 1..Len(TargetSeq) |-> Route(TargetSeq[i])]
            classes == SetToSeq({routes[i] : i \in 1..Len(TargetSeq)})
            lseq == LoggerSeq
        IN [root |-> root,
            loggers |-> [i \in 1..Len(lseq) |->
                          [name |-> Str(lseq[i]), lvl |-> loggers[lseq[i]].lvl,
                           add |-> loggers[lseq[i]].add, apps |-> loggers[lseq[i]].apps]],
            cls |-> classes,
            idx |-> [i \in 1..Len(TargetSeq) |-> CHOOSE k \in 1..Len(classes) : classes[k] = routes[i]],
            max |-> MaxLevelDecl]
Emit == phase = "ready" => PrintT(<<"REPLAY", ToJson(Case)>>)
MetaInit == Init /\ PrintT(<<"REPLAY", ToJson([meta |-> "targets", targets |-> [i \in 1..Len(TargetSeq) |-> Str(TargetSeq[i])]])>>)
===========================================================================

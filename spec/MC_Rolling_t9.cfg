CONSTANTS
  Base = 0
  Count = 2
  Roller = "window"
  AppendMode = FALSE
  ReopenTruncates = FALSE
  Trig = "startup"
  Limit = 0
  Sizes = {1, 2}
  PreSizes <- PreB
  MaxRec = 4
  MaxFaults = 1
  MaxCrash = 1
  MaxRestart = 2
  MaxObst = 1
  Hist = FALSE
SPECIFICATION Spec
INVARIANTS TypeOK GapFreeSuffix NotLessThanIdeal WindowFaultFree Recovers Outside LenExact SizeBound AtMostOneRoll Emit
CHECK_DEADLOCK FALSE

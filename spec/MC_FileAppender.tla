--------------------------- MODULE MC_FileAppender ---------------------------
EXTENDS FileAppender
CONSTANTS Shapes, PerThread, MaxFail
MCNext == \E t \in Threads : (done[t] < PerThread /\ \E sh \in Shapes : Begin(t, sh)) \/ Lock(t) \/ Encode(t) \/ Flush(t) \/ Unlock(t)
                             \/ (Cardinality(failed) < MaxFail /\ EncodeFail(t))
MCSpec == Init /\ [][MCNext]_vars
Shapes6 == { <<>>, <<0>>, <<1>>, <<3>>, <<4>>, <<5>>, <<3, 3>>, <<1, 4>>, <<2, 2, 1>> }
=============================================================================

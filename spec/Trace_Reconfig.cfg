CONSTANTS
  Loggers = {1, 2, 3, 4}
  Reconfs = {1, 2, 3, 4, 5, 6}
  Fanout = 3
SPECIFICATION TSpec
CONSTRAINT Track
POSTCONDITION Accepted
CHECK_DEADLOCK FALSE

CONSTANTS
  Letters <- LettersDef
  Digits <- DigitsDef
  OtherAlnum <- OtherAlnumDef
  DebugBuild = TRUE
  Rec <- RecB
  MaxItems = 3
  MaxDepth = 2
INIT MetaInit
NEXT Next
INVARIANTS GrammarAgrees NoErrorInWellFormed Emit
CHECK_DEADLOCK FALSE

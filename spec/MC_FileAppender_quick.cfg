CONSTANTS
  Threads = {1, 2}
  Cap = 4
  Pre = 2
  AppendMode = TRUE
  Shapes <- Shapes6
  PerThread = 2
  MaxFail = 1
SPECIFICATION MCSpec
INVARIANTS Durable NotInterleaved ThreadOrder PrefixKept TruncatedAtOpen WholeExceptHolder NoDupNoLoss FailedNotAcked
CHECK_DEADLOCK FALSE

CONSTANTS
  Base = 2
  Count = 4
  Kind = "window"
  MaxRolls = 6
  MaxWipes = 0
INIT HInit
NEXT HNext
INVARIANTS WindowLaw ActiveGone OutsideUntouched RemoveOnly NoDup Emit
CHECK_DEADLOCK FALSE

------------------------------- MODULE Routing -------------------------------
(***************************************************************************)
(* Logger routing of log4rs (src/lib.rs: SharedLogger::new, ConfiguredLogger *)
(* ::add / ::find / ::enabled / ::max_log_level).                           *)
(*                                                                         *)
(* Two descriptions of the same thing live here:                           *)
(*  - the declarative meaning the properties C01/C02 state (Route,          *)
(*    Enabled, MaxLevelDecl) over the declared configuration, and           *)
(*  - the machine the code implements: loggers sorted by string length      *)
(*    (every order consistent with that sort is offered: the Insert action  *)
(*    picks any not-yet-inserted name of minimal length), inserted into a   *)
(*    tree keyed by "::"-components with implied intermediates that copy    *)
(*    the deepest existing node, and a lookup walk that stops at the first  *)
(*    missing child.                                                        *)
(* Names and targets are character sequences so that textual-vs-component   *)
(* prefix effects ("ab" vs "a", "a:::b", "::a") exist in the model.         *)
(* Levels: 0 = Off, 1 = Error .. 5 = Trace; a record of level L is          *)
(* admitted by threshold T iff T >= L.                                      *)
(***************************************************************************)
EXTENDS Integers, Sequences, FiniteSets, TLC

CONSTANTS Lvls,        \* level thresholds available to the configuration
          AppLists,    \* attachment lists (sequences of appender names, duplicates allowed)
          NamePool,    \* candidate logger names (character sequences)
          Targets,     \* record targets to be routed (character sequences)
          MaxLoggers

ROOT == <<"<root>">>

\* ---------------------------------------------------------------- strings
\* Rust str::split("::") / str::find("::"): greedy, left to right
RECURSIVE SplitAt(_, _, _, _)
SplitAt(s, i, cur, acc) ==
  IF i > Len(s) THEN Append(acc, cur)
  ELSE IF s[i] = ":" /\ i < Len(s) /\ s[i + 1] = ":"
       THEN SplitAt(s, i + 2, <<>>, Append(acc, cur))
       ELSE SplitAt(s, i + 1, Append(cur, s[i]), acc)
Comps(s) == SplitAt(s, 1, <<>>, <<>>)

\* config::runtime::check_logger_name
RECURSIVE RunsOK(_, _, _)
RunsOK(s, i, streak) ==
  IF i > Len(s) THEN streak = 0
  ELSE IF s[i] = ":" THEN (streak + 1 <= 2) /\ RunsOK(s, i + 1, streak + 1)
  ELSE (streak = 0 \/ streak = 2) /\ RunsOK(s, i + 1, 0)
ValidName(s) == s # <<>> /\ RunsOK(s, 1, 0)

IsPrefix(p, s) == Len(p) <= Len(s) /\ SubSeq(s, 1, Len(p)) = p

\* ---------------------------------------------------------------- state
VARIABLES root,      \* [lvl, apps]
          loggers,   \* function: declared name -> [lvl, add, apps]
          tree,      \* function: component path -> [lvl, apps]; <<>> is the root node
          todo,      \* names not yet inserted into the tree
          phase      \* "declare" | "build" | "ready"
vars == <<root, loggers, tree, todo, phase>>
LoggerRec == [lvl : Lvls, add : BOOLEAN, apps : AppLists]

\* ---------------------------------------------------------------- declarative meaning
Configured == DOMAIN loggers
Anc(n, t) == IsPrefix(Comps(n), Comps(t))         \* n is a component-wise prefix of t
Best(S) == CHOOSE n \in S : \A m \in S : Len(Comps(m)) <= Len(Comps(n))
EffName(t) == LET S == {n \in Configured : Anc(n, t)} IN IF S = {} THEN ROOT ELSE Best(S)
ParentName(n) == LET S == {m \in Configured : m # n /\ Anc(m, n)} IN IF S = {} THEN ROOT ELSE Best(S)
LvlOf(n) == IF n = ROOT THEN root.lvl ELSE loggers[n].lvl
RECURSIVE Attach(_)
Attach(n) == IF n = ROOT THEN root.apps
             ELSE loggers[n].apps \o (IF loggers[n].add THEN Attach(ParentName(n)) ELSE <<>>)
\* the routing of a target: threshold and attachment list (a bag: order is not part of the property)
Route(t) == [thr |-> LvlOf(EffName(t)), apps |-> Attach(EffName(t))]
Enabled(t, L) == Route(t).thr >= L
Deliveries(t, L) == IF Enabled(t, L) THEN Route(t).apps ELSE <<>>
\* An appender's append may fail.  The outcome of one delivery plays no part in the others: Deliveries has no
\* failure argument, and for every set F of failing appenders the error handler is called once per delivery to a
\* member of F (Logger::log collects the errors and reports each).  The replay runs every configuration with
\* F = {}, F = all appenders and F = {"A"}.
Reported(t, L, F) == LET d == Deliveries(t, L) IN Cardinality({i \in 1..Len(d) : d[i] \in F})
SetMax(S) == CHOOSE m \in S : \A x \in S : x <= m
MaxLevelDecl == SetMax({root.lvl} \cup {loggers[n].lvl : n \in Configured})

\* ---------------------------------------------------------------- what the code builds
RECURSIVE Walk(_, _, _)
Walk(tr, cs, k) == IF k < Len(cs) /\ SubSeq(cs, 1, k + 1) \in DOMAIN tr THEN Walk(tr, cs, k + 1) ELSE k
\* ConfiguredLogger::add, flattened: descend while children exist, create the implied
\* intermediates as copies of the deepest existing node, create the leaf
AddLogger(tr, n) ==
  LET cs == Comps(n)
      k  == Walk(tr, cs, 0)
      par == tr[SubSeq(cs, 1, k)]
      implied == {SubSeq(cs, 1, j) : j \in (k + 1)..(Len(cs) - 1)}
      leafApps == loggers[n].apps \o (IF loggers[n].add THEN par.apps ELSE <<>>)
  IN [p \in DOMAIN tr \cup implied \cup {cs} |->
        IF p = cs THEN [lvl |-> loggers[n].lvl, apps |-> leafApps]
        ELSE IF p \in implied THEN par
        ELSE tr[p]]
Find(tr, t) == LET cs == Comps(t) IN tr[SubSeq(cs, 1, Walk(tr, cs, 0))]
MaxLevelTree(tr) == SetMax({tr[p].lvl : p \in DOMAIN tr})

Init == /\ root \in [lvl : Lvls, apps : AppLists]
        /\ loggers = <<>>
        /\ tree = (<<>> :> root) /\ todo = {} /\ phase = "declare"
\* builder calls; declaration order is not part of the state (the harness tries every order)
Declare == /\ phase = "declare" /\ Cardinality(DOMAIN loggers) < MaxLoggers
           /\ \E n \in NamePool \ DOMAIN loggers, r \in LoggerRec :
                /\ ValidName(n)
                /\ loggers' = [m \in DOMAIN loggers \cup {n} |-> IF m = n THEN r ELSE loggers[m]]
           /\ UNCHANGED <<root, tree, todo, phase>>
Freeze == phase = "declare" /\ phase' = "build" /\ todo' = DOMAIN loggers /\ UNCHANGED <<root, loggers, tree>>
\* sort_by_key(len): any order that respects string length
Insert == /\ phase = "build" /\ todo # {}
          /\ \E n \in todo : (\A m \in todo : Len(n) <= Len(m))
                /\ tree' = AddLogger(tree, n) /\ todo' = todo \ {n}
          /\ UNCHANGED <<root, loggers, phase>>
Seal == phase = "build" /\ todo = {} /\ phase' = "ready" /\ UNCHANGED <<root, loggers, tree, todo>>
Next == Declare \/ Freeze \/ Insert \/ Seal
Spec == Init /\ [][Next]_vars

\* ---------------------------------------------------------------- properties
SameBag(a, b) == \A x \in {a[i] : i \in 1..Len(a)} \cup {b[i] : i \in 1..Len(b)} :
                   Cardinality({i \in 1..Len(a) : a[i] = x}) = Cardinality({i \in 1..Len(b) : b[i] = x})
\* C01: the tree the code builds routes every target like the declarative meaning.
\* Because `tree` at "ready" is a function of the state and every tie-break of the length
\* sort leads here, this also states order-independence.
TreeRouteEqualsRoute ==
  phase = "ready" => \A t \in Targets : LET f == Find(tree, t) r == Route(t) IN f.lvl = r.thr /\ SameBag(f.apps, r.apps)
\* the tree is determined by the declared configuration alone (no dependence on insertion order)
RECURSIVE InsertAll(_, _)
InsertAll(tr, S) == IF S = {} THEN tr
                    ELSE LET n == CHOOSE x \in S : \A m \in S : Len(x) <= Len(m) IN InsertAll(AddLogger(tr, n), S \ {n})
OrderIrrelevant == phase = "ready" => tree = InsertAll((<<>> :> root), Configured)
\* C02: the tree maximum equals the declared maximum, and nothing admitted is above it
MaxLevelExact == phase = "ready" => MaxLevelTree(tree) = MaxLevelDecl
FacadeNeverHides == phase = "ready" => \A t \in Targets : Find(tree, t).lvl <= MaxLevelTree(tree)
\* (Scale: nothing above bounds the number of configured loggers or ties a name to anything but its text.  The replay
\* has configurations with 2^8, 2^16 and 2^18 + 1 siblings under one parent; in the largest every sibling has a level of
\* its own and every one is probed - two names that an implementation takes for one, by whatever stand-in it keeps for a
\* name, show there.)
=============================================================================

CONSTANTS
  Threads = {1, 2, 3}
  Cap = 4
  Pre = 1
  AppendMode = TRUE
  Shapes <- Shapes6
  PerThread = 1
  MaxFail = 1
SPECIFICATION MCSpec
INVARIANTS Durable NotInterleaved ThreadOrder PrefixKept TruncatedAtOpen WholeExceptHolder NoDupNoLoss FailedNotAcked
CHECK_DEADLOCK FALSE

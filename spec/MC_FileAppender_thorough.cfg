CONSTANTS
  Threads = {1, 2, 3}
  Cap = 4
  Pre = 1
  AppendMode = TRUE
  Shapes <- Shapes6
  PerThread = 1
SPECIFICATION MCSpec
INVARIANTS Durable NotInterleaved ThreadOrder PrefixKept TruncatedAtOpen WholeExceptHolder NoDupNoLoss
CHECK_DEADLOCK FALSE

----------------------------- MODULE FieldWidths -----------------------------
(***************************************************************************)
(* The record's own fields under a width spec: line number (absent, 0, one    *)
(* digit, a power of ten, u32::MAX), level, file and module path (present or  *)
(* absent), each rendered plain, left and right aligned, cut, and cut and     *)
(* padded.  The text of a field does not depend on the spec, the spec does    *)
(* not depend on the field: Expected = Pad(Cut(text)).  What the widths mean  *)
(* is WidthWriters.tla's subject; here the point is every field value with    *)
(* every kind of spec, including the values at the edges of their types.      *)
(***************************************************************************)
EXTENDS Integers, Sequences
Min(a, b) == IF a < b THEN a ELSE b
RECURSIVE Rep(_, _)
Rep(c, n) == IF n <= 0 THEN <<>> ELSE <<c>> \o Rep(c, n - 1)
\* field kinds and their values (texts as character sequences; "-" alone = the field is absent and renders ???)
Values(f) == CASE f = "L" -> {<<"-">>, <<"0">>, <<"7">>, <<"1", "0">>, <<"9", "9", "9", "9", "9">>, <<"4", "2", "9", "4", "9", "6", "7", "2", "9", "5">>}
               [] f = "l" -> {<<"E", "R", "R", "O", "R">>, <<"W", "A", "R", "N">>, <<"T", "R", "A", "C", "E">>}
               [] OTHER   -> {<<"-">>, <<"x">>, <<"s", "r", "c", "/", "m", ".", "r", "s">>}
Fields == {"L", "l", "f", "M"}
\* specs: [min, max, align, fill], -1 = none
Specs == {[min |-> -1, max |-> -1, align |-> "L", fill |-> " "], [min |-> 4, max |-> -1, align |-> "R", fill |-> " "],
          [min |-> 4, max |-> -1, align |-> "L", fill |-> "*"], [min |-> 12, max |-> -1, align |-> "R", fill |-> "0"],
          [min |-> 4, max |-> 6, align |-> "R", fill |-> " "], [min |-> -1, max |-> 1, align |-> "L", fill |-> " "],
          [min |-> 3, max |-> 3, align |-> "R", fill |-> "_"], [min |-> -1, max |-> 0, align |-> "L", fill |-> " "]}
\* every amount of padding from none to well over a hundred columns, on both sides (the level field: 4 and 5 characters) -
\* whatever an implementation writes the fill with (one character at a time, or in blocks of some size), the field has
\* exactly min characters
PadSweep == {[min |-> n, max |-> -1, align |-> a, fill |-> " "] : n \in 13..140, a \in {"L", "R"}}
VARIABLES field, value, spec
Init == field \in Fields /\ value \in Values(field) /\ spec \in (Specs \cup (IF field = "l" THEN PadSweep ELSE {}))
Next == UNCHANGED <<field, value, spec>>
Text == IF value = <<"-">> THEN <<"?", "?", "?">> ELSE value
Cut(t) == IF spec.max >= 0 THEN SubSeq(t, 1, Min(Len(t), spec.max)) ELSE t
Expected == LET c == Cut(Text) pad == Rep(spec.fill, spec.min - Len(c)) IN
            IF spec.min < 0 THEN c ELSE IF spec.align = "L" THEN c \o pad ELSE pad \o c
AtMostMax == spec.max >= 0 => Len(Expected) <= (IF spec.min > spec.max THEN spec.min ELSE spec.max)
=============================================================================

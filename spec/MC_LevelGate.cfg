CONSTANTS
  Configs <- Pool
  Targets <- TargetsDef
INIT MetaInit
NEXT Next
INVARIANTS GlobalMaxExact FacadeNeverHides MacrosReachRouting
ACTION_CONSTRAINT EmitEdge
CONSTRAINT Bound
CHECK_DEADLOCK FALSE

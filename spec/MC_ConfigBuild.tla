--------------------------- MODULE MC_ConfigBuild ---------------------------
EXTENDS ConfigBuild, Json

RECURSIVE Str(_)
Str(s) == IF s = <<>> THEN "" ELSE Head(s) \o Str(Tail(s))
RECURSIVE SeqsUpTo(_, _)
SeqsUpTo(Chars, n) == IF n = 0 THEN {<<>>}
                      ELSE LET S == SeqsUpTo(Chars, n - 1)
                           IN S \cup {Append(s, c) : s \in {t \in S : Len(t) = n - 1}, c \in Chars}

AppSeqsDef == { <<>>, <<"A">>, <<"A","B">>, <<"A","A">>, <<"B","A","B">>, <<"A","B","A","A">>,
                <<"A","A","B","C">>, <<"C","A","B","A","C","B">>, <<"B","B","A","C","A">> }
RootRefSeqsDef == { <<>>, <<"A">>, <<"Z","A">>, <<"B","Z","B">>, <<"Z","Y","A">>, <<"A","Y","Z","X">> }
NamesDef == { <<"a">>, <<"a",":",":","b">>, <<"a",":","b">>, <<>>, <<"a",":",":">>, <<":",":","a">>, <<"a",":",":",":",":","b">> }
RefsDef == { <<>>, <<"A">>, <<"Z","B">>, <<"B","A","Y","A">>, <<"Y","Z","B","X","W">> }
LoggerPoolDef == [name : NamesDef, refs : RefsDef]
EmptySeqSet == {<<>>}
\* long logger sequences over a small pool: duplicates that are not adjacent (a, b, a), triples, ...
AppSeqsSmall == { <<"A">>, <<"A", "B", "A">> }
RootRefSmall == { <<"A">>, <<"Z">> }
LoggerPoolSmall == [name : {<<"a">>, <<"b">>, <<"a", ":", "b">>}, refs : {<<>>, <<"Z", "A">>}]

Case == [apps |-> apps, root |-> rootRefs,
         loggers |-> [k \in 1..Len(loggers) |-> [name |-> Str(loggers[k].name), refs |-> loggers[k].refs]],
         strict_ok |-> WellFormed,
         must |-> MustErrs, may |-> MayErrs,
         ok_apps |-> LossyApps, ok_root |-> LossyRoot,
         ok_loggers |-> [k \in 1..Len(KeptLoggers(1)) |-> [name |-> Str(KeptLoggers(1)[k].name), refs |-> KeptLoggers(1)[k].refs]]]
\* error names are character sequences for logger errors, strings for appender errors: stringify uniformly
ErrJson(S) == {<<e[1], IF e[1] \in {"DuplicateLoggerName", "InvalidLoggerName"} THEN Str(e[2]) ELSE e[2]>> : e \in S}
CaseJ == [Case EXCEPT !.must = ErrJson(MustErrs), !.may = ErrJson(MayErrs)]
Emit == Done => PrintT(<<"REPLAY", ToJson(CaseJ)>>)

\* ---- name validity, exhaustive: one initial state per string, no transitions
VARIABLE nm
\* ("~" stands for a letter that is not ASCII - two bytes in UTF-8 -: a name is a sequence of characters, where its
\* colons sit is counted in characters)
NameInit == nm \in (SeqsUpTo({"a", "b", ":"}, 6) \cup SeqsUpTo({"a", "~", ":"}, 6)) /\ Init
NameNext == UNCHANGED <<nm, vars>>
NameLaw == ValidName(nm) <=> DeclValid(nm)
NameEmit == PrintT(<<"REPLAY", ToJson([name |-> Str(nm), valid |-> DeclValid(nm)])>>)
MainInit == Init /\ nm = <<>>
MainNext == Next /\ UNCHANGED nm
=============================================================================

CONSTANTS
  AppSeqs <- AppSeqsDef
  RootRefSeqs <- RootRefSeqsDef
  LoggerPool <- LoggerPoolDef
  MaxLoggers = 3
INIT MainInit
NEXT MainNext
INVARIANTS StrictIff ErrorsNameExactlyOffenders LossyIsValidSubsequence AcceptedIsInstallable Emit
CHECK_DEADLOCK FALSE

CONSTANTS
  Base = 1
  Count = 2
  Kind = "delete"
  MaxRolls = 4
  MaxWipes = 1
INIT HInit
NEXT HNext
INVARIANTS WindowLaw ActiveGone OutsideUntouched RemoveOnly NoDup Emit
CHECK_DEADLOCK FALSE

CONSTANTS
  Classes <- ClassesDef
  MaxLen = 3
  Budget = 1
INIT Init
NEXT Next
INVARIANTS OptionalOmitted Emit
CHECK_DEADLOCK FALSE

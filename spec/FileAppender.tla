----------------------------- MODULE FileAppender -----------------------------
(***************************************************************************)
(* FileAppender (src/append/file.rs): Mutex<SimpleWriter<BufWriter<File>>>    *)
(* with capacity Cap.  A record is a sequence of chunk sizes (one encoder     *)
(* write call each); the lock spans all chunk writes and the flush.  File    *)
(* bytes are tagged <<thread, record index>>; pre-existing bytes are <<0,0>>. *)
(* BufWrite transcribes std::io::BufWriter::write_all: buffer if the chunk is *)
(* smaller than the spare capacity; otherwise flush first if it is larger     *)
(* than the spare capacity, then write through if it is at least Cap, else    *)
(* buffer it.                                                                 *)
(* In append mode `disk' = disk \o ..` is the whole truth about where bytes   *)
(* go: the end of the file as it is at that moment (O_APPEND), not the end as *)
(* it was when the appender opened it.  A successor appender opened on the    *)
(* same path while this one is alive (a reconfiguration) therefore is the     *)
(* same `disk`; the recorded traces contain such successors.                  *)
(* Appenders on different files are different instances of this module: an    *)
(* append to one of them from inside the encode call of another (same thread, *)
(* the first one's lock held) is an append like any other - the traces make   *)
(* such appends to an audit appender and check its file at the end.           *)
(***************************************************************************)
EXTENDS Integers, Sequences, FiniteSets, TLC
CONSTANTS Threads,      \* thread ids: positive integers (0 is "nobody" / pre-existing)
          Cap, Pre, AppendMode
VARIABLES disk, buf, holder, pc, cur, pos, done, acked,
          failed        \* records whose encoder returned an error: <<thread, record index>>
vars == <<disk, buf, holder, pc, cur, pos, done, acked, failed>>
RECURSIVE Rep(_, _)
Rep(x, n) == IF n <= 0 THEN <<>> ELSE <<x>> \o Rep(x, n - 1)
RECURSIVE Sum(_)
Sum(s) == IF s = <<>> THEN 0 ELSE Head(s) + Sum(Tail(s))
PreBytes == Rep(<<0, 0>>, Pre)
\* FileAppenderBuilder::build: open, truncating unless append mode
Init == /\ disk = IF AppendMode THEN PreBytes ELSE <<>>
        /\ buf = <<>> /\ holder = 0
        /\ pc = [t \in Threads |-> "idle"] /\ cur = [t \in Threads |-> <<>>] /\ pos = [t \in Threads |-> 0]
        /\ done = [t \in Threads |-> 0] /\ acked = {} /\ failed = {}
Begin(t, sh) == /\ pc[t] = "idle"
                /\ cur' = [cur EXCEPT ![t] = sh]
                /\ pos' = [pos EXCEPT ![t] = 0] /\ pc' = [pc EXCEPT ![t] = "wantlock"]
                /\ UNCHANGED <<disk, buf, holder, done, acked, failed>>
Lock(t) == /\ pc[t] = "wantlock" /\ holder = 0 /\ holder' = t /\ pc' = [pc EXCEPT ![t] = "encode"]
           /\ UNCHANGED <<disk, buf, cur, pos, done, acked, failed>>
BufWrite(t, n) ==
  LET data == Rep(<<t, done[t] + 1>>, n)
      spare == Cap - Len(buf) IN
  IF n < spare THEN buf' = buf \o data /\ UNCHANGED disk
  ELSE LET flushed == n > spare
           d1 == IF flushed THEN disk \o buf ELSE disk
           b1 == IF flushed THEN <<>> ELSE buf IN
       IF n >= Cap THEN disk' = d1 \o data /\ buf' = b1
       ELSE disk' = d1 /\ buf' = b1 \o data
Encode(t) == /\ pc[t] = "encode" /\ holder = t
             /\ IF pos[t] < Len(cur[t])
                THEN BufWrite(t, cur[t][pos[t] + 1]) /\ pos' = [pos EXCEPT ![t] = @ + 1] /\ UNCHANGED pc
                ELSE pc' = [pc EXCEPT ![t] = "flush"] /\ UNCHANGED <<disk, buf, pos>>
             /\ UNCHANGED <<holder, cur, done, acked, failed>>
Flush(t) == /\ pc[t] = "flush" /\ holder = t /\ disk' = disk \o buf /\ buf' = <<>>
            /\ pc' = [pc EXCEPT ![t] = "unlock"] /\ UNCHANGED <<holder, cur, pos, done, acked, failed>>
\* the guard is dropped when append returns Ok: the record is acknowledged
Unlock(t) == /\ pc[t] = "unlock" /\ holder = t /\ holder' = 0
             /\ done' = [done EXCEPT ![t] = @ + 1] /\ acked' = acked \cup {<<t, done[t] + 1, Sum(cur[t])>>}
             /\ pc' = [pc EXCEPT ![t] = "idle"] /\ UNCHANGED <<disk, buf, cur, pos, failed>>
\* `self.encoder.encode(&mut *file, record)?` - the encoder gives up after some of its write calls: append returns
\* the error and the guard is dropped.  Nothing is flushed and nothing is taken back: the bytes written so far stay
\* where BufWrite put them (buffer or file) and travel with the next flush; everything that was in the file or
\* acknowledged before stays exactly as it was.  The record is not acknowledged.
EncodeFail(t) == /\ pc[t] = "encode" /\ holder = t /\ holder' = 0
                 /\ done' = [done EXCEPT ![t] = @ + 1] /\ failed' = failed \cup {<<t, done[t] + 1>>}
                 /\ pc' = [pc EXCEPT ![t] = "idle"] /\ UNCHANGED <<disk, buf, cur, pos, acked>>
\* the appender is dropped (BufWriter's Drop flushes): what is still buffered reaches the file
Close == /\ holder = 0 /\ disk' = disk \o buf /\ buf' = <<>> /\ UNCHANGED <<holder, pc, cur, pos, done, acked, failed>>

Count(tag) == Cardinality({k \in 1..Len(disk) : disk[k] = tag})
\* positions at which a new run of equal tags starts
RunStarts == {a \in 1..Len(disk) : a = 1 \/ disk[a] # disk[a - 1]}
\* once append has returned the complete record is in the file
Durable == \A r \in acked : Count(<<r[1], r[2]>>) = r[3]
\* every record's bytes are one contiguous run: no tag starts two runs
\* (equivalent to: for all a < b with disk[a] = disk[b], everything between carries the same tag)
NotInterleaved == Cardinality({disk[a] : a \in RunStarts}) = Cardinality(RunStarts)
ThreadOrder == \A a, b \in RunStarts : (a < b /\ disk[a][1] = disk[b][1] /\ disk[a][1] # 0) => disk[a][2] <= disk[b][2]
PrefixKept == AppendMode => (Len(disk) >= Pre /\ SubSeq(disk, 1, Pre) = PreBytes)
TruncatedAtOpen == ~AppendMode => \A k \in 1..Len(disk) : disk[k] # <<0, 0>>
\* the file is whole records, except possibly a prefix of the lock holder's record in flight and of records whose
\* encoder failed
WholeExceptHolder == \A k \in 1..Len(disk) : LET tg == disk[k] IN
    tg[1] = 0 \/ (\E r \in acked : r[1] = tg[1] /\ r[2] = tg[2]) \/ (holder = tg[1] /\ tg[2] = done[tg[1]] + 1)
    \/ <<tg[1], tg[2]>> \in failed
FailedNotAcked == \A f \in failed : ~\E r \in acked : r[1] = f[1] /\ r[2] = f[2]
NoDupNoLoss == \A r \in acked : Count(<<r[1], r[2]>>) <= r[3]
\* (Open is the only step that discards: a failed write or flush later in the life of a truncate-mode appender takes
\* nothing away from the file - the size-limit scenario of the replay runs in both modes and looks at the file right
\* after the refused record.)
=============================================================================

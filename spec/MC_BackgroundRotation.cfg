CONSTANTS
  MaxRolls = 4
  Count = 2
SPECIFICATION Spec
INVARIANTS OneRotationAtATime InOrder QuiescentWindow
PROPERTIES NoOrphan
CHECK_DEADLOCK FALSE

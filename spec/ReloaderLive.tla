---------------------------- MODULE ReloaderLive ----------------------------
(***************************************************************************)
(* The reloader loop at the grain of its system calls (src/config/file.rs:    *)
(* ConfigReloader::run and run_once), with the editor of the file as a        *)
(* process of its own that may act BETWEEN the two looks run_once takes at the *)
(* file: the stat (modification time) and the read (text).  Reloader.tla      *)
(* treats a poll as one step; here it is two, and what Reloader.tla cannot     *)
(* say - that the loop *gets there* - is stated as temporal properties under   *)
(* weak fairness of the loop's own steps:                                      *)
(*                                                                           *)
(*   Converges    a valid content that stays in the file is eventually the     *)
(*                active configuration (with its rate; without a rate the      *)
(*                thread ends), whatever was edited while a poll was under way *)
(*   LoopReturns  the loop is back at its sleep again and again while it       *)
(*                lives: an unreadable, unparsable or absent file does not     *)
(*                stop it                                                      *)
(*                                                                           *)
(* run_once, transcribed:                                                     *)
(*   Stat   metadata(path).modified()?            absent: Err, nothing changes *)
(*          equal to the remembered one: Ok(rate) - the text is not looked at  *)
(*          otherwise the new time is remembered AT ONCE (before the read)     *)
(*   Read   read_to_string(path)?                 absent by now, or not UTF-8: *)
(*                                                Err - the time stays         *)
(*                                                remembered, the text not     *)
(*          equal to the remembered text: Ok(rate)                             *)
(*          otherwise the text is remembered (before it is parsed), then       *)
(*          parse? / set_config / the new rate (none: the loop ends)           *)
(*                                                                           *)
(* The editor's promise (Edit): a new modification time differs from the      *)
(* file's current one and from the one the reloader remembers.  The second    *)
(* half is what change detection by modification time needs and cannot check;  *)
(* with Forge = TRUE the editor promises the first half only, and TLC shows    *)
(* the behaviour in which a changed file is never applied (a poll's stat,      *)
(* two edits, the read, then a backup restored together with its time) - the   *)
(* negative control of Converges.                                              *)
(***************************************************************************)
EXTENDS Integers, Sequences, TLC
CONSTANTS Vers, Rates,      \* Rates includes 0 = "no refresh_rate in the file"
          MTimes,           \* the modification times an edit may choose from
          MaxEdits,         \* edits per behaviour
          MaxPolls,         \* polls per behaviour when a history is kept (Hist); no bound otherwise
          Hist,             \* TRUE: keep the history for the replay (bounded by MaxPolls)
          Forge,            \* TRUE: an edit may reproduce the modification time the reloader remembers
          BootOrder         \* "stat_read": init_file looks at the modification time first, then reads the text;
                            \* "read_stat": the other way round (how it was before the repair F17 - the second negative
                            \* control of Converges)
VARIABLES file,        \* [c |-> content, m |-> mtime]
          rl,          \* reloader memory: [src |-> content, mod |-> mtime]
          active, rate, alive, swaps,
          pc,          \* "boot" | "boot2" (between the two looks of init_file) | "sleep" | "read" (between the stat and
                       \* the read of one poll)
          edits, polls,
          mid,         \* the edits made since the stat of the poll under way
          hist
vars == <<file, rl, active, rate, alive, swaps, pc, edits, polls, mid, hist>>

Valid(v, r) == [k |-> "valid", v |-> v, r |-> r]
Broken(i)   == [k |-> "broken", v |-> i, r |-> 0]
Absent      == [k |-> "absent", v |-> 0, r |-> 0]
Unread      == [k |-> "unread", v |-> 0, r |-> 0]      \* the name is there, its text cannot be read (not UTF-8)
ValidContents == {Valid(v, r) : v \in Vers, r \in Rates}
Contents == ValidContents \cup {Broken(1), Broken(2), Absent, Unread}

NoTime == 0 - 1      \* init_file could not tell the modification time: run_once then reads the text at every poll
Init == \E v \in Vers, r \in Rates \ {0} :
          /\ file = [c |-> Valid(v, r), m |-> 2]
          /\ rl = [src |-> Absent, mod |-> 0]
          /\ active = 0 /\ rate = 0 /\ alive = TRUE /\ swaps = 0
          /\ pc = "boot" /\ edits = 0 /\ polls = 0 /\ mid = <<>>
          /\ hist = IF Hist THEN <<[op |-> "init", c |-> Valid(v, r)]>> ELSE <<>>

\* init_file takes two looks at the file as well, and the editor may act between them
Boot1 == /\ pc = "boot" /\ pc' = "boot2"
         /\ rl' = IF BootOrder = "stat_read" THEN [rl EXCEPT !.mod = file.m] ELSE [rl EXCEPT !.src = file.c]
         /\ UNCHANGED <<file, active, rate, alive, swaps, edits, polls, mid, hist>>
BootLog(ret) == /\ mid' = <<>>
                /\ hist' = IF Hist THEN Append(hist, [op |-> "boot", mid |-> mid, ret |-> ret, active |-> active', rate |-> rate'])
                           ELSE hist
Boot2 == /\ pc = "boot2"
         /\ IF BootOrder = "stat_read"
            THEN IF file.c.k # "valid"
                 THEN \* init_file returns the error: no logger, no thread - the behaviour ends here
                      alive' = FALSE /\ pc' = "sleep" /\ UNCHANGED <<rl, active, rate>> /\ BootLog("fail")
                 ELSE /\ rl' = [rl EXCEPT !.src = file.c] /\ active' = file.c.v /\ rate' = file.c.r /\ pc' = "sleep"
                      /\ IF file.c.r = 0 THEN alive' = FALSE /\ BootLog("norate")     \* a logger and no refresh thread
                         ELSE UNCHANGED alive /\ BootLog("started")
            ELSE /\ rl' = [rl EXCEPT !.mod = IF file.c = Absent THEN NoTime ELSE file.m]
                 /\ active' = rl.src.v /\ rate' = rl.src.r /\ pc' = "sleep" /\ UNCHANGED alive /\ BootLog("started")
         /\ UNCHANGED <<file, swaps, edits, polls>>

Budget == ~Hist \/ polls < MaxPolls

Edit == /\ edits < MaxEdits /\ alive /\ Budget /\ pc # "boot"
        /\ \E c \in Contents, m \in MTimes \ ({file.m} \cup (IF Forge THEN {} ELSE {rl.mod})) :
             /\ file' = [c |-> c, m |-> m]
             /\ IF pc \in {"read", "boot2"}
                THEN mid' = (IF Hist THEN Append(mid, [c |-> c, m |-> m]) ELSE mid) /\ UNCHANGED hist
                ELSE hist' = (IF Hist THEN Append(hist, [op |-> "edit", c |-> c, m |-> m]) ELSE hist) /\ UNCHANGED mid
        /\ edits' = edits + 1
        /\ UNCHANGED <<rl, active, rate, alive, swaps, pc, polls>>

\* the end of one poll: back to the sleep, the result in the history
Done(ret) == /\ pc' = "sleep" /\ mid' = <<>>
             /\ polls' = IF Hist THEN polls + 1 ELSE polls
             /\ hist' = IF Hist THEN Append(hist, [op |-> "poll", mid |-> mid, ret |-> ret, active |-> active',
                                                   rate |-> rate', swaps |-> swaps'])
                        ELSE hist

Stat == /\ alive /\ pc = "sleep" /\ Budget
        /\ IF file.c = Absent /\ rl.mod # NoTime THEN UNCHANGED <<rl, active, rate, alive, swaps>> /\ Done("err")
           ELSE IF file.m = rl.mod THEN UNCHANGED <<rl, active, rate, alive, swaps>> /\ Done("same")
           ELSE /\ rl' = (IF rl.mod = NoTime THEN rl ELSE [rl EXCEPT !.mod = file.m]) /\ pc' = "read"
                /\ UNCHANGED <<active, rate, alive, swaps, polls, mid, hist>>
        /\ UNCHANGED <<file, edits>>

Read == /\ pc = "read"
        /\ IF file.c \in {Absent, Unread} THEN UNCHANGED <<rl, active, rate, alive, swaps>> /\ Done("err")
           ELSE IF file.c = rl.src THEN UNCHANGED <<rl, active, rate, alive, swaps>> /\ Done("same")
           ELSE /\ rl' = [rl EXCEPT !.src = file.c]
                /\ IF file.c.k = "broken" THEN UNCHANGED <<active, rate, alive, swaps>> /\ Done("err")
                   ELSE /\ active' = file.c.v /\ swaps' = swaps + 1
                        /\ IF file.c.r = 0 THEN alive' = FALSE /\ UNCHANGED rate /\ Done("stop")
                           ELSE rate' = file.c.r /\ UNCHANGED alive /\ Done("rate")
        /\ UNCHANGED <<file, edits>>

Next == Edit \/ Boot1 \/ Boot2 \/ Stat \/ Read
Spec == Init /\ [][Next]_vars
\* the thread runs: a step of the loop that is possible is taken eventually; the editor owes nothing
FairSpec == Spec /\ WF_vars(Boot1) /\ WF_vars(Boot2) /\ WF_vars(Stat) /\ WF_vars(Read)

Started == pc \in {"sleep", "read"}
\* ---- safety at this grain
TypeOK == active \in Vers \cup {0} /\ pc \in {"boot", "boot2", "sleep", "read"} /\ (pc = "read" => alive)
            /\ ((pc = "sleep" /\ alive) => active \in Vers)
\* a valid text the reloader remembers is the configuration that runs
SrcIsActive == (rl.src.k = "valid" /\ pc \notin {"boot", "boot2"}) => active = rl.src.v
\* the logger is swapped only for a valid text that differs from the remembered one
SwapOnlyOnChange == [][swaps' # swaps => (pc = "read" /\ file.c.k = "valid" /\ file.c # rl.src /\ swaps' = swaps + 1)]_vars
\* whatever is wrong with the file, configuration, rate and thread stay
KeepsOnBad == [][(file.c.k # "valid" /\ file' = file /\ Started) => (active' = active /\ rate' = rate /\ alive' = alive /\ swaps' = swaps)]_vars
StopsOnlyOnRateRemoval == [][(alive /\ ~alive' /\ Started) => (file.c.k = "valid" /\ file.c.r = 0 /\ active' = file.c.v)]_vars

\* ---- liveness (FairSpec, Hist = FALSE)
Converges == \A c \in ValidContents :
               <>[](file.c = c) => <>[](active = c.v /\ (IF c.r = 0 THEN ~alive ELSE alive /\ rate = c.r))
\* a file that is bad for good leaves the last good configuration in force for good, and the loop alive
BadKeeps == \A c \in Contents \ ValidContents : \A v \in Vers :
               <>[](file.c = c /\ active = v) => <>[](active = v /\ alive)
LoopReturns == []<>(~alive \/ pc = "sleep")

=============================================================================

CONSTANTS
  Apps = {1, 2}
  Cap = 4
  Plans <- PlansDef
SPECIFICATION Spec
INVARIANTS AllWhole
CHECK_DEADLOCK FALSE

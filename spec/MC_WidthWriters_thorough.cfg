CONSTANTS
  MaxChars = 4
  Classes = {1, 2, 3, 4}
  Widths <- WidthsT
  Accepts = {0, 1, 3, 7}
  ScriptLen = 2
INIT Init
NEXT Next
INVARIANTS WidthLaw AtMostM Utf8Whole Emit
CHECK_DEADLOCK FALSE

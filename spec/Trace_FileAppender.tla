-------------------------- MODULE Trace_FileAppender --------------------------
(* Validates traces recorded from real threads appending through FileAppender:  *)
(* hook events emitted under the appender's lock (lock, encoded, flushed), one  *)
(* event per encoder write call (chunk), harness events around the call (begin, *)
(* end, saw).  At "encoded" and "flushed" the callback reads the real file, and *)
(* the specification's disk must equal it byte class for byte class.            *)
EXTENDS FileAppender, Json, IOUtils
Rec == ndJsonDeserialize(IOEnv.TRACE)
VARIABLE l
Ev == Rec[l]
Is(e) == l <= Len(Rec) /\ Ev.e = e
Adv == l' = l + 1
\* the logged file is run-length encoded (<<thread, record, count>>); it is compared with the specification's disk
\* by index, without building the expanded sequence (a long lifetime makes the file hundreds of units long)
RECURSIVE MatchFrom(_, _, _, _)
MatchFrom(runs, j, off, d) ==
  IF j > Len(runs) THEN off = Len(d)
  ELSE LET r == runs[j] IN
       /\ off + r[3] <= Len(d)
       /\ \A k \in 1..r[3] : d[off + k] = <<r[1], r[2]>>
       /\ MatchFrom(runs, j + 1, off + r[3], d)
SameFile(d, runs) == MatchFrom(runs, 1, 0, d)
TInit == Init /\ l = 1
TReset == /\ Is("reset") /\ Adv
          /\ disk' = (IF AppendMode THEN PreBytes ELSE <<>>) /\ buf' = <<>> /\ holder' = 0
          /\ pc' = [t \in Threads |-> "idle"] /\ cur' = [t \in Threads |-> <<>>] /\ pos' = [t \in Threads |-> 0]
          /\ done' = [t \in Threads |-> 0] /\ acked' = {} /\ failed' = {}
TBegin == Is("begin") /\ Adv /\ Ev.i = done[Ev.t] + 1 /\ Begin(Ev.t, Ev.shape)
\* the previous holder's guard is dropped before anyone else can lock; its "end" event may come later
TLock == /\ Is("lock") /\ Adv
         /\ IF holder = 0 THEN Lock(Ev.t)
            ELSE LET h == holder t == Ev.t IN
                 /\ pc[h] = "unlock" /\ pc[t] = "wantlock" /\ h # t
                 /\ holder' = t
                 /\ done' = [done EXCEPT ![h] = @ + 1] /\ acked' = acked \cup {<<h, done[h] + 1, Sum(cur[h])>>}
                 /\ pc' = [pc EXCEPT ![h] = "idle", ![t] = "encode"]
                 /\ UNCHANGED <<disk, buf, cur, pos, failed>>
TChunk == Is("chunk") /\ Adv /\ pos[Ev.t] < Len(cur[Ev.t]) /\ cur[Ev.t][pos[Ev.t] + 1] = Ev.n /\ Encode(Ev.t)
TEncoded == Is("encoded") /\ Adv /\ pos[Ev.t] = Len(cur[Ev.t]) /\ Encode(Ev.t) /\ SameFile(disk, Ev.file)
TFlushed == Is("flushed") /\ Adv /\ Flush(Ev.t) /\ SameFile(disk', Ev.file)
\* the encoder is about to return an error, after Ev.chunks write calls (logged by the encoder itself, under the lock)
TEncFail == Is("encfail") /\ Adv /\ pos[Ev.t] = Ev.chunks /\ EncodeFail(Ev.t)
TEndFail == /\ Is("end") /\ Adv /\ ~Ev.ok /\ Ev.scripted
            /\ pc[Ev.t] = "idle" /\ done[Ev.t] = Ev.i /\ <<Ev.t, Ev.i>> \in failed /\ UNCHANGED vars
\* the appender has been dropped; the file is read afterwards
TClosed == Is("closed") /\ Adv /\ Close /\ SameFile(disk', Ev.file)
TEnd == /\ Is("end") /\ Adv /\ Ev.ok
        /\ IF holder = Ev.t THEN Unlock(Ev.t) ELSE (pc[Ev.t] = "idle" /\ done[Ev.t] = Ev.i /\ UNCHANGED vars)
\* a reader in the appending thread, after the call returned: the record must be whole in the file
TSaw == Is("saw") /\ Adv /\ Ev.whole /\ <<Ev.t, Ev.i, Ev.units>> \in acked /\ UNCHANGED vars
TNext == TEncFail \/ TEndFail \/ TClosed \/ TReset \/ TBegin \/ TLock \/ TChunk \/ TEncoded \/ TFlushed \/ TEnd \/ TSaw
TSpec == TInit /\ [][TNext]_<<vars, l>>
Accepted == LET d == TLCGet("stats").diameter IN
            IF d - 1 = Len(Rec) THEN TRUE
            ELSE PrintT(<<"TRACE-REJECTED", d, IF d <= Len(Rec) THEN ToJson(Rec[d]) ELSE "end">>) /\ FALSE
=============================================================================

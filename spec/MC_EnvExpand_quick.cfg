CONSTANTS
  Tokens <- TokensDef
  MaxTok = 4
  SetVars <- SetVarsDef
  StartChars <- StartDef
  PartChars <- PartDef
INIT MetaInit
NEXT Next
INVARIANTS ScannerIsMeaning NoRefNoChange Emit
PROPERTIES PrefixStable
CHECK_DEADLOCK FALSE

----------------------------- MODULE MC_Console -----------------------------
EXTENDS Console, Json
RECURSIVE Str(_)
Str(s) == IF s = <<>> THEN "" ELSE Head(s) \o Str(Tail(s))
Emit == PrintT(<<"REPLAY", IF kind = "row" THEN ToJson([kind |-> "row", row |-> row, writes |-> Writes(row), coloured |-> Coloured(row)])
                          ELSE ToJson([kind |-> "style", style |-> style, sgr |-> Str(Sgr(style))])>>)
=============================================================================

CONSTANTS
  Base = 0
  Count = 2
  Roller = "window"
  AppendMode = TRUE
  ReopenTruncates = FALSE
  Trig = "post"
  Limit = 2
  Sizes = {1, 2}
  PreSizes <- PreA
  MaxRec = 5
  MaxFaults = 1
  MaxCrash = 1
  MaxRestart = 1
  MaxObst = 1
  Hist = FALSE
SPECIFICATION Spec
INVARIANTS TypeOK GapFreeSuffix NotLessThanIdeal WindowFaultFree Recovers Outside LenExact SizeBound AtMostOneRoll Emit
CHECK_DEADLOCK FALSE

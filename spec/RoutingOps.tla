------------------------------ MODULE RoutingOps ------------------------------
(* Routing operators over configuration *values*                                *)
(* [root |-> [lvl, apps], loggers |-> [name -> [lvl, add, apps]]], shared by    *)
(* LevelGate.tla and ConfigFile.tla. Same meaning as Routing.tla's operators.   *)
EXTENDS Integers, Sequences, FiniteSets, TLC
ROOT == <<"<root>">>
RECURSIVE SplitAt(_, _, _, _)
SplitAt(s, i, cur, acc) ==
  IF i > Len(s) THEN Append(acc, cur)
  ELSE IF s[i] = ":" /\ i < Len(s) /\ s[i + 1] = ":"
       THEN SplitAt(s, i + 2, <<>>, Append(acc, cur))
       ELSE SplitAt(s, i + 1, Append(cur, s[i]), acc)
Comps(s) == SplitAt(s, 1, <<>>, <<>>)
IsPrefix(p, s) == Len(p) <= Len(s) /\ SubSeq(s, 1, Len(p)) = p
Anc(n, t) == IsPrefix(Comps(n), Comps(t))
Best(S) == CHOOSE n \in S : \A m \in S : Len(Comps(m)) <= Len(Comps(n))
EffName(c, t) == LET S == {n \in DOMAIN c.loggers : Anc(n, t)} IN IF S = {} THEN ROOT ELSE Best(S)
ParentName(c, n) == LET S == {m \in DOMAIN c.loggers : m # n /\ Anc(m, n)} IN IF S = {} THEN ROOT ELSE Best(S)
LvlOf(c, n) == IF n = ROOT THEN c.root.lvl ELSE c.loggers[n].lvl
RECURSIVE Attach(_, _)
Attach(c, n) == IF n = ROOT THEN c.root.apps
                ELSE c.loggers[n].apps \o (IF c.loggers[n].add THEN Attach(c, ParentName(c, n)) ELSE <<>>)
Thr(c, t) == LvlOf(c, EffName(c, t))
Enabled(c, t, L) == Thr(c, t) >= L
SetMax(S) == CHOOSE m \in S : \A x \in S : x <= m
MaxLevel(c) == SetMax({c.root.lvl} \cup {c.loggers[n].lvl : n \in DOMAIN c.loggers})

=============================================================================

CONSTANTS
  Apps = {1, 2, 3}
  Chains <- Chains2
  AttLists <- Att3
INIT MetaInit
NEXT Next
INVARIANTS ChainLaw ShortCircuit HandlerOncePerError FlushOncePerAppender Emit
CHECK_DEADLOCK FALSE

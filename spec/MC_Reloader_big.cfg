CONSTANTS
  Vers = {1, 2}
  Rates = {0, 1, 2}
  MTimes = {1, 2, 3}
  MaxSteps = 8
SPECIFICATION Spec
VIEW NoHistView
INVARIANTS ActiveIsSomeVersion
PROPERTIES AppliesValid KeepsOnBad NoSwapIfUnchanged StopsOnlyOnRateRemoval
CHECK_DEADLOCK FALSE

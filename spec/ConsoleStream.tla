--------------------------- MODULE ConsoleStream ---------------------------
(* Growth beyond the decision table of Console.tla: what several threads and several console appenders  *)
(* put on ONE standard stream.                                                                           *)
(*                                                                                                       *)
(* ConsoleAppender::append is  lock the stream; encode (one write call per piece of the pattern, style   *)
(* requests and resets in between); flush; unlock.  One record on one appender is `Parts` pieces; a      *)
(* thread delivers a record to the appenders of its logger one after the other (Fanout.tla), taking and  *)
(* releasing the stream lock around each.  The lock is the standard stream's own, process-wide lock, so  *)
(* it is shared by every appender on that stream.                                                        *)
(*                                                                                                       *)
(* Whole:        the stream is a sequence of whole records - a piece other than a first piece directly   *)
(*               follows the previous piece of the same record on the same appender, and a first piece   *)
(*               follows a last piece (or starts the stream).  This is what keeps a style request of     *)
(*               one thread from colouring, and a reset from uncolouring, the text of another.           *)
(* ProgramOrder: the pieces of one thread appear in the order it wrote them.                             *)
(*                                                                                                       *)
(* Locked = FALSE is the negative control: the same threads without the lock violate Whole.              *)
EXTENDS Naturals, Sequences, FiniteSets
CONSTANTS Threads,      \* thread ids (positive numbers)
          NRecs,        \* records per thread
          NApps,        \* console appenders on the stream, all attached to the logger
          Parts,        \* pieces per record
          Locked        \* the stream lock is taken around a record
VARIABLES stream,       \* what is on the stream: <<thread, record, appender, piece>>
          holder,       \* 0, or the thread that holds the stream lock
          pos           \* thread -> [r, a, p, held]: the piece it writes next
vars == <<stream, holder, pos>>

Init == /\ stream = <<>> /\ holder = 0
        /\ pos = [t \in Threads |-> [r |-> 1, a |-> 1, p |-> 1, held |-> FALSE]]

Acquire(t) == /\ ~pos[t].held /\ pos[t].r <= NRecs
              /\ (Locked => holder = 0)
              /\ holder' = IF Locked THEN t ELSE holder
              /\ pos' = [pos EXCEPT ![t].held = TRUE]
              /\ UNCHANGED stream
Write(t) == /\ pos[t].held /\ pos[t].p <= Parts
            /\ stream' = Append(stream, <<t, pos[t].r, pos[t].a, pos[t].p>>)
            /\ pos' = [pos EXCEPT ![t].p = @ + 1]
            /\ UNCHANGED holder
Release(t) == /\ pos[t].held /\ pos[t].p = Parts + 1
              /\ holder' = IF Locked THEN 0 ELSE holder
              /\ pos' = [pos EXCEPT ![t] = IF @.a < NApps THEN [r |-> @.r, a |-> @.a + 1, p |-> 1, held |-> FALSE]
                                           ELSE [r |-> @.r + 1, a |-> 1, p |-> 1, held |-> FALSE]]
              /\ UNCHANGED stream
Next == \E t \in Threads : Acquire(t) \/ Write(t) \/ Release(t)
Spec == Init /\ [][Next]_vars

TypeOK == /\ holder \in Threads \cup {0}
          /\ \A t \in Threads : pos[t].r \in 1..NRecs + 1 /\ pos[t].a \in 1..NApps /\ pos[t].p \in 1..Parts + 1
WholeAt(i) == LET e == stream[i] IN
              IF e[4] = 1 THEN i = 1 \/ stream[i - 1][4] = Parts
              ELSE i > 1 /\ stream[i - 1] = <<e[1], e[2], e[3], e[4] - 1>>
Whole == \A i \in 1..Len(stream) : WholeAt(i)
Before(x, y) == \/ x[2] < y[2]
                \/ x[2] = y[2] /\ x[3] < y[3]
                \/ x[2] = y[2] /\ x[3] = y[3] /\ x[4] < y[4]
ProgramOrder == \A i, j \in 1..Len(stream) : (i < j /\ stream[i][1] = stream[j][1]) => Before(stream[i], stream[j])
\* the lock is held by exactly the thread that is in the middle of a record
LockMeansWriting == Locked => \A t \in Threads : pos[t].held <=> holder = t
\* everything is written in the end (checked as a property of the finished state)
Done == \A t \in Threads : pos[t].r = NRecs + 1
Complete == Done => Len(stream) = NRecs * NApps * Parts * Cardinality(Threads)
=============================================================================

CONSTANTS
  Threads = {1, 2, 3, 4}
  NRecs = 30
  NApps = 2
  Parts = 4
  Locked = TRUE
SPECIFICATION TSpec
CONSTRAINT Track
INVARIANTS Whole LockMeansWriting
POSTCONDITION Accepted
CHECK_DEADLOCK FALSE

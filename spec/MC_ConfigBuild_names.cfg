CONSTANTS
  AppSeqs <- EmptySeqSet
  RootRefSeqs <- EmptySeqSet
  LoggerPool = {}
  MaxLoggers = 0
INIT NameInit
NEXT NameNext
INVARIANTS NameLaw NameEmit
CHECK_DEADLOCK FALSE

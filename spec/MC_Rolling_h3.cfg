CONSTANTS
  Base = 0
  Count = 2
  Roller = "window"
  AppendMode = TRUE
  ReopenTruncates = FALSE
  Trig = "size"
  Limit = 2
  Sizes = {1, 3}
  PreSizes <- PreA
  MaxRec = 4
  MaxFaults = 0
  MaxCrash = 0
  MaxRestart = 1
  MaxObst = 0
  Hist = TRUE
SPECIFICATION Spec
INVARIANTS TypeOK GapFreeSuffix NotLessThanIdeal WindowFaultFree Recovers Outside LenExact SizeBound AtMostOneRoll Emit
CHECK_DEADLOCK FALSE

CONSTANTS
  Vers = {1, 2, 3, 4, 5, 6, 7, 8, 9}
  Rates = {0, 10, 20, 30}
  MaxSteps = 100000
  MTimes = {1, 2, 3, 4, 5, 6, 7, 8, 9, 10, 11, 12, 13, 14, 15, 16, 17, 18, 19, 20}
SPECIFICATION TSpec
CONSTRAINT Track
POSTCONDITION Accepted
CHECK_DEADLOCK FALSE

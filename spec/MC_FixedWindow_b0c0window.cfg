CONSTANTS
  Base = 0
  Count = 0
  Kind = "window"
  MaxRolls = 2
  MaxWipes = 0
INIT HInit
NEXT HNext
INVARIANTS WindowLaw ActiveGone OutsideUntouched RemoveOnly NoDup Emit
CHECK_DEADLOCK FALSE

CONSTANTS
  Lvls = {0, 2, 4, 5}
  AppLists <- AppLists3
  NamePool <- Pool4
  Targets <- Targets4
  MaxLoggers = 2
  Comps <- CompsFast
INIT MetaInit
NEXT Next
INVARIANTS MaxLevelExact FacadeNeverHides Emit
CHECK_DEADLOCK FALSE

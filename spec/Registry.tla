------------------------------- MODULE Registry -------------------------------
(***************************************************************************)
(* Growth beyond the listed properties: the deserializer registry              *)
(* (src/config/raw.rs: Deserializers - insert / deserialize / Clone /          *)
(* default / empty).  A registry maps (trait, kind) to a deserializer; traits   *)
(* are name spaces of their own (the kind "size" of a trigger and a kind        *)
(* "size" of an appender do not collide), a later insert for the same           *)
(* (trait, kind) replaces the earlier one, a clone is independent of its        *)
(* original, and looking up an unregistered kind is an error that names the     *)
(* trait - never a panic.                                                       *)
(***************************************************************************)
EXTENDS Integers, Sequences, FiniteSets, TLC
CONSTANTS Traits, Kinds, Ids, MaxOps
Regs == {"orig", "clone"}
VARIABLES reg,       \* Regs -> [Traits \X Kinds -> Ids \cup {0}]   (0 = not registered)
          cloned, hist
vars == <<reg, cloned, hist>>
Empty == [p \in Traits \X Kinds |-> 0]
Init == reg = [r \in Regs |-> Empty] /\ cloned = FALSE /\ hist = <<>>
Insert(r, t, k, i) == /\ Len(hist) < MaxOps /\ (r = "clone" => cloned)
                      /\ reg' = [reg EXCEPT ![r][<<t, k>>] = i]
                      /\ hist' = Append(hist, [op |-> "insert", r |-> r, t |-> t, k |-> k, id |-> i])
                      /\ UNCHANGED cloned
Clone == /\ ~cloned /\ Len(hist) < MaxOps /\ cloned' = TRUE
         /\ reg' = [reg EXCEPT !["clone"] = reg["orig"]]
         /\ hist' = Append(hist, [op |-> "clone"])
Lookup(r, t, k) == /\ Len(hist) < MaxOps /\ (r = "clone" => cloned)
                   /\ hist' = Append(hist, [op |-> "lookup", r |-> r, t |-> t, k |-> k, id |-> reg[r][<<t, k>>]])
                   /\ UNCHANGED <<reg, cloned>>
Next == \/ \E r \in Regs, t \in Traits, k \in Kinds, i \in Ids : Insert(r, t, k, i)
        \/ Clone
        \/ \E r \in Regs, t \in Traits, k \in Kinds : Lookup(r, t, k)
\* a lookup sees the latest insert into the same registry for the same trait and kind (through the clone
\* point), and nothing else
LastInsert(r, t, k, n) ==
  LET idxs == {j \in 1..n : hist[j].op = "insert" /\ hist[j].t = t /\ hist[j].k = k /\
                            (hist[j].r = r \/ (r = "clone" /\ hist[j].r = "orig" /\ \E c \in (j + 1)..n : hist[c].op = "clone"))}
  IN IF idxs = {} THEN 0 ELSE hist[CHOOSE j \in idxs : \A m \in idxs : m <= j].id
LookupLaw == \A n \in 1..Len(hist) : hist[n].op = "lookup" => hist[n].id = LastInsert(hist[n].r, hist[n].t, hist[n].k, n - 1)
=============================================================================

CONSTANTS
  Lvls = {0, 1, 2, 3, 4, 5}
  AppLists <- AppLists4
  NamePool <- Pool6
  Targets <- Targets5
  MaxLoggers = 2
  Comps <- CompsFast
INIT MetaInit
NEXT Next
INVARIANTS TreeRouteEqualsRoute OrderIrrelevant MaxLevelExact FacadeNeverHides Emit
CHECK_DEADLOCK FALSE

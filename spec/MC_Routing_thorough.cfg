CONSTANTS
  Lvls = {0, 1, 3, 5}
  AppLists <- AppLists3
  NamePool <- Pool6
  Targets <- Targets5
  MaxLoggers = 2
  Comps <- CompsFast
INIT MetaInit
NEXT Next
INVARIANTS TreeRouteEqualsRoute OrderIrrelevant MaxLevelExact FacadeNeverHides Emit
CHECK_DEADLOCK FALSE

---------------------------- MODULE MC_Reloader ----------------------------
EXTENDS Reloader, Json
Terminal == steps = MaxSteps \/ ~alive
Emit == Terminal => PrintT(<<"REPLAY", ToJson([ops |-> hist])>>)
NoHistView == <<file, rl, active, rate, alive, swaps, ret, steps, lastPolled>>
============================================================================

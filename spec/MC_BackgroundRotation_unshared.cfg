CONSTANTS
  MaxRolls = 4
  Count = 2
  MaxRestarts = 2
  SharedHandOff = FALSE
SPECIFICATION Spec
INVARIANTS InWindowOrGone
CHECK_DEADLOCK FALSE

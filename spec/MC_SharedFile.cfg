CONSTANTS
  Apps = {1, 2}
  Cap = 4
  Plans <- PlansDef
SPECIFICATION Spec
INVARIANTS Durable PieceOrder SmallWhole NoMore
CHECK_DEADLOCK FALSE

------------------------------ MODULE SharedFile ------------------------------
(***************************************************************************)
(* Growth beyond C04: two file appenders alive on ONE path at the same time,  *)
(* each used by a thread of its own - what a reconfiguration produces while   *)
(* records are still in flight under the old configuration (the new appender  *)
(* is built before the old one is dropped), or two loggers configured with    *)
(* the same file.  Both are opened in append mode: every write call lands, in *)
(* one piece, at the end of the file as it is then (O_APPEND).                *)
(*                                                                           *)
(* Each appender is FileAppender.tla's writer: a BufWriter of Cap units and   *)
(* a flush at the end of every record.  What one write call carries is what   *)
(* BufWriter::write_all decides - a chunk that does not fit the spare room    *)
(* first sends the buffer (one call), a chunk of at least Cap units goes out  *)
(* directly (one call), anything else waits for the flush (one call).         *)
(* Between two calls of one appender the other one may write.                 *)
(*                                                                           *)
(* Durable:     when both are done every record is in the file, all of it.    *)
(* PieceOrder:  the pieces of one appender are in the file in the order it    *)
(*              wrote them.                                                   *)
(* SmallWhole:  a record of fewer than Cap units is one write call, hence one *)
(*              contiguous run - whatever the other appender does.            *)
(* AllWhole is NOT a property: a record of Cap units or more takes several    *)
(* calls and the other appender's pieces can land between them (the negative  *)
(* control configuration shows TLC the counterexample).                       *)
(***************************************************************************)
EXTENDS Integers, Sequences, FiniteSets, TLC
CONSTANTS Apps,        \* appender ids (positive integers)
          Cap,         \* buffer capacity in units
          Plans        \* the plans explored: Apps -> sequence of records, a record = sequence of chunk sizes (units per encoder
                       \* write call)
VARIABLES plan,        \* the plan at hand (never changes within a scenario)
          disk,        \* sequence of <<appender, record>> unit tags
          buf,         \* Apps -> units accepted and not yet written
          pos          \* Apps -> [r, c]: next record, next chunk of it (c = Len + 1: the flush is due)
vars == <<plan, disk, buf, pos>>

RECURSIVE Rep(_, _)
Rep(x, n) == IF n <= 0 THEN <<>> ELSE <<x>> \o Rep(x, n - 1)
RECURSIVE Sum(_)
Sum(s) == IF s = <<>> THEN 0 ELSE Head(s) + Sum(Tail(s))

Init == plan \in Plans /\ disk = <<>> /\ buf = [a \in Apps |-> <<>>] /\ pos = [a \in Apps |-> [r |-> 1, c |-> 1]]
Busy(a) == pos[a].r <= Len(plan[a])
Cur(a) == plan[a][pos[a].r]
\* the encoder's next write call, n units
Chunk(a) == /\ Busy(a) /\ pos[a].c <= Len(Cur(a))
            /\ LET n == Cur(a)[pos[a].c]
                   data == Rep(<<a, pos[a].r>>, n)
                   spare == Cap - Len(buf[a]) IN
               IF n < spare
               THEN buf' = [buf EXCEPT ![a] = @ \o data] /\ UNCHANGED disk /\ pos' = [pos EXCEPT ![a].c = @ + 1]
               ELSE IF n > spare /\ buf[a] # <<>>
               THEN \* the buffer is sent first: one write call; the chunk itself is looked at again afterwards
                    disk' = disk \o buf[a] /\ buf' = [buf EXCEPT ![a] = <<>>] /\ UNCHANGED pos
               ELSE IF n >= Cap
               THEN disk' = disk \o data /\ UNCHANGED buf /\ pos' = [pos EXCEPT ![a].c = @ + 1]
               ELSE buf' = [buf EXCEPT ![a] = @ \o data] /\ UNCHANGED disk /\ pos' = [pos EXCEPT ![a].c = @ + 1]
\* the flush that ends a record: one write call (none if nothing is buffered)
EndRecord(a) == /\ Busy(a) /\ pos[a].c = Len(Cur(a)) + 1
                /\ disk' = disk \o buf[a] /\ buf' = [buf EXCEPT ![a] = <<>>]
                /\ pos' = [pos EXCEPT ![a] = [r |-> @.r + 1, c |-> 1]]
Next == (\E a \in Apps : Chunk(a) \/ EndRecord(a)) /\ UNCHANGED plan
Spec == Init /\ [][Next]_vars

Done == \A a \in Apps : ~Busy(a)
Count(tag) == Cardinality({k \in 1..Len(disk) : disk[k] = tag})
Durable == Done => \A a \in Apps : \A r \in 1..Len(plan[a]) : Count(<<a, r>>) = Sum(plan[a][r])
PieceOrder == \A i, j \in 1..Len(disk) : (i < j /\ disk[i][1] = disk[j][1]) => disk[i][2] <= disk[j][2]
Contiguous(tag) == \A i, j \in 1..Len(disk) : (i < j /\ disk[i] = tag /\ disk[j] = tag) => \A k \in i..j : disk[k] = tag
SmallWhole == \A a \in Apps : \A r \in 1..Len(plan[a]) : Sum(plan[a][r]) < Cap => Contiguous(<<a, r>>)
\* (negative control: does not hold)
AllWhole == \A a \in Apps : \A r \in 1..Len(plan[a]) : Contiguous(<<a, r>>)
\* nothing is written twice or invented
NoMore == \A a \in Apps : \A r \in 1..Len(plan[a]) : Count(<<a, r>>) <= Sum(plan[a][r])
=============================================================================

--------------------------- MODULE MC_FieldWidths ---------------------------
EXTENDS FieldWidths, Json, TLC
RECURSIVE Str(_)
Str(s) == IF s = <<>> THEN "" ELSE Head(s) \o Str(Tail(s))
Emit == PrintT(<<"REPLAY", ToJson([field |-> field, value |-> Str(value), spec |-> spec, expected |-> Str(Expected)])>>)
=============================================================================

SPECIFICATION FairSpec
CONSTANTS
  Vers = {1, 2}
  Rates = {0, 1, 2}
  MTimes = {1, 2, 3, 4}
  MaxEdits = 5
  MaxPolls = 0
  Hist = FALSE
  Forge = FALSE
  BootOrder = "stat_read"
INVARIANTS TypeOK SrcIsActive
PROPERTIES SwapOnlyOnChange KeepsOnBad StopsOnlyOnRateRemoval Converges BadKeeps LoopReturns
CHECK_DEADLOCK FALSE

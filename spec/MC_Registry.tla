----------------------------- MODULE MC_Registry -----------------------------
EXTENDS Registry, Json
Terminal == Len(hist) = MaxOps
Emit == Terminal => PrintT(<<"REPLAY", ToJson([ops |-> hist])>>)
=============================================================================

----------------------------- MODULE TimeTrigger -----------------------------
(***************************************************************************)
(* The time trigger (trigger/time.rs: TimeTrigger::new, get_next_time,        *)
(* Trigger::trigger).  Instants are local wall-clock pairs (day number since  *)
(* 1970-01-01, second of day), so TLC's 32-bit integers suffice; the          *)
(* proleptic Gregorian calendar (days-from-civil and its inverse, weekday,    *)
(* ordinal, ISO week) is defined here.  NextTime is the schedule: start of    *)
(* the current unit + n units, or with modulation the next multiple of n      *)
(* counted from the start of the enclosing period (year 0 for years, January  *)
(* for months, ISO week 1 for weeks, January 1st for days, 0 for hours,       *)
(* minutes, seconds) - which may run past the end of that period, as the code *)
(* does.  The arithmetic is wall-clock arithmetic: it is what the property    *)
(* demands wherever the zone's UTC offset is the same at both ends; the       *)
(* harness decides that per zone and instant.                                 *)
(***************************************************************************)
EXTENDS Integers, Sequences, TLC
IsLeap(y) == (y % 4 = 0 /\ y % 100 # 0) \/ y % 400 = 0
Dim(y, m) == CASE m \in {1,3,5,7,8,10,12} -> 31 [] m \in {4,6,9,11} -> 30 [] OTHER -> IF IsLeap(y) THEN 29 ELSE 28
\* days from civil (Hinnant), day 0 = 1970-01-01
Dfc(y0, m, d) == LET y == IF m <= 2 THEN y0 - 1 ELSE y0
                     era == (IF y >= 0 THEN y ELSE y - 399) \div 400
                     yoe == y - era * 400
                     mp == (m + 9) % 12
                     doy == ((153 * mp + 2) \div 5) + d - 1
                     doe == yoe * 365 + (yoe \div 4) - (yoe \div 100) + doy
                 IN era * 146097 + doe - 719468
Cfd(z0) == LET z == z0 + 719468
               era == (IF z >= 0 THEN z ELSE z - 146096) \div 146097
               doe == z - era * 146097
               yoe == (doe - (doe \div 1460) + (doe \div 36524) - (doe \div 146096)) \div 365
               doy == doe - (365 * yoe + (yoe \div 4) - (yoe \div 100))
               mp == (5 * doy + 2) \div 153
               d == doy - ((153 * mp + 2) \div 5) + 1
               m == IF mp < 10 THEN mp + 3 ELSE mp - 9
               y == yoe + era * 400 + (IF m <= 2 THEN 1 ELSE 0)
           IN [y |-> y, m |-> m, d |-> d]
Weekday(z) == (z + 3) % 7                      \* 0 = Monday (1970-01-01 was a Thursday)
Ordinal0(z) == LET c == Cfd(z) IN z - Dfc(c.y, 1, 1)
\* ISO week: week containing the year's first Thursday is week 1
IsoWeek0(z) == LET thu == z - Weekday(z) + 3                    \* Thursday of this ISO week
                   y == Cfd(thu).y
               IN (thu - Dfc(y, 1, 1)) \div 7
Inst(z, s) == [z |-> z, s |-> s]
Norm(z, s) == Inst(z + (s \div 86400), s % 86400)
Lt(a, b) == a.z < b.z \/ (a.z = b.z /\ a.s < b.s)

NextTime(now, unit, n, mod) ==
  LET c == Cfd(now.z) h == (now.s \div 3600) mi == ((now.s % 3600) \div 60) sec == now.s % 60 IN
  CASE unit = "year"   -> LET inc == IF mod THEN n - (c.y % n) ELSE n IN Inst(Dfc(c.y + inc, 1, 1), 0)
    [] unit = "month"  -> LET m0 == c.m - 1 inc == IF mod THEN n - (m0 % n) ELSE n
                              t == c.y * 12 + m0 + inc IN Inst(Dfc(t \div 12, (t % 12) + 1, 1), 0)
    [] unit = "week"   -> LET inc == IF mod THEN n - (IsoWeek0(now.z) % n) ELSE n IN Inst(now.z + 7 * inc - Weekday(now.z), 0)
    [] unit = "day"    -> LET inc == IF mod THEN n - (Ordinal0(now.z) % n) ELSE n IN Inst(now.z + inc, 0)
    [] unit = "hour"   -> LET inc == IF mod THEN n - (h % n) ELSE n IN Norm(now.z, (h + inc) * 3600)
    [] unit = "minute" -> LET inc == IF mod THEN n - (mi % n) ELSE n IN Norm(now.z, h * 3600 + (mi + inc) * 60)
    [] unit = "second" -> LET inc == IF mod THEN n - (sec % n) ELSE n IN Norm(now.z, now.s + inc)


\* The same schedule for intervals of hours / minutes / seconds whose count does not fit TLC's 32-bit integers once it
\* is turned into seconds (the deserializer admits up to 1000 years: 31 557 600 000 seconds): the count is given as
\* n = q * K + r with K units per day (24, 1440, 86400) and 0 <= r < K; n exceeds every position inside the enclosing
\* period, so "n - (pos % n)" is n - pos.
NextTimeBig(now, unit, q, r, mod) ==
  LET h == (now.s \div 3600) mi == ((now.s % 3600) \div 60) sec == now.s % 60 IN
  CASE unit = "hour"   -> Norm(now.z + q, (IF mod THEN 0 ELSE h * 3600) + r * 3600)
    [] unit = "minute" -> Norm(now.z + q, h * 3600 + (IF mod THEN 0 ELSE mi * 60) + r * 60)
    [] unit = "second" -> Norm(now.z + q, now.s - (IF mod THEN sec ELSE 0) + r)

Units == {"year", "month", "week", "day", "hour", "minute", "second"}
Le(a, b) == ~Lt(b, a)
AddSecs(a, k) == Norm(a.z + (k \div 86400), a.s + (k % 86400))

\* ---------------------------------------------------------------- the trigger as a machine
CONSTANTS Starts, Configs, Deltas, MaxArrivals
VARIABLES now, cfg, next, hist, phase
vars == <<now, cfg, next, hist, phase>>
Init == now \in Starts /\ cfg \in Configs /\ next = now /\ hist = <<>> /\ phase = "new"
\* TimeTrigger::new: schedule from the current instant
New == /\ phase = "new" /\ next' = NextTime(now, cfg.unit, cfg.n, cfg.mod) /\ phase' = "run"
       /\ hist' = <<[op |-> "new", now |-> now, sched |-> next']>> /\ UNCHANGED <<now, cfg>>
\* a record arrives dt seconds later: fire iff the scheduled instant has been reached, then reschedule from now.
\* `Le(next, t)` is an order on instants.  In the fixed-offset zones of the histories it coincides with the order of
\* wall-clock readings; where a zone repeats an hour it does not, and the instants decide: the replay walks arrivals
\* through the repeated hour of every DST zone and compares each firing with the scheduled instant it reads before.
Arrive == /\ phase = "run" /\ Len(hist) <= MaxArrivals
          /\ \E dt \in Deltas :
               LET t == AddSecs(now, dt)
                   fire == Le(next, t)
                   nx == IF fire THEN NextTime(t, cfg.unit, cfg.n, cfg.mod) ELSE next
               IN /\ now' = t /\ next' = nx
                  /\ hist' = Append(hist, [op |-> "arrive", now |-> t, fire |-> fire, sched |-> nx])
          /\ UNCHANGED <<cfg, phase>>
Next == New \/ Arrive
\* the schedule is always strictly in the future of the instant it was computed at
StrictlyFuture == phase = "run" => Lt(now, next)
\* a boundary fires once: right after a firing the same instant does not fire again
OncePerBoundary == [][(phase = "run" /\ phase' = "run" /\ hist'[Len(hist')].fire) => Lt(now', next')]_vars
\* rescheduling starts from the arrival instant, never from the stale schedule: the new schedule is the
\* first boundary after now', so no boundary between now' and next' is skipped and none is in the past
RescheduleFromNow == [][(phase = "run" /\ phase' = "run" /\ hist'[Len(hist')].fire) => next' = NextTime(now', cfg.unit, cfg.n, cfg.mod)]_vars
\* (Instants here are whole seconds.  A real arrival lies somewhere inside its second; boundaries are whole seconds, so
\* Fires and NextTime do not depend on where: the last nanosecond before a boundary is before it.  The replay places
\* every arrival at a fraction of its second - 0, 1 ns, the middle, the last half millisecond, the last nanosecond.)
=============================================================================

CONSTANTS
  Threads = {1, 2, 3}
  Cap = 4
  Pre = 2
  AppendMode = TRUE
SPECIFICATION TSpec
INVARIANTS Durable NotInterleaved ThreadOrder PrefixKept TruncatedAtOpen WholeExceptHolder NoDupNoLoss FailedNotAcked
POSTCONDITION Accepted
CHECK_DEADLOCK FALSE

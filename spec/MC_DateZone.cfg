CONSTANTS
  MaxForks = 0
  Zones = {"UTC0", "JST-9", "IST-5:30", "NST3:30"}
  Kinds = {"plain", "default", "local", "utc"}
  MaxOps = 5
SPECIFICATION Spec
INVARIANTS UtcFixed LocalCurrent PidCurrent Emit
CHECK_DEADLOCK FALSE

------------------------------- MODULE Rolling -------------------------------
(***************************************************************************)
(* RollingFileAppender::append + CompoundPolicy::process + the rollers       *)
(* (src/append/rolling_file/mod.rs, policy/compound/mod.rs,                  *)
(* roll/fixed_window.rs, roll/delete.rs, trigger/{size,onstartup,time}.rs)   *)
(* as a step machine over a directory, with per-step faults, obstacles,      *)
(* process death between steps, and restarts.                                *)
(*                                                                         *)
(* One append is the action sequence                                         *)
(*   Start -> GetWriter1 -> [PreTrig -> (RotStep)* -> GetWriter2] -> Write   *)
(*         -> [PostTrig -> (RotStep)*] -> Ack                                *)
(* all under the appender's mutex (appends are therefore sequential; the     *)
(* concurrent case is bound to this specification by trace validation, see   *)
(* Trace_Rolling.tla).  Records are [id, sz]; file contents are sequences of *)
(* records; sizes are in abstract units (the harness scales them around the  *)
(* limit and the 1 KiB buffer).                                              *)
(***************************************************************************)
EXTENDS Integers, Sequences, FiniteSets, TLC, FsOps

CONSTANTS Base, Count,        \* fixed window b, c
          Roller,             \* "window" | "delete" | "noop" (a user-defined roller that returns Ok and leaves the file where it is)
          AppendMode,         \* TRUE = append, FALSE = truncate
          ReopenTruncates,    \* TRUE = the truncate-mode reopen after a failed roll truncates again
                              \* (the defect F5 of the original code); FALSE = truncate only at build
          Trig,               \* "size" | "startup" | "pre" | "post"  ("pre" also stands for the time trigger)
          Limit,              \* size limit / on-start-up min_size, in units
          Sizes,              \* record sizes
          PreArch,            \* archives found at first build: a set of subsets of the window (each member holds one old record)
          PreSizes,           \* size of the content found at first build: -1 = no file, 0 = empty file, n
          MaxRec, MaxFaults, MaxCrash, MaxRestart, MaxObst,
          MaxEncFail,         \* encoder failures (the encoder writes part of the record, then returns an error)
          OsFail,             \* TRUE: records are handed to the file in one write call each, which the operating system may cut short
          Gz,                 \* the archive pattern ends in .gz: the final step of a rotation compresses instead of renaming
          MaxOverlap,         \* reconfigurations: a successor appender built while its predecessor is alive
          DirObst,            \* TRUE: the obstacle "the directory of the archives cannot be reached" is explored (it is a symbolic
                              \* link whose target has gone away: an unmounted volume, a moved directory)
          ActFull,            \* TRUE: the active path is a name that cannot be written (a device or file system without
                              \* space): it opens, it is empty, and every write to it fails with "no space left"
          BufFloor,           \* whole units that fit into the 1 KiB BufWriter (2 for 400-byte units, 64 and more for small ones)
          Hist                \* TRUE = carry the operation history (replay emission)

VARIABLES disk,      \* [act |-> entry, arch |-> [Idx -> entry], gone |-> BOOLEAN]
          writer,    \* [open |-> BOOLEAN, len |-> Nat, buf |-> records accepted but not flushed]   (LogWriter: BufWriter + len)
          pc, cur, ri, after,
          used,      \* on-start-up trigger consumed in this lifetime
          W,         \* the stream of records written so far (minus by-design truncation)
          acked, nextId,
          fault,     \* armed step fault: [k |-> "none"|"shift"|"final"|"remove", i |-> index]
          nFaults, nCrash, nRestart, nObst, nEnc, nOverlap,
          ref, refAct,   \* shadow: the same appends with atomic fault-free rotations (newest chunk first)
          rolls,     \* rotations requested in this lifetime (C17)
          res,       \* result of the last append: "ok" | "err" | "none"
          hist

vars == <<disk, writer, pc, cur, ri, after, used, W, acked, nextId, fault, nFaults, nCrash, nRestart, nObst, nEnc, nOverlap,
          ref, refAct, rolls, res, hist>>

IsWindow == Roller = "window" /\ Count > 0
Idx == Base .. (Base + Count)          \* one name beyond the window, to see it untouched
Window == Base .. (Base + Count - 1)
NoFault == [k |-> "none", i |-> 0]
Closed == [open |-> FALSE, len |-> 0, buf |-> <<>>]
RECURSIVE SumSz(_)
SumSz(s) == IF s = <<>> THEN 0 ELSE Head(s).sz + SumSz(Tail(s))
Size(f) == SumSz(f.d)
Pre == Trig \in {"pre", "startup"}

RECURSIVE ConcatDesc(_)
ConcatDesc(i) == \* archives from index i down to Base: oldest first
  IF ~IsWindow \/ i < Base THEN <<>>
  ELSE (IF disk.arch[i].k = "file" THEN disk.arch[i].d ELSE <<>>) \o ConcatDesc(i - 1)
Stream == ConcatDesc(Base + Count) \o (IF disk.act.k = "file" THEN disk.act.d ELSE <<>>)
RECURSIVE Flat(_)
Flat(chunks) == IF chunks = <<>> THEN <<>> ELSE Flat(Tail(chunks)) \o Head(chunks)
RefStream == Flat(ref) \o refAct
IsSuffix(s, t) == Len(s) <= Len(t) /\ SubSeq(t, Len(t) - Len(s) + 1, Len(t)) = s
RECURSIVE ArchList(_)
ArchList(i) == \* files in the window, newest (lowest index) first
  IF ~IsWindow \/ i > Base + Count - 1 THEN <<>>
  ELSE (IF disk.arch[i].k = "file" THEN <<disk.arch[i].d>> ELSE <<>>) \o ArchList(i + 1)

\* the window by position, newest first, up to the highest occupied index; a hole (left behind by a failed
\* rotation) is an empty chunk: the shadow shifts it along like the roller does, instead of closing it
HighestUsed == IF \E i \in Window : disk.arch[i].k = "file" THEN CHOOSE i \in Window : disk.arch[i].k = "file" /\ \A j \in Window : disk.arch[j].k = "file" => j <= i
               ELSE Base - 1
ArchPos == IF ~IsWindow THEN <<>>
           ELSE [j \in 1..(HighestUsed - Base + 1) |-> IF disk.arch[Base + j - 1].k = "file" THEN disk.arch[Base + j - 1].d ELSE <<>>]

\* record ids of a file as a reader sees them: a torn part directly followed by its kept remainder is the whole record
RECURSIVE Merge(_)
Merge(d) == IF d = <<>> THEN <<>>
            ELSE IF Len(d) >= 2 /\ d[1].id >= 100000 /\ d[1].id < 200000 /\ d[2].id = d[1].id + 100000
                 THEN <<d[1].id - 100000>> \o Merge(SubSeq(d, 3, Len(d)))
                 ELSE <<d[1].id>> \o Merge(Tail(d))
Snap == [act |-> [k |-> disk.act.k, d |-> Merge(disk.act.d)],
         arch |-> [x \in Idx |-> [k |-> disk.arch[x].k, d |-> Merge(disk.arch[x].d)]]]
Log(e) == IF Hist THEN Append(hist, e) ELSE hist

NoPreArch == {{}}
AnyPreArch == SUBSET Window
\* old records in archives that exist before the first build: index i holds the record with id -(i - Base + 1)
OldRec(i) == [id |-> 0 - (i - Base + 1), sz |-> 1]
RECURSIVE OldStream(_, _)
OldStream(S, i) == IF i < Base THEN <<>> ELSE (IF i \in S THEN <<OldRec(i)>> ELSE <<>>) \o OldStream(S, i - 1)
Init ==
  /\ \E p \in (IF ActFull THEN {0} ELSE PreSizes), S \in PreArch :
       /\ disk = [act |-> IF ActFull THEN Full ELSE IF p < 0 THEN Absent ELSE IF p = 0 THEN File(<<>>) ELSE File(<<[id |-> 0, sz |-> p]>>),
                  arch |-> [i \in Idx |-> IF i \in S THEN File(<<OldRec(i)>>) ELSE Absent],
                  gone |-> FALSE]      \* gone: the archives are all still there, but their directory cannot be reached
       /\ W = OldStream(S, Base + Count) \o (IF p > 0 THEN <<[id |-> 0, sz |-> p]>> ELSE <<>>)
       /\ refAct = IF p > 0 THEN <<[id |-> 0, sz |-> p]>> ELSE <<>>
       /\ hist = IF Hist THEN <<[op |-> "pre", sz |-> p, full |-> ActFull, arch |-> [i \in Idx |-> i \in S]]>> ELSE <<>>
  /\ ref = ArchPos
  /\ writer = Closed
  /\ pc = "down" /\ cur = [id |-> 0, sz |-> 0] /\ ri = 0 /\ after = "none"
  /\ used = FALSE /\ acked = {} /\ nextId = 1
  /\ fault = NoFault /\ nFaults = 0 /\ nCrash = 0 /\ nRestart = 0 /\ nObst = 0 /\ nEnc = 0 /\ nOverlap = 0
  /\ rolls = 0 /\ res = "none"

\* get_writer(): open the active file if the writer is None.  `truncate` says whether this open
\* truncates; a non-truncating open seeds len from the file's metadata.
OpenEffect(truncate) ==
  IF writer.open THEN UNCHANGED <<disk, writer, W>>
  ELSE IF disk.act.k = "full"      \* it opens (with or without truncation) and its size is 0
       THEN writer' = [open |-> TRUE, len |-> 0, buf |-> <<>>] /\ UNCHANGED <<disk, W>>
  ELSE IF truncate
       THEN /\ disk' = [disk EXCEPT !.act = File(<<>>)]
            /\ writer' = [open |-> TRUE, len |-> 0, buf |-> <<>>]
            /\ W' = SubSeq(W, 1, Len(W) - Len(disk.act.d))      \* discarded by truncation
       ELSE /\ disk' = [disk EXCEPT !.act = File(disk.act.d)]    \* create(true)
            /\ writer' = [open |-> TRUE, len |-> Size(disk.act), buf |-> <<>>]
            /\ UNCHANGED W

\* RollingFileAppenderBuilder::build: "open the log file immediately"
Build ==
  /\ pc = "down"
  /\ OpenEffect(~AppendMode)
  /\ used' = FALSE /\ rolls' = 0 /\ pc' = "idle" /\ res' = "none"
  \* truncation at build discards the active content by design; the shadow restarts from the disk (by position)
  /\ IF ~AppendMode THEN refAct' = <<>> /\ ref' = ArchPos ELSE UNCHANGED <<ref, refAct>>
  /\ hist' = Log([op |-> "build", disk |-> Snap'])
  /\ UNCHANGED <<cur, ri, after, acked, nextId, fault, nFaults, nCrash, nRestart, nObst, nEnc, nOverlap>>

Start(sz) ==
  /\ pc = "idle" /\ nextId <= MaxRec
  /\ cur' = [id |-> nextId, sz |-> sz] /\ nextId' = nextId + 1
  /\ pc' = "gw1" /\ res' = "none"
  /\ UNCHANGED <<disk, writer, ri, after, used, W, acked, fault, nFaults, nCrash, nRestart, nObst, nEnc, nOverlap, ref, refAct, rolls, hist>>

GetWriter1 ==
  /\ pc = "gw1"
  /\ OpenEffect(~AppendMode /\ ReopenTruncates)
  /\ pc' = IF Pre THEN "pretrig" ELSE "write"
  /\ UNCHANGED <<cur, ri, after, used, acked, nextId, fault, nFaults, nCrash, nRestart, nObst, nEnc, nOverlap, ref, refAct, rolls, res, hist>>

\* the real triggers; the scripted ones ("pre", "post") fire where TLC says
Fires(len) == CASE Trig = "size"    -> len > Limit
                [] Trig = "startup" -> ~used /\ len >= Limit
                [] OTHER            -> FALSE

\* dropping the BufWriter writes what it still holds (the part of a record whose encoder failed)
Flushed(d) == IF writer.buf = <<>> THEN d ELSE [d EXCEPT !.act.d = @ \o writer.buf]
\* LogFile::roll() closes the writer (flushing), then the roller starts.  Between the two the file is still at its path
\* with all its bytes - Size(Flushed(disk).act), which is writer.len by LenExact - and that is still the size a policy
\* is shown if it looks again (the replay's own policy does, in one materialisation).
BeginRoll(nextpc) ==
  /\ writer' = Closed
  /\ disk' = Flushed(disk) /\ W' = W \o writer.buf
  /\ after' = nextpc
  /\ rolls' = rolls + 1
  /\ IF IsWindow THEN pc' = "rot" /\ ri' = Base + Count - 2 ELSE pc' = "remove" /\ UNCHANGED ri
  /\ ref' = IF ~IsWindow THEN <<>>        \* (for "noop" the shadow is the delete roller: nothing is owed)
            ELSE SubSeq(<<refAct \o writer.buf>> \o ref, 1, IF Len(ref) + 1 > Count THEN Count ELSE Len(ref) + 1)
  /\ refAct' = <<>>

Decision(f) == hist' = IF Hist /\ Trig \in {"pre", "post"} THEN Append(hist, [op |-> "decide", fire |-> f]) ELSE hist

PreTrig ==
  /\ pc = "pretrig"
  /\ used' = (used \/ Trig = "startup")
  /\ \E f \in (IF Trig = "pre" THEN BOOLEAN ELSE {Fires(writer.len)}) :
       /\ Decision(f)
       /\ IF f THEN BeginRoll("gw2")
          ELSE pc' = "gw2" /\ UNCHANGED <<writer, after, ri, ref, refAct, rolls, disk, W>>
  /\ UNCHANGED <<cur, acked, nextId, fault, nFaults, nCrash, nRestart, nObst, nEnc, nOverlap, res>>

\* the failing step changes nothing on disk
Fail == /\ pc' = "idle" /\ res' = "err"
        /\ hist' = Log([op |-> "append", id |-> cur.id, sz |-> cur.sz, res |-> "err", disk |-> Snap])

\* one filesystem step of the roller; an armed fault or an obstacle makes exactly this step fail
RotStep ==
  /\ pc \in {"rot", "remove"}
  /\ IF pc = "remove"
     THEN IF fault.k = "remove"
          THEN fault' = NoFault /\ Fail /\ UNCHANGED <<disk, ri>>
          ELSE /\ disk' = IF Roller = "noop" THEN disk ELSE [disk EXCEPT !.act = Absent]
               /\ pc' = after
               /\ UNCHANGED <<fault, res, ri, hist>>
     ELSE IF disk.gone          \* the roller begins by making sure the directory exists: that fails, nothing has moved
     THEN Fail /\ UNCHANGED <<disk, ri, fault>>
     ELSE IF ri >= Base
     THEN IF fault.k = "shift" /\ fault.i = ri
          THEN fault' = NoFault /\ Fail /\ UNCHANGED <<disk, ri>>
          ELSE LET m == Move(disk.arch[ri], disk.arch[ri + 1]) IN
               IF m.ok THEN /\ disk' = [disk EXCEPT !.arch[ri] = m.src, !.arch[ri + 1] = m.dst]
                            /\ ri' = ri - 1 /\ UNCHANGED <<pc, fault, res, hist>>
               ELSE Fail /\ UNCHANGED <<disk, ri, fault>>
     ELSE IF fault.k = "final"
          THEN fault' = NoFault /\ Fail /\ UNCHANGED <<disk, ri>>
          ELSE LET m == IF Gz THEN Compress(disk.act, disk.arch[Base]) ELSE Move(disk.act, disk.arch[Base]) IN
               IF m.ok THEN /\ disk' = [disk EXCEPT !.act = m.src, !.arch[Base] = m.dst]
                            /\ pc' = after /\ UNCHANGED <<ri, fault, res, hist>>
               ELSE Fail /\ UNCHANGED <<disk, ri, fault>>
  /\ UNCHANGED <<writer, cur, after, used, W, acked, nextId, nFaults, nCrash, nRestart, nObst, nEnc, nOverlap, ref, refAct, rolls>>

GetWriter2 ==
  /\ pc = "gw2"
  /\ OpenEffect(~AppendMode /\ ReopenTruncates)
  /\ pc' = "write"
  /\ UNCHANGED <<cur, ri, after, used, acked, nextId, fault, nFaults, nCrash, nRestart, nObst, nEnc, nOverlap, ref, refAct, rolls, res, hist>>

\* encode + flush: the record reaches the file whole
\* (a record that encodes to zero bytes leaves no trace in any file; it still goes through the triggers)
Write ==
  /\ pc = "write" /\ disk.act.k # "full"
  /\ LET new == writer.buf \o (IF cur.sz = 0 THEN <<>> ELSE <<cur>>) IN
       /\ disk' = IF new = <<>> THEN disk ELSE [disk EXCEPT !.act.d = @ \o new]
       /\ W' = W \o new
       /\ refAct' = refAct \o new
  /\ writer' = [writer EXCEPT !.len = @ + cur.sz, !.buf = <<>>]
  /\ pc' = IF Pre THEN "ack" ELSE "posttrig"
  /\ UNCHANGED <<cur, ri, after, used, acked, nextId, fault, nFaults, nCrash, nRestart, nObst, nEnc, nOverlap, ref, rolls, res, hist>>

\* the encoder writes k units of the record in one write call and then fails (a user-defined Encode, or a
\* formatter's error): append returns the error at once - no flush, no policy.  What was accepted is counted in len.
\* Where it is depends on the BufWriter (capacity 1 KiB = BufFloor whole units and a fraction): a write that does not
\* fit into the spare room flushes the buffer first, a write of at least the capacity goes to the file directly,
\* anything else stays in the buffer until the next flush (the next record, a rotation, the drop of the appender);
\* process death loses the buffer.  The part is itself a well-formed record [id, k], so that files stay parseable;
\* k = cur.sz is "everything written, then Err".
\* os = TRUE: it is not the encoder that fails but the file: the encoder hands the whole record over in one write call
\* that is at least as large as the BufWriter (so it goes to the file directly, after whatever was buffered), and the
\* operating system takes only k units of it (disk quota, file size limit).  write_all offers the remainder again: if
\* that is smaller than the BufWriter it is buffered without touching the file, the flush then fails, append returns
\* the error - and the BufWriter keeps the remainder and completes the record with the next flush; if it is not
\* smaller it goes to the file directly, fails, and only the torn part exists.  Everything the writer accepted is
\* counted.  On disk the torn part is written as id + 100000 and the kept remainder as id + 200000; next to each other
\* they are the whole record (Merge).
\* The active path cannot be written (ActFull).  The record fits into the BufWriter and is accepted there (and
\* counted); the flush fails with "no space left", append returns that error at once: no policy is consulted, so
\* nothing is rolled, and the directory stays exactly as it is.  The BufWriter keeps what it holds and offers it
\* again with the next flush, which fails the same way; when the appender is dropped it is lost - it was never
\* acknowledged.  (Instances keep the records small enough for the buffer: BufFloor bounds their total.)
WriteNoSpace ==
  /\ pc = "write" /\ disk.act.k = "full"
  /\ SumSz(writer.buf) + cur.sz <= BufFloor
  /\ writer' = [writer EXCEPT !.len = @ + cur.sz, !.buf = IF cur.sz = 0 THEN @ ELSE Append(@, cur)]
  /\ nEnc' = nEnc + 1
  /\ pc' = "idle" /\ res' = "err"
  /\ hist' = Log([op |-> "append", id |-> cur.id, sz |-> cur.sz, res |-> "nospace", disk |-> Snap])
  /\ UNCHANGED <<disk, W, refAct, cur, ri, after, used, acked, nextId, fault, nFaults, nCrash, nRestart, nObst, nOverlap, ref, rolls>>

EncFail(k, os) ==
  /\ pc = "write" /\ disk.act.k # "full" /\ nEnc < MaxEncFail /\ k <= cur.sz
  /\ os => (OsFail /\ cur.sz > BufFloor /\ k >= 1 /\ k < cur.sz)
  /\ nEnc' = nEnc + 1
  /\ IF os
     THEN LET torn == [id |-> cur.id + 100000, sz |-> k]
              tailKept == cur.sz - k <= BufFloor
              toDisk == writer.buf \o <<torn>>
          IN /\ writer' = [writer EXCEPT !.len = @ + (IF tailKept THEN cur.sz ELSE k),
                                           !.buf = IF tailKept THEN <<[id |-> cur.id + 200000, sz |-> cur.sz - k]>> ELSE <<>>]
             /\ disk' = [disk EXCEPT !.act.d = @ \o toDisk]
             /\ W' = W \o toDisk /\ refAct' = refAct \o toDisk
     ELSE LET part == [id |-> cur.id, sz |-> k]
              flushFirst == k + SumSz(writer.buf) > BufFloor
              direct == k > BufFloor
              kept == IF flushFirst THEN <<>> ELSE writer.buf
              toDisk == (IF flushFirst THEN writer.buf ELSE <<>>) \o (IF direct THEN <<part>> ELSE <<>>)
          IN /\ writer' = [writer EXCEPT !.len = @ + k, !.buf = IF direct \/ k = 0 THEN kept ELSE Append(kept, part)]
             /\ disk' = IF toDisk = <<>> THEN disk ELSE [disk EXCEPT !.act.d = @ \o toDisk]
             /\ W' = W \o toDisk /\ refAct' = refAct \o toDisk
  /\ pc' = "idle" /\ res' = "err"
  /\ hist' = Log([op |-> "append", id |-> cur.id, sz |-> cur.sz, res |-> "encfail", part |-> k, os |-> os,
                  buffered |-> SumSz(writer'.buf), disk |-> Snap'])
  /\ UNCHANGED <<cur, ri, after, used, acked, nextId, fault, nFaults, nCrash, nRestart, nObst, nOverlap, ref, rolls>>

PostTrig ==
  /\ pc = "posttrig"
  /\ \E f \in (IF Trig = "post" THEN BOOLEAN ELSE {Fires(writer.len)}) :
       /\ Decision(f)
       /\ IF f THEN BeginRoll("ack")
          ELSE pc' = "ack" /\ UNCHANGED <<writer, after, ri, ref, refAct, rolls, disk, W>>
  /\ UNCHANGED <<cur, used, acked, nextId, fault, nFaults, nCrash, nRestart, nObst, nEnc, nOverlap, res>>

Ack ==
  /\ pc = "ack"
  /\ acked' = acked \cup {cur.id} /\ res' = "ok" /\ pc' = "idle"
  /\ hist' = Log([op |-> "append", id |-> cur.id, sz |-> cur.sz, res |-> "ok", disk |-> Snap])
  /\ UNCHANGED <<disk, writer, cur, ri, after, used, W, nextId, fault, nFaults, nCrash, nRestart, nObst, nEnc, nOverlap, ref, refAct, rolls>>

\* A reconfiguration: a second appender for the same path is built while this one is alive (the new configuration
\* is built first, then swapped in).  This one acknowledges one more record - its trigger does not fire -, is
\* dropped, and the second one carries on.  The second one opened the file before that record was written: in
\* append mode it writes at the end of the file as it is at the time of the write, but its size estimate starts from
\* the size it saw when it opened (the documentation says as much: the estimate "may be inaccurate if another
\* process has modified the file"), so exact accounting (C06) is claimed for histories without an overlap only.
Overlap(sz) ==
  /\ pc = "idle" /\ disk.act.k = "file" /\ AppendMode /\ writer.open /\ writer.buf = <<>> /\ fault = NoFault
  /\ nOverlap < MaxOverlap /\ nextId <= MaxRec /\ sz > 0
  /\ CASE Trig = "size" -> writer.len + sz <= Limit
       [] Trig = "startup" -> used
       [] OTHER -> TRUE
  /\ LET rec == [id |-> nextId, sz |-> sz] IN
       /\ disk' = [disk EXCEPT !.act.d = Append(@, rec)]
       /\ W' = Append(W, rec) /\ refAct' = Append(refAct, rec)
       /\ acked' = acked \cup {nextId} /\ nextId' = nextId + 1
       /\ writer' = [open |-> TRUE, len |-> Size(disk.act), buf |-> <<>>]
       /\ hist' = IF ~Hist THEN hist
                  ELSE (IF Trig \in {"pre", "post"} THEN Append(hist, [op |-> "decide", fire |-> FALSE]) ELSE hist)
                       \o <<[op |-> "overlap", id |-> nextId, sz |-> sz, disk |-> Snap']>>
  /\ used' = FALSE /\ rolls' = 0 /\ nOverlap' = nOverlap + 1 /\ res' = "ok"
  /\ UNCHANGED <<pc, cur, ri, after, fault, nFaults, nCrash, nRestart, nObst, nEnc, ref>>

ArmFault ==
  /\ pc = "idle" /\ fault = NoFault /\ nFaults < MaxFaults /\ nextId <= MaxRec
  /\ \E f \in (IF IsWindow THEN {[k |-> "shift", i |-> x] : x \in Base .. (Base + Count - 2)} \cup {[k |-> "final", i |-> Base]}
               ELSE {[k |-> "remove", i |-> 0]}) :
       fault' = f /\ hist' = Log([op |-> "arm", k |-> f.k, i |-> f.i])
  /\ nFaults' = nFaults + 1
  /\ UNCHANGED <<disk, writer, pc, cur, ri, after, used, W, acked, nextId, nCrash, nRestart, nObst, nEnc, nOverlap, ref, refAct, rolls, res>>

\* a non-empty directory appears at / disappears from an archive name
Obstruct ==
  /\ pc = "idle" /\ IsWindow /\ nObst < MaxObst /\ nextId <= MaxRec
  /\ \/ \E x \in Window : /\ disk.arch[x] = Absent
                          /\ disk' = [disk EXCEPT !.arch[x] = Dir]
                          /\ hist' = Log([op |-> "obstruct", i |-> x, kind |-> "dir"])
     \* the directory of the archives goes out of reach
     \/ /\ DirObst /\ ~disk.gone
        /\ disk' = [disk EXCEPT !.gone = TRUE]
        /\ hist' = Log([op |-> "obstruct", i |-> Base, kind |-> "nodir"])
     \* a name that cannot be written at the newest index: only a compressing final step writes there
     \/ /\ Gz /\ nObst = 0 /\ disk.arch[Base] = Absent
        /\ disk' = [disk EXCEPT !.arch[Base] = Full]
        /\ hist' = Log([op |-> "obstruct", i |-> Base, kind |-> "full"])
  /\ nObst' = nObst + 1
  /\ UNCHANGED <<writer, pc, cur, ri, after, used, W, acked, nextId, fault, nFaults, nCrash, nRestart, nEnc, nOverlap, ref, refAct, rolls, res>>
Unobstruct ==
  /\ pc = "idle" /\ IsWindow
  /\ \/ \E x \in Idx : /\ disk.arch[x] \in {Dir, Full}
                       /\ disk' = [disk EXCEPT !.arch[x] = Absent]
                       /\ hist' = Log([op |-> "unobstruct", i |-> x])
     \/ /\ disk.gone /\ disk' = [disk EXCEPT !.gone = FALSE]
        /\ hist' = Log([op |-> "unobstruct", i |-> Base, kind |-> "nodir"])
  /\ UNCHANGED <<writer, pc, cur, ri, after, used, W, acked, nextId, fault, nFaults, nCrash, nRestart, nObst, nEnc, nOverlap, ref, refAct, rolls, res>>

\* process death at one of the points a harness can pin down: before a roller step, after the
\* roller, after the flush, after everything
CrashPoint == pc \in {"rot", "gw2", "posttrig", "ack"}
Crash ==
  /\ CrashPoint /\ nCrash < MaxCrash
  /\ nCrash' = nCrash + 1
  /\ pc' = "down" /\ writer' = Closed /\ fault' = NoFault /\ res' = "none"
  /\ hist' = Log([op |-> "append", id |-> cur.id, sz |-> cur.sz, res |-> "crash",
                  at |-> [pc |-> pc, i |-> IF pc = "rot" THEN ri ELSE 0, pre |-> Pre], disk |-> Snap])
  /\ UNCHANGED <<disk, cur, ri, after, used, W, acked, nextId, nFaults, nRestart, nObst, nEnc, nOverlap, ref, refAct, rolls>>

\* (Append::flush is no action of this module: whenever it is called - the replay calls it right after every build -
\* it consults no trigger, rolls nothing and changes nothing)
\* the appender is dropped between appends; Build follows
Stop ==
  /\ pc = "idle" /\ nRestart < MaxRestart /\ nextId <= MaxRec
  /\ nRestart' = nRestart + 1
  /\ pc' = "down" /\ writer' = Closed /\ res' = "none"
  /\ IF disk.act.k = "full" THEN UNCHANGED <<disk, W, refAct>>       \* the flush of the drop fails silently
     ELSE disk' = Flushed(disk) /\ W' = W \o writer.buf /\ refAct' = refAct \o writer.buf
  /\ hist' = Log([op |-> "stop"])
  /\ UNCHANGED <<cur, ri, after, used, acked, nextId, fault, nFaults, nCrash, nObst, nEnc, nOverlap, ref, rolls>>

Next == (\E s \in Sizes : Start(s)) \/ Build \/ GetWriter1 \/ PreTrig \/ RotStep \/ GetWriter2 \/ Write
        \/ WriteNoSpace \/ PostTrig \/ Ack \/ (\E k \in {0, 1, cur.sz} : EncFail(k, FALSE)) \/ (\E k \in {1, 2} : EncFail(k, TRUE)) \/ (\E s \in Sizes : Overlap(s)) \/ ArmFault \/ Obstruct \/ Unobstruct \/ Crash \/ Stop
Spec == Init /\ [][Next]_vars
ASSUME ActFull => (Trig = "size" /\ MaxOverlap = 0 /\ 0 \notin Sizes)     \* (a trigger consulted before the write is not the subject here)

Quiescent == pc \in {"idle", "down"}
Clean == nFaults = 0 /\ nCrash = 0 /\ nObst = 0

\* ---------------------------------------------------------------- C05 / C08
\* oldest-to-newest reading is a suffix of the written stream: whole records, in order, no gap,
\* no duplicate; only a prefix (whole oldest files) may be gone
GapFreeSuffix == Quiescent => IsSuffix(Stream, W)
\* nothing is discarded before the retention window demands it: at least what the atomic,
\* fault-free shadow retains (also under faults, obstacles and crashes: C08 RetainedIntact)
NotLessThanIdeal == Quiescent => Len(Stream) >= Len(RefStream)
\* without faults the window is exactly the shadow's
\* (archives found at first build may have gaps, which the roller fills differently from the positional shadow: the
\* exact window is claimed for instances that start from an empty window)
WindowFaultFree == (PreArch = {{}} /\ Quiescent /\ Clean /\ IsWindow) =>
     \A j \in 0 .. Count - 1 : (j < Len(ref)) => disk.arch[Base + j] = File(ref[j + 1])
\* an append with nothing armed and no obstacle succeeds (Recovers)
Recovers == (pc = "idle" /\ res = "err") => (nFaults > 0 \/ nObst > 0 \/ nEnc > 0)
Outside == disk.arch[Base + Count].k # "file"
\* ---------------------------------------------------------------- C06
\* (a pre-processing policy consulted after a failed encoder sees the buffered part as well: the estimate is
\* "size at open + bytes accepted"; after a successful append, i.e. at every post-processing consultation, the buffer
\* is empty and the estimate is the on-disk size)
LenExact == (nOverlap = 0 /\ pc \in {"pretrig", "posttrig"}) => writer.len = Size(disk.act) + SumSz(writer.buf)
PostSeesDisk == pc = "posttrig" => writer.buf = <<>>
QuietBuffer == (nEnc = 0) => writer.buf = <<>>
\* after every acknowledged append the active file holds at most Limit units or was just rotated away
SizeBound == (nOverlap = 0 /\ Trig = "size" /\ pc = "idle" /\ res = "ok" /\ writer.open) => Size(disk.act) <= Limit
\* ---------------------------------------------------------------- C17
\* a name that cannot be written is never rolled away and nothing is ever acknowledged on it
FullStays == ActFull => (disk.act = Full /\ rolls = 0 /\ acked = {} /\ pc \notin {"posttrig", "rot", "remove"})
AtMostOneRoll == Trig = "startup" => rolls <= 1
TypeOK == pc \in {"down", "idle", "gw1", "pretrig", "rot", "remove", "gw2", "write", "posttrig", "ack"}
=============================================================================

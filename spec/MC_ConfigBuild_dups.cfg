CONSTANTS
  AppSeqs <- AppSeqsSmall
  RootRefSeqs <- RootRefSmall
  LoggerPool <- LoggerPoolSmall
  MaxLoggers = 4
INIT MainInit
NEXT MainNext
INVARIANTS StrictIff ErrorsNameExactlyOffenders LossyIsValidSubsequence AcceptedIsInstallable Emit
CHECK_DEADLOCK FALSE

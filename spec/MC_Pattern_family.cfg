CONSTANTS
  Letters <- LettersDef
  Digits <- DigitsDef
  OtherAlnum <- OtherAlnumDef
  DebugBuild = TRUE
  Rec <- RecInfo
  Alphabet = {"m"}
  MaxLen = 0
INIT FamilyInit
NEXT FamilyNext
INVARIANTS Total ErrorVisible Emit
CHECK_DEADLOCK FALSE

---------------------------- MODULE MC_EnvExpand ----------------------------
EXTENDS EnvExpand, Json
RECURSIVE Str(_)
Str(s) == IF s = <<>> THEN "" ELSE Head(s) \o Str(Tail(s))
R(n) == <<"$", "E", "N", "V", "{">> \o n \o <<"}">>
\* "~" and "^" stand for the non-ASCII letters U+00E9 and U+00FC (the harness substitutes them; TLC
\* cannot print non-ASCII characters faithfully)
\* whole references are single tokens so that interesting inputs are short
TokensDef == { R(<<"A">>), R(<<"B">>), R(<<"U">>), R(<<"~">>), R(<<"A", ".", "b">>), R(<<"A", "%">>), R(<<"S">>), <<"/">>, <<"$", "E", "N", "V", "{">>, <<"$">>, <<"{">>, <<"}">>,
               <<"A">>, <<".">>, <<"~">>, <<"/", "x">>, <<"1">>, <<"-">> }
\* values: contain "{", "}", the index placeholder "{}", the text ENV{B}, a slash, non-ASCII, or are empty - but never "$"
SetVarsDef == (<<"A">> :> <<"E", "N", "V", "{", "B", "}">>) @@ (<<"B">> :> <<"x">>) @@ (<<"~">> :> <<"d", "{", "}", "/", "^">>)
              @@ (<<"A", ".", "b">> :> <<>>)
              \* the environment also holds a variable whose name is not a well-formed NAME (it starts with "."): a
              \* reference spelled with it stays as it is
              @@ (<<".", "A">> :> <<"q">>)
              \* a name that ends in a digit: the fixed-window roller substitutes its index into the pattern before it
              \* expands it, so the index can complete a name - set for one index of a window, unset for the others
              @@ (<<"A", "1">> :> <<"o", "n", "e">>)
              \* "%" stands for U+0663 ARABIC-INDIC DIGIT THREE: a digit that is not ASCII is a name character like any
              \* other alphanumeric one
              @@ (<<"A", "%">> :> <<"n", "u", "m">>)
              \* a value that starts with a slash: behind a slash of the input it opens a path component, and is still
              \* nothing but text put where the reference stood
              @@ (<<"S">> :> <<"/", "t", "m", "p", "/", "l", "v", "q">>)
StartDef == {"A", "B", "U", "_", "~", "1", "b", "0", "2", "%", "S"}
PartDef == StartDef \cup {"."}
\* the input as the pattern of a roller whose window is 0..2, with the index where the input has "1": what the
\* pattern means at the other two indices (the meaning is per index: substitute, then expand)
Sub(s, d) == [i \in 1..Len(s) |-> IF s[i] = "1" THEN d ELSE s[i]]
HasOne == \E i \in 1..Len(Input) : Input[i] = "1"
Emit == Done => PrintT(<<"REPLAY", ToJson(IF HasOne
                                          THEN [input |-> Str(Input), expect |-> Str(out), expect0 |-> Str(Expand(Sub(Input, "0"), 1)),
                                                expect2 |-> Str(Expand(Sub(Input, "2"), 1))]
                                          ELSE [input |-> Str(Input), expect |-> Str(out)])>>)
MetaInit == Init /\ PrintT(<<"REPLAY", ToJson([meta |-> "env", vars |-> [k \in {"A", "B", "~", "A.b", ".A", "A1", "A%", "S"} |->
                 CASE k = "A" -> "ENV{B}" [] k = "B" -> "x" [] k = "~" -> "d{}/^" [] k = ".A" -> "q" [] k = "A1" -> "one" [] k = "A%" -> "num" [] k = "S" -> "/tmp/lvq" [] OTHER -> ""], unset |-> <<"U", "1", "1A", "A.", "AA">>])>>)
=============================================================================

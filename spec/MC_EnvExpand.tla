---------------------------- MODULE MC_EnvExpand ----------------------------
EXTENDS EnvExpand, Json
RECURSIVE Str(_)
Str(s) == IF s = <<>> THEN "" ELSE Head(s) \o Str(Tail(s))
R(n) == <<"$", "E", "N", "V", "{">> \o n \o <<"}">>
\* "~" and "^" stand for the non-ASCII letters U+00E9 and U+00FC (the harness substitutes them; TLC
\* cannot print non-ASCII characters faithfully)
\* whole references are single tokens so that interesting inputs are short
TokensDef == { R(<<"A">>), R(<<"B">>), R(<<"U">>), R(<<"~">>), R(<<"A", ".", "b">>), <<"$", "E", "N", "V", "{">>, <<"$">>, <<"{">>, <<"}">>,
               <<"A">>, <<".">>, <<"~">>, <<"/", "x">>, <<"1">>, <<"-">> }
\* values: contain "{", "}", the index placeholder "{}", the text ENV{B}, a slash, non-ASCII, or are empty - but never "$"
SetVarsDef == (<<"A">> :> <<"E", "N", "V", "{", "B", "}">>) @@ (<<"B">> :> <<"x">>) @@ (<<"~">> :> <<"d", "{", "}", "/", "^">>)
              @@ (<<"A", ".", "b">> :> <<>>)
              \* the environment also holds a variable whose name is not a well-formed NAME (it starts with "."): a
              \* reference spelled with it stays as it is
              @@ (<<".", "A">> :> <<"q">>)
StartDef == {"A", "B", "U", "_", "~", "1", "b"}
PartDef == StartDef \cup {"."}
Emit == Done => PrintT(<<"REPLAY", ToJson([input |-> Str(Input), expect |-> Str(out)])>>)
MetaInit == Init /\ PrintT(<<"REPLAY", ToJson([meta |-> "env", vars |-> [k \in {"A", "B", "~", "A.b", ".A"} |->
                 CASE k = "A" -> "ENV{B}" [] k = "B" -> "x" [] k = "~" -> "d{}/^" [] k = ".A" -> "q" [] OTHER -> ""], unset |-> <<"U", "1", "1A", "A.", "AA">>])>>)
=============================================================================

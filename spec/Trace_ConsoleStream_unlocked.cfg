CONSTANTS
  Threads = {1, 2, 3, 4}
  NRecs = 30
  NApps = 2
  Parts = 4
  Locked = FALSE
SPECIFICATION TSpec
CONSTRAINT Track
POSTCONDITION Accepted
CHECK_DEADLOCK FALSE

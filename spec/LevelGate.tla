------------------------------ MODULE LevelGate ------------------------------
(***************************************************************************)
(* Level gating across initialisation and runtime reconfiguration            *)
(* (src/lib.rs: Logger::new / Handle::set_config / Log::enabled / Log::log,  *)
(* src/config/mod.rs: init_config and variants), with the log facade's global maximum   *)
(* as explicit state.  A log macro is modelled as the facade filter          *)
(* (level <= globalMax) followed by the logger's own threshold.              *)
(* Configurations are values: [root |-> [lvl, apps], loggers |-> [name ->    *)
(* [lvl, add, apps]]]; routing operators take the configuration as argument. *)
(***************************************************************************)
EXTENDS Integers, Sequences, FiniteSets, TLC

CONSTANTS Configs, Targets

ROOT == <<"<root>">>
RECURSIVE SplitAt(_, _, _, _)
SplitAt(s, i, cur, acc) ==
  IF i > Len(s) THEN Append(acc, cur)
  ELSE IF s[i] = ":" /\ i < Len(s) /\ s[i + 1] = ":"
       THEN SplitAt(s, i + 2, <<>>, Append(acc, cur))
       ELSE SplitAt(s, i + 1, Append(cur, s[i]), acc)
Comps(s) == SplitAt(s, 1, <<>>, <<>>)
IsPrefix(p, s) == Len(p) <= Len(s) /\ SubSeq(s, 1, Len(p)) = p
Anc(n, t) == IsPrefix(Comps(n), Comps(t))
Best(S) == CHOOSE n \in S : \A m \in S : Len(Comps(m)) <= Len(Comps(n))
EffName(c, t) == LET S == {n \in DOMAIN c.loggers : Anc(n, t)} IN IF S = {} THEN ROOT ELSE Best(S)
ParentName(c, n) == LET S == {m \in DOMAIN c.loggers : m # n /\ Anc(m, n)} IN IF S = {} THEN ROOT ELSE Best(S)
LvlOf(c, n) == IF n = ROOT THEN c.root.lvl ELSE c.loggers[n].lvl
RECURSIVE Attach(_, _)
Attach(c, n) == IF n = ROOT THEN c.root.apps
                ELSE c.loggers[n].apps \o (IF c.loggers[n].add THEN Attach(c, ParentName(c, n)) ELSE <<>>)
Thr(c, t) == LvlOf(c, EffName(c, t))
Enabled(c, t, L) == Thr(c, t) >= L
SetMax(S) == CHOOSE m \in S : \A x \in S : x <= m
MaxLevel(c) == SetMax({c.root.lvl} \cup {c.loggers[n].lvl : n \in DOMAIN c.loggers})

VARIABLES up,         \* has a logger been installed?
          cur,        \* the installed configuration (meaningless while ~up)
          globalMax,  \* log::max_level(); the facade starts at Off (0)
          reconfigs   \* number of reconfigurations so far (history length)
vars == <<up, cur, globalMax, reconfigs>>

Init == up = FALSE /\ cur = (CHOOSE c \in Configs : TRUE) /\ globalMax = 0 /\ reconfigs = 0
\* init_config / init_config_with_err_handler / init_raw_config: build, set_max_level, set_boxed_logger
InitConfig(c) == ~up /\ up' = TRUE /\ cur' = c /\ globalMax' = MaxLevel(c) /\ UNCHANGED reconfigs
\* Handle::set_config: build, set_max_level(new max), store
SetConfig(c) == up /\ UNCHANGED up /\ cur' = c /\ globalMax' = MaxLevel(c) /\ reconfigs' = reconfigs + 1
Next == \E c \in Configs : InitConfig(c) \/ SetConfig(c)
Spec == Init /\ [][Next]_vars

\* what a log macro does with (t, L): facade filter, then the logger
MacroDelivers(t, L) == IF ~up \/ L > globalMax \/ ~Enabled(cur, t, L) THEN <<>> ELSE Attach(cur, EffName(cur, t))

GlobalMaxExact == up => globalMax = MaxLevel(cur)
FacadeNeverHides == up => \A t \in Targets, L \in 1..5 : Enabled(cur, t, L) => L <= globalMax
MacrosReachRouting == up => \A t \in Targets, L \in 1..5 :
                        MacroDelivers(t, L) = (IF Enabled(cur, t, L) THEN Attach(cur, EffName(cur, t)) ELSE <<>>)
=============================================================================

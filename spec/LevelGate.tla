------------------------------ MODULE LevelGate ------------------------------
(***************************************************************************)
(* Level gating across initialisation and runtime reconfiguration            *)
(* (src/lib.rs: Logger::new / Handle::set_config / Log::enabled / Log::log,  *)
(* src/config/mod.rs: init_config and variants), with the log facade's global maximum   *)
(* as explicit state.  A log macro is modelled as the facade filter          *)
(* (level <= globalMax) followed by the logger's own threshold.              *)
(* Configurations are values: [root |-> [lvl, apps], loggers |-> [name ->    *)
(* [lvl, add, apps]]]; routing operators take the configuration as argument. *)
(***************************************************************************)
EXTENDS RoutingOps

CONSTANTS Configs, Targets

VARIABLES up,         \* has a logger been installed?
          cur,        \* the installed configuration (meaningless while ~up)
          globalMax,  \* log::max_level(); the facade starts at Off (0)
          reconfigs,  \* number of reconfigurations so far (history length)
          fresh       \* TRUE right after init / set_config, FALSE once something else moved the facade's maximum
vars == <<up, cur, globalMax, reconfigs, fresh>>

Init == up = FALSE /\ cur = (CHOOSE c \in Configs : TRUE) /\ globalMax = 0 /\ reconfigs = 0 /\ fresh = TRUE
\* init_config / init_config_with_err_handler / init_raw_config: build, set_max_level, set_boxed_logger
InitConfig(c) == ~up /\ up' = TRUE /\ cur' = c /\ globalMax' = MaxLevel(c) /\ fresh' = TRUE /\ UNCHANGED reconfigs
\* Handle::set_config: build, set_max_level(new max), store
SetConfig(c) == up /\ UNCHANGED up /\ cur' = c /\ globalMax' = MaxLevel(c) /\ fresh' = TRUE /\ reconfigs' = reconfigs + 1
\* the environment: anybody may call log::set_max_level directly (a second, failing init_config does so
\* too); the next reconfiguration must install the configuration's maximum again
Drift(l) == up /\ fresh /\ globalMax' = l /\ fresh' = FALSE /\ UNCHANGED <<up, cur, reconfigs>>
Next == (\E c \in Configs : InitConfig(c) \/ SetConfig(c)) \/ (\E l \in 0..5 : Drift(l))
Spec == Init /\ [][Next]_vars

\* what a log macro does with (t, L): facade filter, then the logger
MacroDelivers(t, L) == IF ~up \/ L > globalMax \/ ~Enabled(cur, t, L) THEN <<>> ELSE Attach(cur, EffName(cur, t))

GlobalMaxExact == (up /\ fresh) => globalMax = MaxLevel(cur)
FacadeNeverHides == (up /\ fresh) => \A t \in Targets, L \in 1..5 : Enabled(cur, t, L) => L <= globalMax
MacrosReachRouting == (up /\ fresh) => \A t \in Targets, L \in 1..5 :
                        MacroDelivers(t, L) = (IF Enabled(cur, t, L) THEN Attach(cur, EffName(cur, t)) ELSE <<>>)
=============================================================================

CONSTANTS
  Base = 1
  Count = 1
  Kind = "window"
  MaxRolls = 3
  MaxWipes = 0
INIT HInit
NEXT HNext
INVARIANTS WindowLaw ActiveGone OutsideUntouched RemoveOnly NoDup Emit
CHECK_DEADLOCK FALSE

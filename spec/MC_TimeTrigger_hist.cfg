CONSTANTS
  Starts <- StartsDef
  Configs <- ConfigsDef
  Deltas <- DeltasDef
  MaxArrivals = 3
INIT HInit
NEXT HNext
INVARIANTS StrictlyFuture HEmit
PROPERTIES OncePerBoundary RescheduleFromNow
CHECK_DEADLOCK FALSE

----------------------------- MODULE MC_Fanout -----------------------------
EXTENDS Fanout, Json, SequencesExt
RECURSIVE SeqsUpTo(_, _)
SeqsUpTo(Chars, n) == IF n = 0 THEN {<<>>}
                      ELSE LET S == SeqsUpTo(Chars, n - 1)
                           IN S \cup {Append(s, c) : s \in {t \in S : Len(t) = n - 1}, c \in Chars}
Chains3 == SeqsUpTo({"A", "N", "R"}, 3)
Chains2 == SeqsUpTo({"A", "N", "R"}, 2)
Att2 == { <<1, 2>>, <<2, 1, 2>> }
Att3 == { <<1, 2, 3>>, <<3, 1, 3, 2>> }
\* dropping the unbuildable entries of a declared chain gives back the chain, wherever they sat
ASSUME \A c \in Chains3 : \A p \in 1..Len(c) + 1 : Effective(InsertAt(c, p, "X")) = c /\ Effective(Append(InsertAt(c, p, "X"), "X")) = c
Case == [chains |-> [a \in Apps |-> chain[a]], outc |-> [a \in Apps |-> outc[a]], att |-> att,
         delivered |-> [a \in Apps |-> delivered[a]], consulted |-> [a \in Apps |-> consulted[a]],
         handled |-> handled, flushed |-> [a \in Apps |-> flushed[a]]]
Emit == Done => PrintT(<<"REPLAY", ToJson(Case)>>)
ThresholdTable == [t \in 0..5 |-> [l \in 1..5 |-> Threshold(t, l)]]
MetaInit == Init /\ PrintT(<<"REPLAY", ToJson([meta |-> "threshold", table |-> ThresholdTable])>>)
============================================================================

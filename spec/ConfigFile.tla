----------------------------- MODULE ConfigFile -----------------------------
(***************************************************************************)
(* Configuration documents (src/config/raw.rs, file.rs, mod.rs and the        *)
(* deserializers of appenders, encoders, filters, policies, triggers,         *)
(* rollers).  A *logical document* is format independent: which sections      *)
(* exist, which optional fields are present, and at most a few injected       *)
(* defects.  Decide gives its meaning:                                        *)
(*   rejected - the document does not load in either pipeline (a defect at    *)
(*              document / root / logger level, or an appender without kind); *)
(*   partial  - the strict pipeline fails, the lossy pipeline loads and       *)
(*              drops exactly the broken components (an appender whose own    *)
(*              configuration, encoder, policy, trigger or roller is broken;  *)
(*              a broken filter - the appender stays, without that filter;    *)
(*              a dangling appender reference; an invalid logger name);       *)
(*   loaded   - both pipelines load it.                                       *)
(* The surviving configuration is a RoutingOps configuration value plus the   *)
(* filters of the capture appender, so the routing meaning (C01) applies.     *)
(* The documents have one capture appender "c" (a harness kind that records   *)
(* deliveries) and one appender "x" of a real kind in one of XVariants.       *)
(***************************************************************************)
EXTENDS RoutingOps

\* ---- the pools
CVariants == {"plain", "thr", "badfilter_kind", "thr_then_bad", "bad_then_thr", "absent",
              \* two filters whose ORDER is the behaviour: "pass" (a kind the embedding program registers) accepts every
              \* record outright, the threshold rejects what is more verbose than warn - the first filter with an opinion decides
              "pass_then_thr", "thr_then_pass"}
\* x: [v |-> variant]; "ok" variants build, all others make the appender fail to build
XOk == {"file", "file_trunc", "file_json", "file_pat", "file_empty_pat", "file_env", "roll_delete", "roll_window", "roll_zero_limit", "roll_time", "console", "absent"}
XBroken == {"file_unknown_key", "file_path_wrong_type", "file_append_wrong_type", "enc_unknown_key", "enc_unknown_kind",
            "policy_unknown_key", "policy_unknown_kind", "trigger_unknown_key", "trigger_unknown_kind", "trigger_neg_limit",
            "trigger_bad_unit", "roller_unknown_key", "roller_unknown_kind", "roller_neg_count", "roller_no_count",
            "roller_no_braces", "console_bad_target", "unknown_kind", "unknown_kind_with_filter", "file_no_path_with_filter",
            "time_zero_interval", "time_huge_interval",
            \* a `kind` that is present but not a string is as broken as an unknown one - at every level below the appender
            "enc_kind_wrong_type", "policy_kind_wrong_type", "trigger_kind_wrong_type", "roller_kind_wrong_type",
            "enc_kind_null"}
XVariants == XOk \cup XBroken
DocVariants == {"ok", "doc_unknown_key", "root_unknown_key", "logger_unknown_key", "logger_no_level", "root_level_bad",
                "logger_level_bad", "refresh_bad", "refresh_wrong_type", "appender_no_kind", "root_appenders_wrong_type",
                "logger_additive_wrong_type", "appender_kind_wrong_type", "filter_kind_wrong_type"}
RootVariants == {"full", "no_level", "absent"}
Refresh == {"none", "30s", "200ms"}      \* (a rate below one second is a rate like any other)
\* loggers: name -> [lvl (0..5), add ("none" | "true" | "false"), apps (seq over {"c", "x", "ghost"})]
LoggerNames == {<<"a">>, <<"a", ":", ":", "b">>, <<"a", ":", "b">>}        \* the last one is an invalid name

VARIABLES doc, phase
vars == <<doc, phase>>
CONSTANTS RootLevels, LoggerOptions, AppLists

DocSpace == [dv : DocVariants, refresh : Refresh, root : RootVariants, rootlvl : RootLevels, rootapps : AppLists,
             c : CVariants, x : XVariants, loggers : {<<>>}]
Init == /\ phase = "grow"
        /\ doc \in DocSpace
        \* at most one kind of defect per document, so that classes do not mask each other
        /\ (doc.dv # "ok" => (doc.x \in XOk /\ doc.c \in {"plain", "thr"}))
        /\ (doc.c \in {"pass_then_thr", "thr_then_pass"} => doc.x \in {"file", "absent"})
        /\ (doc.x \in XBroken => doc.c \in {"plain", "thr"})
        \* the optional document-level fields vary on the plainest document only
        /\ ((doc.refresh # "none" \/ doc.root # "full") => (doc.c = "plain" /\ doc.x \in {"file", "absent"}))
AddLogger == /\ phase = "grow" /\ Len(doc.loggers) < 2
             /\ (Len(doc.loggers) = 1 => (doc.loggers[1].name = <<"a">> /\ doc.dv = "ok" /\ doc.x \in {"file", "roll_delete", "absent"}))
             /\ \E n \in LoggerNames, o \in LoggerOptions :
                  /\ \A i \in 1..Len(doc.loggers) : doc.loggers[i].name # n
                  /\ doc' = [doc EXCEPT !.loggers = Append(@, [name |-> n, lvl |-> o.lvl, add |-> o.add, apps |-> o.apps])]
             /\ UNCHANGED phase
Finish == phase = "grow" /\ phase' = "done" /\ UNCHANGED doc
Next == AddLogger \/ Finish

\* ---- meaning
\* root_level_default() and logger_additive_default() as the code has them
RootLevelDefault == 4
DocRejected(d) == \/ d.dv \in {"doc_unknown_key", "root_unknown_key", "root_level_bad", "refresh_bad", "refresh_wrong_type",
                               "appender_no_kind", "root_appenders_wrong_type",
                               \* the kind of an appender or of a filter is read with the document (a typed field):
                               \* a non-string there fails the whole document, unlike the kinds further down
                               "appender_kind_wrong_type", "filter_kind_wrong_type"}
                  \/ (d.dv \in {"logger_unknown_key", "logger_no_level", "logger_level_bad", "logger_additive_wrong_type"} /\ Len(d.loggers) >= 1)
                  \/ (d.dv = "root_unknown_key" /\ d.root = "absent" /\ FALSE)
XBuilds(d) == d.x \in XOk /\ d.x # "absent"
CBuilds(d) == d.c # "absent"
\* filters that survive on the capture appender: a broken filter is dropped, the others stay
CFilters(d) == CASE d.c \in {"thr", "thr_then_bad", "bad_then_thr"} -> <<"warn">>
                 [] d.c = "pass_then_thr" -> <<"pass", "warn">>
                 [] d.c = "thr_then_pass" -> <<"warn", "pass">>
                 [] OTHER -> <<>>
\* the chain is asked in the order of the document; the first answer that is not "neutral" stands
RECURSIVE Rejects(_, _)
Rejects(fs, L) == IF fs = <<>> THEN FALSE
                  ELSE IF Head(fs) = "pass" THEN FALSE
                  ELSE IF L > 2 THEN TRUE ELSE Rejects(Tail(fs), L)
Existing(d) == (IF CBuilds(d) THEN {"c"} ELSE {}) \cup (IF XBuilds(d) THEN {"x"} ELSE {})
ValidLoggerName(n) == n # <<"a", ":", "b">>
KeptLoggers(d) == SelectSeq(d.loggers, LAMBDA l : ValidLoggerName(l.name))
Strip(apps, d) == SelectSeq(apps, LAMBDA a : a \in Existing(d))
RootLvl(d) == IF d.root = "full" THEN d.rootlvl ELSE RootLevelDefault
RootApps(d) == IF d.root = "absent" THEN <<>> ELSE d.rootapps
\* the configuration value the lossy pipeline ends up with
Surviving(d) == [root |-> [lvl |-> RootLvl(d), apps |-> Strip(RootApps(d), d)],
                 loggers |-> [n \in {KeptLoggers(d)[i].name : i \in 1..Len(KeptLoggers(d))} |->
                                LET l == CHOOSE k \in {KeptLoggers(d)[i] : i \in 1..Len(KeptLoggers(d))} : k.name = n IN
                                [lvl |-> l.lvl, add |-> (l.add # "false"), apps |-> Strip(l.apps, d)]]]
Range(s) == {s[i] : i \in 1..Len(s)}
HasDefect(d) == \/ d.x \in XBroken
                \/ d.c \in {"badfilter_kind", "thr_then_bad", "bad_then_thr"}
                \/ ~(Range(RootApps(d)) \subseteq Existing(d))
                \/ \E i \in 1..Len(d.loggers) : ~ValidLoggerName(d.loggers[i].name) \/ ~(Range(d.loggers[i].apps) \subseteq Existing(d))
Class(d) == IF DocRejected(d) THEN "rejected" ELSE IF HasDefect(d) THEN "partial" ELSE "loaded"
\* deliveries to the capture appender for a probe (target, level)
Probe(d, t, L) == LET cfg == Surviving(d) IN
                  IF ~Enabled(cfg, t, L) THEN 0
                  ELSE IF Rejects(CFilters(d), L) THEN 0                \* threshold warn rejects more verbose records
                  ELSE Cardinality({i \in 1..Len(Attach(cfg, EffName(cfg, t))) : Attach(cfg, EffName(cfg, t))[i] = "c"})
\* dropping a broken component never changes the routing of the others: the capture appender's table does not
\* depend on which broken variant x has
LossyKeepsRest == phase = "done" => \A v \in XBroken : \A t \in {<<"a">>, <<"z">>} :
                     Class(doc) # "rejected" /\ doc.x \in XBroken => Probe([doc EXCEPT !.x = v], t, 1) = Probe(doc, t, 1)
StrictIffNoDefect == phase = "done" => ((Class(doc) = "loaded") <=> (~DocRejected(doc) /\ ~HasDefect(doc)))
=============================================================================

CONSTANTS
  Loggers = {1, 2}
  Reconfs = {1, 2}
  Fanout = 2
  MaxGen = 3
SPECIFICATION MCSpec
INVARIANTS SnapshotWasCurrent
CHECK_DEADLOCK FALSE

---------------------------- MODULE MC_JsonLine ----------------------------
EXTENDS JsonLine, Json
RECURSIVE SetToSeq(_)
SetToSeq(S) == IF S = {} THEN <<>> ELSE LET x == CHOOSE y \in S : TRUE IN <<x>> \o SetToSeq(S \ {x})
ClassesDef == {"plain", "quote", "bslash", "lf", "cr", "ctl", "del", "b2", "b3", "b4", "ls"}
Emit == phase = "done" => PrintT(<<"REPLAY", ToJson([level |-> rec.level, message |-> rec.message, target |-> rec.target,
           module_path |-> rec.module_path, file |-> rec.file, line |-> rec.line, thread |-> rec.thread,
           mdc |-> SetToSeq(rec.mdc), members |-> SetToSeq(Members(rec))])>>)
============================================================================

INIT Init
NEXT Next
INVARIANTS ExtensionAlone Emit
CHECK_DEADLOCK FALSE

------------------------------- MODULE Pattern -------------------------------
(***************************************************************************)
(* The pattern encoder (src/encode/pattern/parser.rs and mod.rs).             *)
(*                                                                         *)
(* Part 1 transcribes the parser method by method (Parser::next, argument,   *)
(* formatter, name, args, arg, parameters with its two-character look-ahead  *)
(* for the fill, integer, text, the drain after a missing '}') as recursive  *)
(* operators on (input, position), then the Piece -> Chunk table with its    *)
(* arity checks, then Render.  TLC evaluating Render(s) for every string s   *)
(* of a bound is the totality argument of C11: an index out of range, a      *)
(* missing CASE arm or a runaway recursion is a TLC evaluation error.        *)
(*                                                                         *)
(* Part 2 is the denotation of well-formed patterns (C09): a pattern is a    *)
(* sequence of grammar tokens, each with a concrete spelling and a meaning   *)
(* that does not mention the parser; Denote concatenates the meanings.       *)
(* GrammarAgrees states that parsing the spelling yields the denotation.     *)
(*                                                                         *)
(* Strings are sequences of one-character strings.  Output is a sequence of  *)
(* tokens: characters, and zero-width markers (style requests, opaque atoms  *)
(* such as the process id).  "~" stands for a non-ASCII letter; the harness  *)
(* substitutes it (TLC cannot print non-ASCII characters faithfully).        *)
(***************************************************************************)
EXTENDS Integers, Sequences, FiniteSets, TLC

CONSTANTS Letters,     \* characters that are alphabetic (formatter names)
          Digits,      \* "0" .. "9" as far as the instance uses them
          OtherAlnum,  \* characters that are alphanumeric for names but neither letters nor decimal digits
                       \* (e.g. ARABIC-INDIC DIGIT THREE): part of a name, never part of a width
          DebugBuild   \* TRUE: debug_assertions on (the {D(..)} group renders), FALSE: {R(..)} renders

Special == {"{", "}", "(", ")", "\\"}
IsAlpha(c) == c \in Letters
IsAlnum(c) == c \in Letters \cup Digits \cup OtherAlnum
EOF == "<eof>"
Peek(s, p) == IF p >= 1 /\ p <= Len(s) THEN s[p] ELSE EOF

Text(t)  == [k |-> "text", t |-> t, name |-> <<>>, args |-> <<>>, prm |-> <<>>]
Err(e)   == [k |-> "error", t |-> <<>>, name |-> <<>>, args |-> <<>>, prm |-> <<>>]
Arg(n, a, prm) == [k |-> "arg", t |-> <<>>, name |-> n, args |-> a, prm |-> prm]
NoParams == [fill |-> " ", align |-> "L", min |-> -1, max |-> -1]   \* -1 = None

\* ---------------------------------------------------------------- Parser::name
RECURSIVE NameEnd(_, _)
NameEnd(s, p) == IF p <= Len(s) /\ (IsAlnum(s[p]) \/ s[p] = "_") THEN NameEnd(s, p + 1) ELSE p
Name(s, p) == IF p <= Len(s) /\ IsAlpha(s[p])
              THEN LET e == NameEnd(s, p + 1) IN [v |-> SubSeq(s, p, e - 1), p |-> e]
              ELSE [v |-> <<>>, p |-> p]

\* ---------------------------------------------------------------- Parser::integer
\* The value is kept only while it is small; BIG stands for "does not fit the sanity bound" (the
\* code must reject or survive such widths, C11).
BIG == 1000000
RECURSIVE IntEnd(_, _)
IntEnd(s, p) == IF p <= Len(s) /\ s[p] \in Digits THEN IntEnd(s, p + 1) ELSE p
DigitVal(c) == CASE c = "0" -> 0 [] c = "1" -> 1 [] c = "2" -> 2 [] c = "3" -> 3 [] c = "4" -> 4
                 [] c = "5" -> 5 [] c = "6" -> 6 [] c = "7" -> 7 [] c = "8" -> 8 [] OTHER -> 9
RECURSIVE IntVal(_)
IntVal(ds) == IF ds = <<>> THEN 0
              ELSE LET hi == IntVal(SubSeq(ds, 1, Len(ds) - 1)) IN
                   IF hi >= BIG THEN BIG ELSE LET v == hi * 10 + DigitVal(ds[Len(ds)]) IN IF v >= BIG THEN BIG ELSE v
Integer(s, p) == LET e == IntEnd(s, p) IN
                 IF e = p THEN [v |-> -1, p |-> p] ELSE [v |-> IntVal(SubSeq(s, p, e - 1)), p |-> e]

\* ---------------------------------------------------------------- Parser::parameters
Parameters(s, p0) ==
  IF Peek(s, p0) # ":" THEN [v |-> NoParams, p |-> p0]
  ELSE LET p1 == p0 + 1
           hasFill == p1 <= Len(s) /\ Peek(s, p1 + 1) \in {"<", ">"}
           fill == IF hasFill THEN s[p1] ELSE " "
           p2 == IF hasFill THEN p1 + 1 ELSE p1
           al == IF Peek(s, p2) = ">" THEN "R" ELSE "L"
           p3 == IF Peek(s, p2) \in {"<", ">"} THEN p2 + 1 ELSE p2
           mn == Integer(s, p3)
           p4 == mn.p
           hasDot == Peek(s, p4) = "."
           mx == IF hasDot THEN Integer(s, p4 + 1) ELSE [v |-> -1, p |-> p4]
       IN [v |-> [fill |-> fill, align |-> al, min |-> mn.v, max |-> mx.v], p |-> mx.p]

\* ---------------------------------------------------------------- next / argument / args / arg
RECURSIVE NextPiece(_, _), ArgBody(_, _, _), Args(_, _, _)
RECURSIVE TextEndR(_, _)
TextEndR(s, q) == IF q <= Len(s) /\ s[q] \notin Special THEN TextEndR(s, q + 1) ELSE q

\* Parser::arg after the '(' : pieces until the first ')' ; None from next() is "unclosed '('"
ArgBody(s, p, acc) ==
  IF Peek(s, p) = ")" THEN [ok |-> TRUE, v |-> acc, p |-> p + 1]
  ELSE LET n == NextPiece(s, p) IN
       IF n.none THEN [ok |-> FALSE, v |-> acc, p |-> n.p]
       ELSE ArgBody(s, n.p, Append(acc, n.v))
Args(s, p, acc) ==
  IF Peek(s, p) # "(" THEN [ok |-> TRUE, v |-> acc, p |-> p]
  ELSE LET a == ArgBody(s, p + 1, <<>>) IN
       IF ~a.ok THEN [ok |-> FALSE, v |-> acc, p |-> a.p]
       ELSE Args(s, a.p, Append(acc, a.v))
Argument(s, p) ==
  LET nm == Name(s, p)
      ar == Args(s, nm.p, <<>>)
  IN IF ~ar.ok THEN [v |-> Err("unclosed ("), p |-> ar.p]
     ELSE LET pr == Parameters(s, ar.p) IN [v |-> Arg(nm.v, ar.v, pr.v), p |-> pr.p]
NextPiece(s, p) ==
  LET c == Peek(s, p) IN
  IF c = EOF THEN [none |-> TRUE, v |-> Text(<<>>), p |-> p]
  ELSE IF c = "{" THEN
         IF Peek(s, p + 1) = "{" THEN [none |-> FALSE, v |-> Text(<<"{">>), p |-> p + 2]
         ELSE LET a == Argument(s, p + 1) IN
              IF Peek(s, a.p) = "}" THEN [none |-> FALSE, v |-> a.v, p |-> a.p + 1]
              ELSE [none |-> FALSE, v |-> Err("expected }"), p |-> Len(s) + 1]     \* the rest is drained
  ELSE IF c \in {"}", "(", ")"} THEN
         IF Peek(s, p + 1) = c THEN [none |-> FALSE, v |-> Text(<<c>>), p |-> p + 2]
         ELSE [none |-> FALSE, v |-> Err("stray"), p |-> p + 1]
  ELSE IF c = "\\" THEN
         IF Peek(s, p + 1) \in Special THEN [none |-> FALSE, v |-> Text(<<Peek(s, p + 1)>>), p |-> p + 2]
         ELSE [none |-> FALSE, v |-> Err("backslash"), p |-> p + 1]
  ELSE LET e == TextEndR(s, p) IN [none |-> FALSE, v |-> Text(SubSeq(s, p, e - 1)), p |-> e]
RECURSIVE Pieces(_, _, _)
Pieces(s, p, acc) == LET n == NextPiece(s, p) IN IF n.none THEN acc ELSE Pieces(s, n.p, Append(acc, n.v))
Parse(s) == Pieces(s, 1, <<>>)

\* ---------------------------------------------------------------- the record and the atoms
CONSTANTS Rec    \* [lvl, msg, target, module, file, line, thread, mdc]; module/file/line may be <<"-">> = absent
Absent == <<"-">>
Marks == {"<S:ERROR>", "<S:WARN>", "<S:INFO>", "<S:TRACE>", "<S:0>", "<pid>", "<tid>", "<thread_id>", "<date>", "<date?>", "<ERR>",
          "<APPROX>", "<HUGE>", "<fmt>", "</fmt>", "<utc>", "<local>"}
IsMark(t) == t \in Marks
OrQ(x) == IF x = Absent THEN <<"?", "?", "?">> ELSE x
StyleFor(l) == CASE l = <<"E", "R", "R", "O", "R">> -> <<"<S:ERROR>">> [] l = <<"W", "A", "R", "N">> -> <<"<S:WARN>">>
                 [] l = <<"I", "N", "F", "O">> -> <<"<S:INFO>">> [] l = <<"T", "R", "A", "C", "E">> -> <<"<S:TRACE>">>
                 [] OTHER -> <<>>

\* ---------------------------------------------------------------- width law on token sequences
\* zero-width markers are never counted, cut or padded against
RECURSIVE CutR(_, _)
CutR(t, m) == IF t = <<>> THEN <<>>
              ELSE IF IsMark(Head(t)) /\ Head(t) \notin {"<pid>", "<tid>", "<thread_id>", "<date>", "<date?>"} THEN <<Head(t)>> \o CutR(Tail(t), m)
              ELSE IF m = 0 THEN CutR(Tail(t), 0)
              ELSE <<Head(t)>> \o CutR(Tail(t), m - 1)
RECURSIVE Width(_)
Width(t) == IF t = <<>> THEN 0 ELSE (IF IsMark(Head(t)) /\ Head(t) \notin {"<pid>", "<tid>", "<thread_id>", "<date>", "<date?>"} THEN 0 ELSE 1) + Width(Tail(t))
RECURSIVE Rep(_, _)
Rep(c, n) == IF n <= 0 THEN <<>> ELSE <<c>> \o Rep(c, n - 1)
\* truncate to the first max characters, then pad with the fill up to min characters on the chosen side;
\* never more than max characters (the padding is cut as well when min > max)
FitExact(t, prm) ==
  LET cut == IF prm.max >= 0 THEN CutR(t, prm.max) ELSE t
      need == IF prm.min >= 0 /\ Width(cut) < prm.min THEN prm.min - Width(cut) ELSE 0
      room == IF prm.max >= 0 THEN (IF need > prm.max - Width(cut) THEN prm.max - Width(cut) ELSE need) ELSE need
      pad == Rep(prm.fill, room)
  IN IF prm.align = "L" THEN cut \o pad ELSE pad \o cut
HasOpaque(t) == \E i \in 1..Len(t) : t[i] \in {"<pid>", "<tid>", "<thread_id>", "<date>", "<date?>", "<ERR>", "<APPROX>", "<HUGE>"}
\* Where the exact text cannot be stated here - a width applied to text of unknown length (process id,
\* date, the wording of an error marker), a minimum above the maximum (the property only bounds the
\* output by the maximum there), or a width beyond the sanity bound - the output is marked instead.
Fit(t, prm) ==
  IF prm.min = -1 /\ prm.max = -1 THEN t
  ELSE IF prm.min >= BIG \/ prm.max >= BIG THEN <<"<HUGE>">>
  ELSE IF HasOpaque(t) \/ (prm.max >= 0 /\ prm.min > prm.max) THEN <<"<APPROX>">> \o t
  ELSE FitExact(t, prm)

\* strftime specifiers: a few known to be valid, a few known to be invalid (a '%' at the end, %Q, %!);
\* a format using anything else is rendered as "<date?>" (date or error marker, never a panic)
KnownGood == {"Y", "m", "d", "H", "M", "S", "+", "%", "Z", "z", "a", "b", "e", "j", "y"}
KnownBad == {"Q", "!", "#"}    \* "%#z" is parse-only in chrono: it cannot be formatted
RECURSIVE BadStrftime(_, _), GoodStrftime(_, _)
BadStrftime(f, i) == IF i > Len(f) THEN FALSE
                     ELSE IF f[i] = "%" THEN (i = Len(f) \/ f[i + 1] \in KnownBad \/ BadStrftime(f, i + 2))
                     ELSE BadStrftime(f, i + 1)
GoodStrftime(f, i) == IF i > Len(f) THEN TRUE
                      ELSE IF f[i] = "%" THEN (i < Len(f) /\ f[i + 1] \in KnownGood /\ GoodStrftime(f, i + 2))
                      ELSE GoodStrftime(f, i + 1)
\* ---------------------------------------------------------------- Piece -> Chunk -> output
N(str) == str   \* readability: names below are character sequences
RECURSIVE RenderPiece(_), RenderSeq(_), ConcatText(_)
RenderSeq(ps) == IF ps = <<>> THEN <<>> ELSE RenderPiece(Head(ps)) \o RenderSeq(Tail(ps))
\* the date format argument concatenates its pieces (errors become text inside the format)
ConcatText(ps) == IF ps = <<>> THEN <<>>
                  ELSE (IF Head(ps).k = "text" THEN Head(ps).t ELSE <<"<ERR>">>) \o ConcatText(Tail(ps))
ErrOut == <<"<ERR>">>
Simple(pc, val) == IF pc.args # <<>> THEN ErrOut ELSE Fit(val, pc.prm)
Group(pc, body) == IF Len(pc.args) # 1 THEN ErrOut ELSE Fit(body, pc.prm)
FirstText(arg) == IF arg = <<>> THEN [ok |-> FALSE, t |-> <<>>]
                  ELSE IF arg[1].k = "text" THEN [ok |-> TRUE, t |-> arg[1].t] ELSE [ok |-> FALSE, t |-> <<>>]
\* MDC key and default: all text pieces of the argument, concatenated
WholeText(arg) == IF arg = <<>> THEN [ok |-> FALSE, t |-> <<>>]
                  ELSE IF \A i \in 1..Len(arg) : arg[i].k = "text" THEN [ok |-> TRUE, t |-> ConcatText(arg)]
                  ELSE [ok |-> FALSE, t |-> <<>>]
MdcVal(key, dflt) == IF key \in DOMAIN Rec.mdc THEN Rec.mdc[key] ELSE dflt
RenderPiece(pc) ==
  CASE pc.k = "text"  -> pc.t
    [] pc.k = "error" -> ErrOut
    [] OTHER ->
       LET n == pc.name IN
       CASE n \in {<<"m">>, <<"m","e","s","s","a","g","e">>} -> Simple(pc, Rec.msg)
         [] n \in {<<"l">>, <<"l","e","v","e","l">>} -> Simple(pc, Rec.lvl)
         [] n \in {<<"t">>, <<"t","a","r","g","e","t">>} -> Simple(pc, Rec.target)
         [] n \in {<<"M">>, <<"m","o","d","u","l","e">>} -> Simple(pc, OrQ(Rec.module))
         [] n \in {<<"f">>, <<"f","i","l","e">>} -> Simple(pc, OrQ(Rec.file))
         [] n \in {<<"L">>, <<"l","i","n","e">>} -> Simple(pc, OrQ(Rec.line))
         [] n = <<"n">> -> Simple(pc, <<"\n">>)
         [] n \in {<<"T">>, <<"t","h","r","e","a","d">>} -> Simple(pc, Rec.thread)
         [] n \in {<<"P">>, <<"p","i","d">>} -> Simple(pc, <<"<pid>">>)
         [] n \in {<<"i">>, <<"t","i","d">>} -> Simple(pc, <<"<tid>">>)
         [] n \in {<<"I">>, <<"t","h","r","e","a","d","_","i","d">>} -> Simple(pc, <<"<thread_id>">>)
         [] n \in {<<"d">>, <<"d","a","t","e">>} ->
              IF Len(pc.args) > 2 THEN ErrOut
              ELSE LET fmt == IF Len(pc.args) >= 1 THEN ConcatText(pc.args[1]) ELSE <<"%", "+">>
                       zoneOk == Len(pc.args) < 2 \/ (Len(pc.args[2]) >= 1 /\ pc.args[2][1].k = "text"
                                                      /\ pc.args[2][1].t \in {<<"u","t","c">>, <<"l","o","c","a","l">>})
                   IN IF ~zoneOk THEN ErrOut
                      ELSE IF \E i \in 1..Len(fmt) : fmt[i] = "%" THEN
                           (IF BadStrftime(fmt, 1) THEN ErrOut                              \* invalid specifier: an error, never a panic
                            \* opaque, but the format and the zone are part of the expectation: the harness formats
                            \* its own clock reading with them
                            ELSE Fit(<<IF GoodStrftime(fmt, 1) THEN "<date>" ELSE "<date?>", "<fmt>">> \o fmt
                                     \o <<"</fmt>", IF Len(pc.args) = 2 /\ pc.args[2][1].t = <<"u", "t", "c">> THEN "<utc>" ELSE "<local>">>, pc.prm))
                      ELSE Fit(fmt, pc.prm)                                                        \* literal format text
         [] n \in {<<"X">>, <<"m","d","c">>} ->
              IF Len(pc.args) > 2 \/ Len(pc.args) = 0 THEN ErrOut
              ELSE LET k == WholeText(pc.args[1])
                       d == IF Len(pc.args) = 2 THEN WholeText(pc.args[2]) ELSE [ok |-> TRUE, t |-> <<>>]
                   IN IF ~k.ok \/ ~d.ok THEN ErrOut ELSE Fit(MdcVal(k.t, d.t), pc.prm)
         [] n \in {<<"h">>, <<"h","i","g","h","l","i","g","h","t">>} ->
              IF Len(pc.args) # 1 THEN ErrOut
              ELSE Fit(StyleFor(Rec.lvl) \o RenderSeq(pc.args[1]) \o (IF StyleFor(Rec.lvl) = <<>> THEN <<>> ELSE <<"<S:0>">>), pc.prm)
         [] n \in {<<"D">>, <<"d","e","b","u","g">>} -> Group(pc, IF Len(pc.args) = 1 /\ DebugBuild THEN RenderSeq(pc.args[1]) ELSE <<>>)
         [] n \in {<<"R">>, <<"r","e","l","e","a","s","e">>} -> Group(pc, IF Len(pc.args) = 1 /\ ~DebugBuild THEN RenderSeq(pc.args[1]) ELSE <<>>)
         [] n = <<>> -> Group(pc, IF Len(pc.args) = 1 THEN RenderSeq(pc.args[1]) ELSE <<>>)
         [] OTHER -> ErrOut
Render(s) == RenderSeq(Parse(s))
\* everything before the first error marker is what renders before the error (C11: the prefix survives)
RECURSIVE UpToErr(_)
UpToErr(t) == IF t = <<>> \/ Head(t) = "<ERR>" THEN <<>> ELSE <<Head(t)>> \o UpToErr(Tail(t))
\* (A record encoded while its thread ends - from the destructor of a thread-local scope guard - has the same value
\* for every formatter that describes record and thread.  The replay does that for patterns without date and MDC; what
\* chrono and log-mdc do once their own thread-locals are gone is theirs.)
=============================================================================

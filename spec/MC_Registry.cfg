CONSTANTS
  Traits = {"append", "encode", "trigger"}
  Kinds = {"size", "x"}
  Ids = {1, 2}
  MaxOps = 4
INIT Init
NEXT Next
INVARIANTS LookupLaw Emit
CHECK_DEADLOCK FALSE

CONSTANTS
  Lvls = {0, 2, 5}
  AppLists <- AppLists3
  NamePool <- PoolLong
  Targets <- TargetsLong
  MaxLoggers = 2
  Comps <- CompsFast
INIT MetaInit
NEXT Next
INVARIANTS TreeRouteEqualsRoute OrderIrrelevant MaxLevelExact FacadeNeverHides Emit
CHECK_DEADLOCK FALSE

CONSTANTS
  Letters <- LettersDef
  Digits <- DigitsDef
  OtherAlnum <- OtherAlnumDef
  DebugBuild = TRUE
  Rec <- RecInfo
  Alphabet <- AlphabetDef
  MaxLen = 5
INIT Init
NEXT Next
INVARIANTS Total ErrorVisible Emit
CHECK_DEADLOCK FALSE

-------------------------- MODULE MC_TimeTrigger --------------------------
EXTENDS TimeTrigger, Json
\* ---- grid evaluation of the schedule function (one state per case)
VARIABLES g_now, g_unit, g_n, g_mod, b_q, b_r
BaseGrid(Years) == {Inst(Dfc(y, m, d), s) : y \in Years, m \in 1..12, d \in {1, 2, 15, 28, 29, 30, 31},
                                            s \in {0, 1, 3599, 3600, 43200, 86339, 86340, 86399}}
\* around the daylight-saving transitions of the zones the harness uses (2024)
DstGrid == {Inst(Dfc(2024, md[1], md[2]), s) : md \in {<<3, 10>>, <<3, 31>>, <<4, 7>>, <<10, 6>>, <<10, 27>>, <<11, 3>>, <<3, 9>>, <<11, 2>>, <<4, 26>>, <<10, 31>>},
                                               s \in {0, 1, 1799, 1800, 3599, 3600, 5400, 7199, 7200, 9000, 10799, 10800, 86399}}
\* year ends, leap day, ISO-week year edges
EdgeGrid == {Inst(Dfc(y, 12, 31), s) : y \in {2019, 2020, 2023, 2024, 2026}, s \in {0, 86399}}
       \cup {Inst(Dfc(y, 1, d), s) : y \in {2021, 2024, 2025, 2027}, d \in {1, 2, 3, 4}, s \in {0, 1}}
       \cup {Inst(Dfc(2024, 2, 29), s) : s \in {0, 86399}} \cup {Inst(Dfc(2100, 2, 28), 86399), Inst(Dfc(2000, 2, 29), 0)}
GridQ == BaseGrid({2024}) \cup DstGrid \cup EdgeGrid
GridT == BaseGrid({2023, 2024, 2025}) \cup DstGrid \cup EdgeGrid
NsQ == {1, 2, 3, 5, 7, 12, 24}
GInit(G) == b_q = 0 /\ b_r = 0 /\ g_now \in G /\ g_unit \in Units /\ g_n \in NsQ /\ g_mod \in BOOLEAN
            /\ now = Inst(0, 0) /\ cfg = [unit |-> "day", n |-> 1, mod |-> FALSE] /\ next = Inst(0, 0) /\ hist = <<>> /\ phase = "grid"
GInitQ == GInit(GridQ)
GInitT == GInit(GridT)
GNext == UNCHANGED <<vars, g_now, g_unit, g_n, g_mod, b_q, b_r>>
Civil(i) == LET c == Cfd(i.z) IN [y |-> c.y, mo |-> c.m, d |-> c.d, h |-> i.s \div 3600, mi |-> (i.s % 3600) \div 60, s |-> i.s % 60]
GStrict == Lt(g_now, NextTime(g_now, g_unit, g_n, g_mod))
GRoundTrip == LET c == Cfd(g_now.z) IN Dfc(c.y, c.m, c.d) = g_now.z
GAligned == LET t == NextTime(g_now, g_unit, g_n, g_mod) c == Cfd(t.z) IN
   CASE g_unit = "year" -> c.m = 1 /\ c.d = 1 /\ t.s = 0
     [] g_unit = "month" -> c.d = 1 /\ t.s = 0
     [] g_unit = "week" -> Weekday(t.z) = 0 /\ t.s = 0
     [] g_unit = "day" -> t.s = 0
     [] g_unit = "hour" -> t.s % 3600 = 0
     [] g_unit = "minute" -> t.s % 60 = 0
     [] OTHER -> TRUE
GEmit == PrintT(<<"REPLAY", ToJson([kind |-> "grid", now |-> Civil(g_now), unit |-> g_unit, n |-> g_n, mod |-> g_mod,
                                     expect |-> Civil(NextTime(g_now, g_unit, g_n, g_mod))])>>)
\* ---- big counts (seconds / minutes / hours whose length in seconds is around and beyond 2^31 and 2^32)
PerDay(u) == CASE u = "hour" -> 24 [] u = "minute" -> 1440 [] OTHER -> 86400
\* <<q, r>> with n = q * PerDay + r: 2^31 - 1, 2^31, 2^32 - 1, 2^32, 2^32 + 1, 2^33 + 5 seconds and the maximum of 1000 years;
\* minutes / hours whose length in seconds crosses 2^31 and 2^32, and their maxima
BigNs(u) == CASE u = "second" -> {<<24855, 11647>>, <<24855, 11648>>, <<49710, 23295>>, <<49710, 23296>>, <<49710, 23297>>, <<99420, 46597>>, <<365250, 0>>}
              [] u = "minute" -> {<<24855, 194>>, <<24855, 195>>, <<49710, 388>>, <<49710, 389>>, <<365250, 0>>}
              [] OTHER        -> {<<24855, 3>>, <<24855, 4>>, <<49710, 6>>, <<49710, 7>>, <<365250, 0>>}
BigGrid == {Inst(Dfc(2024, 2, 28), 86399), Inst(Dfc(2024, 12, 31), 86340), Inst(Dfc(2025, 6, 15), 43261), Inst(Dfc(2023, 1, 1), 0),
            Inst(Dfc(2024, 3, 10), 3600), Inst(Dfc(2026, 10, 4), 7325)}
BInit == /\ g_now \in BigGrid /\ g_unit \in {"hour", "minute", "second"} /\ g_mod \in BOOLEAN /\ g_n = 0
         /\ \E qr \in BigNs(g_unit) : b_q = qr[1] /\ b_r = qr[2]
         /\ now = Inst(0, 0) /\ cfg = [unit |-> "day", n |-> 1, mod |-> FALSE] /\ next = Inst(0, 0) /\ hist = <<>> /\ phase = "grid"
BNext == UNCHANGED <<vars, g_now, g_unit, g_n, g_mod, b_q, b_r>>
BStrict == Lt(g_now, NextTimeBig(g_now, g_unit, b_q, b_r, g_mod))
BEmit == PrintT(<<"REPLAY", ToJson([kind |-> "grid", now |-> Civil(g_now), unit |-> g_unit, n |-> 0, n_q |-> b_q, n_r |-> b_r, per_day |-> PerDay(g_unit),
                                     mod |-> g_mod, expect |-> Civil(NextTimeBig(g_now, g_unit, b_q, b_r, g_mod))])>>)
\* ---- trigger histories
StartsDef == {Inst(Dfc(2024, 2, 28), 86390), Inst(Dfc(2024, 12, 31), 86399), Inst(Dfc(2024, 6, 15), 43200), Inst(Dfc(2025, 1, 5), 0),
              Inst(Dfc(2024, 3, 30), 7000)}
ConfigsDef == [unit : {"second"}, n : {2}, mod : BOOLEAN] \cup [unit : {"minute"}, n : {1}, mod : BOOLEAN]
              \cup [unit : {"hour"}, n : {3}, mod : BOOLEAN] \cup [unit : {"day"}, n : {1}, mod : BOOLEAN]
              \cup [unit : {"week"}, n : {1}, mod : BOOLEAN] \cup [unit : {"month"}, n : {2}, mod : BOOLEAN]
              \cup [unit : {"year"}, n : {1}, mod : BOOLEAN]
DeltasDef == {0, 1, 59, 60, 3600, 86400, 604800, 3456000}
HInit == Init /\ g_now = Inst(0, 0) /\ g_unit = "day" /\ g_n = 1 /\ g_mod = FALSE /\ b_q = 0 /\ b_r = 0
HNext == Next /\ UNCHANGED <<g_now, g_unit, g_n, g_mod, b_q, b_r>>
HistJson == [i \in 1..Len(hist) |-> IF hist[i].op = "new" THEN [op |-> "new", now |-> Civil(hist[i].now), sched |-> Civil(hist[i].sched), fire |-> FALSE]
                                    ELSE [op |-> "arrive", now |-> Civil(hist[i].now), sched |-> Civil(hist[i].sched), fire |-> hist[i].fire]]
HEmit == (phase = "run" /\ Len(hist) = MaxArrivals + 1) => PrintT(<<"REPLAY", ToJson([kind |-> "history", cfg |-> cfg, ops |-> HistJson])>>)
============================================================================

---------------------------- MODULE MC_DateZone ----------------------------
EXTENDS DateZone, Json, TLC
\* complete histories that contain an encode after a zone change
Interesting == \/ \E i, j \in 1..Len(hist) : i > 1 /\ i < j /\ hist[i].op = "zone" /\ hist[j].op = "encode"
               \/ \E i, j \in 1..Len(hist) : i < j /\ hist[i].op = "encode" /\ hist[j].op = "encode" /\ hist[i].k = hist[j].k /\ hist[i].k \in {"ns", "us", "ms", "msdot"}
               \/ \E i, j \in 1..Len(hist) : i < j /\ hist[i].op = "fork" /\ hist[j].op = "encode" /\ hist[j].k = "pid"
Emit == (Len(hist) = MaxOps + 1 /\ Interesting) => PrintT(<<"REPLAY", ToJson([ops |-> hist])>>)
=============================================================================

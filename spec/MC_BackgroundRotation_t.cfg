CONSTANTS
  MaxRolls = 6
  Count = 3
  MaxRestarts = 3
  SharedHandOff = TRUE
SPECIFICATION Spec
INVARIANTS OneRotationAtATime QuiescentWindow InWindowOrGone
PROPERTIES NoOrphan
CHECK_DEADLOCK FALSE

------------------------------ MODULE JsonLine ------------------------------
(***************************************************************************)
(* The JSON encoder's line contract (src/encode/json.rs).                     *)
(* A record is given by class sequences for its text fields - the classes    *)
(* are the ones that matter to a JSON writer: plain, quote, backslash, LF,    *)
(* CR, another C0 control, DEL, 2/3/4-byte characters, U+2028 - presence      *)
(* flags for the optional fields, a line number, a thread name or none, and   *)
(* an MDC map.  The contract: the output is one JSON object followed by       *)
(* exactly one newline, contains no raw byte below 0x20 before it, has        *)
(* exactly the members Members(rec), and each member's value is the record's  *)
(* (Value).  The sink is an io::Write: a write call may accept any non-empty  *)
(* prefix of what it is offered, and the contract is about the bytes the sink *)
(* accepted in total (the replay uses sinks that take everything, one byte,   *)
(* three bytes, or 7 / 1 / 64 bytes per call, one call interrupted).  MaxLen   *)
(* bounds the enumeration only: the contract has no length limit, and the     *)
(* replay adds records with fields of 255 .. 70 001 characters.  The line is  *)
(* a function of the record, the thread and its context map alone: what other *)
(* encoders rendered on the same thread before (a pattern with the thread's   *)
(* name in front of the JSON appender) plays no part - the replay runs such   *)
(* an encoder first in two of three cases.  Nothing dynamic is model-checked  *)
(* here: TLC enumerates the record space and supplies the expected abstract   *)
(* line for the conformance step.                                             *)
(***************************************************************************)
EXTENDS Integers, Sequences, FiniteSets, TLC
CONSTANTS Classes, MaxLen, Budget
Absent == <<"-absent-">>
VARIABLES rec, phase, budget
vars == <<rec, phase, budget>>
TextFields == {"message", "target", "module_path", "file", "thread"}
Default == [level |-> 3, message |-> <<"plain">>, target |-> <<"plain">>, module_path |-> <<"plain">>, file |-> <<"plain">>,
            line |-> 7, thread |-> <<"plain">>, mdc |-> {}]
Init == rec = Default /\ phase = "grow" /\ budget = Budget     \* at most Budget fields are varied per record
\* replace one text field by the empty string and start growing it
Pick(f) == /\ phase = "grow" /\ budget > 0 /\ rec[f] = Default[f]
           /\ rec' = [rec EXCEPT ![f] = <<>>] /\ budget' = budget - 1 /\ UNCHANGED phase
Grow(f) == /\ phase = "grow" /\ rec[f] # Default[f] /\ rec[f] # Absent /\ Len(rec[f]) < MaxLen
           /\ \E c \in Classes : rec' = [rec EXCEPT ![f] = Append(@, c)]
           /\ UNCHANGED <<phase, budget>>
Drop(f) == /\ phase = "grow" /\ f \in {"module_path", "file", "thread"} /\ rec[f] = Default[f] /\ budget > 0
           /\ rec' = [rec EXCEPT ![f] = Absent] /\ budget' = budget - 1 /\ UNCHANGED phase
SetLine == /\ phase = "grow" /\ rec.line = 7 /\ budget > 0
           /\ \E n \in {-1, 0, 429496729} : rec' = [rec EXCEPT !.line = n]    \* -1 = absent; the harness maps 429496729 to u32::MAX
           /\ budget' = budget - 1 /\ UNCHANGED phase
SetLevel == /\ phase = "grow" /\ rec.level = 3 /\ budget > 0
            /\ \E l \in {1, 2, 4, 5} : rec' = [rec EXCEPT !.level = l]
            /\ budget' = budget - 1 /\ UNCHANGED phase
AddMdc == /\ phase = "grow" /\ Cardinality(rec.mdc) < 2 /\ budget > 0
          /\ \E k \in {<<"plain">>, <<"quote", "plain">>, <<>>, <<"plain", "dot", "plain">>, <<"plain", "us", "plain">>, <<"b3", "dot">>}, v \in {<<>>, <<"plain">>, <<"lf">>, <<"quote", "bslash">>, <<"b3", "ctl">>} :
               /\ \A p \in rec.mdc : p[1] # k
               /\ rec' = [rec EXCEPT !.mdc = @ \cup {<<k, v>>}]
          /\ budget' = budget - 1 /\ UNCHANGED phase
Finish == phase = "grow" /\ phase' = "done" /\ UNCHANGED <<rec, budget>>
Next == (\E f \in TextFields : Pick(f) \/ Grow(f) \/ Drop(f)) \/ SetLine \/ SetLevel \/ AddMdc \/ Finish

\* ---- the contract
Members(r) == {"time", "level", "message", "target", "thread", "thread_id", "mdc"}
              \cup (IF r.module_path # Absent THEN {"module_path"} ELSE {})
              \cup (IF r.file # Absent THEN {"file"} ELSE {})
              \cup (IF r.line # -1 THEN {"line"} ELSE {})
\* absent optional fields are omitted, never emitted with a placeholder
OptionalOmitted == phase = "done" => \A f \in {"module_path", "file"} : (rec[f] = Absent) <=> (f \notin Members(rec))
\* (How the encode call was reached is not part of the line: a record logged by a scope guard's destructor while a
\* panic unwinds the scope is a record like any other, with the thread's context map as it is.)
=============================================================================

----------------------------- MODULE MC_Literals -----------------------------
EXTENDS Literals, Json
Emit == phase = "judged" => PrintT(<<"REPLAY", ToJson([target |-> Target, lit |-> lit, verdict |-> Decide(lit), trigger_ok |-> TriggerOk(lit)])>>)
=============================================================================

---------------------------- MODULE ConfigFormat ----------------------------
(***************************************************************************)
(* Which reader a configuration file gets (src/config/file.rs,               *)
(* Format::from_path + Format::parse, reached through load_config_file and   *)
(* init_file): decided by the file name's last extension alone, compared     *)
(* case-sensitively; the content is then read by that reader whatever it is. *)
(* Names: a stem, then zero or more dot-separated parts.  Contents: the same *)
(* small document written as block YAML, as JSON and as TOML.  JSON text is  *)
(* valid YAML; nothing else crosses over.                                    *)
(***************************************************************************)
EXTENDS Sequences, TLC
Exts == {"yaml", "yml", "json", "toml", "YAML", "Json", "txt", "conf", ""}      \* "" = the name ends in a dot
Stems == {"log4rs", ".log4rs", ""}                                               \* "" with one part = a dot file such as ".yaml"
Names == [stem : Stems, parts : {<<>>} \cup {<<e>> : e \in Exts} \cup {<<a, b>> : a \in {"yaml", "json", "d"}, b \in Exts}]
Contents == {"yaml", "json", "toml"}
VARIABLES name, content
vars == <<name, content>>
\* Path::extension: the part after the last dot - none if there is no dot, if the only dot starts the file name,
\* or ... an empty one if the name ends in a dot
LastExt(n) == IF n.parts = <<>> THEN "none"
              ELSE IF n.stem = "" /\ Len(n.parts) = 1 THEN "none"              \* ".yaml" is a dot file without extension
              ELSE n.parts[Len(n.parts)]
Reader(e) == CASE e \in {"yaml", "yml"} -> "yaml" [] e = "json" -> "json" [] e = "toml" -> "toml" [] OTHER -> "-"
Reads(reader, c) == reader = c \/ (reader = "yaml" /\ c = "json")
Outcome(n, c) == LET e == LastExt(n) IN
                 IF e = "none" THEN "unknown-format"
                 ELSE IF Reader(e) = "-" THEN "unsupported-format"
                 ELSE IF Reads(Reader(e), c) THEN "loaded" ELSE "parse-error"
Init == name \in Names /\ content \in Contents
Next == UNCHANGED vars
\* the reader never depends on anything but the last extension
ExtensionAlone == \A m \in Names : LastExt(m) = LastExt(name) => Outcome(m, content) = Outcome(name, content)
=============================================================================

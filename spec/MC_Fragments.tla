---------------------------- MODULE MC_Fragments ----------------------------
EXTENDS Fragments, Json, TLC
Emit == PrintT(<<"REPLAY", ToJson([frags |-> frags, total |-> Total(frags)])>>)
=============================================================================

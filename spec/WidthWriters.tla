---------------------------- MODULE WidthWriters ----------------------------
(***************************************************************************)
(* MaxWidthWriter / LeftAlignWriter / RightAlignWriter (src/encode/pattern/  *)
(* mod.rs) exactly as Chunk::encode composes them for (min, max, align).     *)
(* Bytes are modelled by class: "L" = lead byte of a character, "C" =        *)
(* continuation byte.  Two independent sources of "pieces" are explored:     *)
(*  - the producer hands over the text in write calls cut at any set of      *)
(*    character boundaries (`cuts`; what fmt::Write::write_str guarantees);  *)
(*  - the sink underneath accepts an arbitrary number of bytes >= 1 per call *)
(*    (`script`, cycled), legal for any io::Write, so the retry bookkeeping  *)
(*    (remaining -= char_starts(..), to_fill.saturating_sub(..)) runs with   *)
(*    remainders that begin inside a character.                              *)
(* Law is the property: cut to the first max characters, then pad with the   *)
(* fill on the chosen side up to min characters, counting characters.        *)
(* The producer is whatever the spec is attached to: a formatter, a group    *)
(* (around formatters or around literal characters of the pattern alone),    *)
(* a conditional group - its body where it is active, and nothing at all     *)
(* (`text = <<>>`, hence all padding) where the build makes it inactive,     *)
(* whatever its body would have rendered; the replay uses all of these.      *)
(***************************************************************************)
EXTENDS Integers, Sequences, TLC

CONSTANTS MaxChars, Classes, Widths, Accepts, ScriptLen

VARIABLES stage, text, cuts, prm, script
vars == <<stage, text, cuts, prm, script>>

Min(a, b) == IF a < b THEN a ELSE b
SatSub(a, b) == IF a > b THEN a - b ELSE 0
RECURSIVE CharBytes(_)
CharBytes(k) == IF k = 1 THEN <<"L">> ELSE CharBytes(k - 1) \o <<"C">>
RECURSIVE Bytes(_)
Bytes(cs) == IF cs = <<>> THEN <<>> ELSE CharBytes(Head(cs)) \o Bytes(Tail(cs))
RECURSIVE CharStarts(_)
CharStarts(b) == IF b = <<>> THEN 0 ELSE (IF Head(b) = "L" THEN 1 ELSE 0) + CharStarts(Tail(b))

\* ---- writer state: [rem, tofill, rbuf, out, k] ; configuration from prm ----
Accept(k) == script[((k - 1) % Len(script)) + 1]
HasMax == prm.max >= 0
\* the sink accepts a prefix of what it is offered; an accept value of 0 stands for ErrorKind::Interrupted: nothing is
\* accepted, the error travels up through the width writers, and write_all / write_fmt at the top repeat the call
\* with the same bytes - so a call that accepted nothing must leave every counter as it was
SinkWrite(st, buf) ==
  LET n == Min(Len(buf), Accept(st.k)) IN
  [st |-> [st EXCEPT !.out = @ \o SubSeq(buf, 1, n), !.k = @ + 1], n |-> n]

\* scan for the cut position: returns [end, rem]
RECURSIVE Scan(_, _, _)
Scan(buf, i, rem) ==
  IF i > Len(buf) THEN [end |-> Len(buf), rem |-> rem]
  ELSE IF buf[i] = "L" THEN (IF rem = 0 THEN [end |-> i - 1, rem |-> rem] ELSE Scan(buf, i + 1, rem - 1))
  ELSE Scan(buf, i + 1, rem)

MaxWrite(st, buf) ==
  LET sc == Scan(buf, 1, st.rem) IN
  IF sc.end = 0 THEN [st |-> st, n |-> Len(buf)]                     \* sink past the limit
  ELSE LET r == SinkWrite(st, SubSeq(buf, 1, sc.end)) IN
       IF r.n = sc.end THEN [st |-> [r.st EXCEPT !.rem = sc.rem], n |-> r.n]
       ELSE [st |-> [r.st EXCEPT !.rem = st.rem - CharStarts(SubSeq(buf, 1, r.n))], n |-> r.n]

InnerWrite(st, buf) == IF HasMax THEN MaxWrite(st, buf) ELSE SinkWrite(st, buf)
RECURSIVE InnerWriteAll(_, _)
InnerWriteAll(st, buf) == IF buf = <<>> THEN st
                          ELSE LET r == InnerWrite(st, buf) IN InnerWriteAll(r.st, SubSeq(buf, r.n + 1, Len(buf)))

OuterWrite(st, buf) ==
  IF prm.min < 0 THEN InnerWrite(st, buf)
  ELSE IF prm.align = "L" THEN
       LET r == InnerWrite(st, buf) IN
       [st |-> [r.st EXCEPT !.tofill = SatSub(@, CharStarts(SubSeq(buf, 1, r.n)))], n |-> r.n]
  ELSE [st |-> [st EXCEPT !.tofill = SatSub(@, CharStarts(buf)), !.rbuf = @ \o buf], n |-> Len(buf)]
RECURSIVE OuterWriteAll(_, _)
OuterWriteAll(st, buf) == IF buf = <<>> THEN st
                          ELSE LET r == OuterWrite(st, buf) IN OuterWriteAll(r.st, SubSeq(buf, r.n + 1, Len(buf)))

RECURSIVE Fill(_, _)
Fill(st, n) == IF n = 0 THEN st ELSE Fill(InnerWriteAll(st, CharBytes(prm.fill)), n - 1)

\* pieces: text cut at the character positions in `cuts`
RECURSIVE Pieces(_, _)
Pieces(cs, from) == IF from > Len(cs) THEN <<>>
                    ELSE LET nxt == IF \E c \in cuts : c >= from THEN CHOOSE c \in cuts : c >= from /\ \A d \in cuts : d >= from => c <= d ELSE Len(cs)
                         IN <<Bytes(SubSeq(cs, from, nxt))>> \o Pieces(cs, nxt + 1)
RECURSIVE Feed(_, _)
Feed(st, ps) == IF ps = <<>> THEN st ELSE Feed(OuterWriteAll(st, Head(ps)), Tail(ps))

Encode ==
  LET st0 == [rem |-> prm.max, tofill |-> IF prm.min < 0 THEN 0 ELSE prm.min, rbuf |-> <<>>, out |-> <<>>, k |-> 1]
      st1 == Feed(st0, Pieces(text, 1))
  IN IF prm.min < 0 THEN st1.out
     ELSE IF prm.align = "L" THEN Fill(st1, st1.tofill).out
     ELSE InnerWriteAll(Fill(st1, st1.tofill), st1.rbuf).out

\* ---- the law, on characters ----
RECURSIVE Rep(_, _)
Rep(c, n) == IF n <= 0 THEN <<>> ELSE <<c>> \o Rep(c, n - 1)
LawKeep == IF prm.max >= 0 THEN Min(Len(text), prm.max) ELSE Len(text)          \* characters of the text that survive
LawPad == IF prm.min >= 0 /\ prm.min > LawKeep THEN prm.min - LawKeep ELSE 0       \* fill characters added
Law == LET cut == SubSeq(text, 1, LawKeep)
           pad == Rep(prm.fill, LawPad)
       IN Bytes(IF prm.align = "L" THEN cut \o pad ELSE pad \o cut)

\* character classes (byte lengths) of a byte-class sequence, assuming it starts at a lead byte
RECURSIVE CharsOf(_, _)
CharsOf(b, i) == IF i > Len(b) THEN <<>>
                 ELSE LET RECURSIVE Run(_) Run(j) == IF j <= Len(b) /\ b[j] = "C" THEN Run(j + 1) ELSE j
                          e == Run(i + 1)
                      IN <<e - i>> \o CharsOf(b, e)
RECURSIVE Whole(_, _)
Whole(b, need) == IF b = <<>> THEN need = 0
                  ELSE IF Head(b) = "L" THEN need = 0 /\ Whole(Tail(b), -1)   \* -1: unknown length, continuation allowed
                  ELSE need # 0 /\ Whole(Tail(b), need)

Init == stage = 0 /\ text = <<>> /\ cuts = {} /\ prm = [min |-> -1, max |-> -1, align |-> "L", fill |-> 1] /\ script = <<1>>
GrowText == stage = 0 /\ Len(text) < MaxChars /\ \E c \in Classes : text' = Append(text, c) /\ UNCHANGED <<stage, cuts, prm, script>>
ChooseCuts == stage = 0 /\ stage' = 1 /\ \E S \in SUBSET (1..(Len(text) - 1)) : cuts' = S /\ UNCHANGED <<text, prm, script>>
ChoosePrm == stage = 1 /\ stage' = 2 /\ \E mn \in Widths, mx \in Widths, al \in {"L", "R"}, f \in {1, 2, 3} :
                 /\ (mn < 0 => al = "L" /\ f = 1)
                 /\ prm' = [min |-> mn, max |-> mx, align |-> al, fill |-> f]
             /\ UNCHANGED <<text, cuts, script>>
RECURSIVE Scripts(_)
Scripts(n) == IF n = 0 THEN {<<>>} ELSE {Append(s, a) : s \in Scripts(n - 1), a \in Accepts}
ChooseScript == stage = 2 /\ stage' = 3 /\ script' \in {sc \in Scripts(ScriptLen) : \E i \in 1..Len(sc) : sc[i] # 0}
                /\ UNCHANGED <<text, cuts, prm>>
Next == GrowText \/ ChooseCuts \/ ChoosePrm \/ ChooseScript

\* the exact law is stated for min <= max (when both are given)
InDomain == prm.min < 0 \/ prm.max < 0 \/ prm.min <= prm.max
WidthLaw  == (stage = 3 /\ InDomain) => Encode = Law
AtMostM   == (stage = 3 /\ prm.max >= 0) => CharStarts(Encode) <= prm.max
\* the emitted bytes always form whole characters
Utf8Whole == stage = 3 => LET e == Encode IN (e = <<>> \/ e[1] = "L") /\ Len(e) = Len(Bytes(CharsOf(e, 1)))
\* the chunking of the producer and the acceptance pattern of the sink do not matter: Law mentions neither
\* (Nesting: a group's text is what its body produced - for a body that is one spec'd item, Expected of that item - and
\* the group's own spec applies the same law to that text.  The replay wraps a quarter of its exact cases into a group
\* with a second spec and expects the law applied twice, including a group minimum larger than the inner maximum.)
=============================================================================

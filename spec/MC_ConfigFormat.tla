--------------------------- MODULE MC_ConfigFormat ---------------------------
EXTENDS ConfigFormat, Json
Emit == PrintT(<<"REPLAY", ToJson([stem |-> name.stem, parts |-> name.parts, content |-> content, outcome |-> Outcome(name, content),
                                   ext |-> LastExt(name)])>>)
=============================================================================

-------------------------- MODULE MC_WidthWriters --------------------------
EXTENDS WidthWriters, Json
WidthsQ == {-1, 0, 1, 2, 4, 12, 34}    \* 12 and 34: long runs of padding (block-wise fill implementations)
WidthsT == {-1, 0, 1, 2, 3, 5, 11, 33, 65}
RECURSIVE SetToSeq(_)
SetToSeq(S) == IF S = {} THEN <<>> ELSE LET x == CHOOSE y \in S : \A z \in S : y <= z IN <<x>> \o SetToSeq(S \ {x})
Emit == stage = 3 => PrintT(<<"REPLAY", ToJson([text |-> text, cuts |-> SetToSeq(cuts), prm |-> prm, script |-> script,
                                                 exact |-> InDomain, keep |-> LawKeep, pad |-> LawPad])>>)
============================================================================

CONSTANTS
  Starts = {}
  Configs = {}
  Deltas = {}
  MaxArrivals = 0
INIT GInitT
NEXT GNext
INVARIANTS GStrict GRoundTrip GAligned GEmit
CHECK_DEADLOCK FALSE

CONSTANTS
  Starts <- StartsDef
  Configs <- ConfigsDef
  Deltas <- DeltasDef
  MaxArrivals = 300
INIT HInit
NEXT HNext
INVARIANTS StrictlyFuture HEmit
CHECK_DEADLOCK FALSE

CONSTANTS
  MaxForks = 0
  Zones = {"UTC0", "JST-9"}
  Kinds = {"ns", "us", "ms", "msdot"}
  MaxOps = 5
SPECIFICATION Spec
INVARIANTS UtcFixed LocalCurrent PidCurrent ClockRead Emit
CHECK_DEADLOCK FALSE

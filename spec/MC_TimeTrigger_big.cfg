CONSTANTS
  Starts = {}
  Configs = {}
  Deltas = {}
  MaxArrivals = 0
INIT BInit
NEXT BNext
INVARIANTS BStrict BEmit
CHECK_DEADLOCK FALSE
